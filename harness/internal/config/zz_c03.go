package config

import (
	"net"
	"net/netip"
	"time"

	"github.com/mdlayher/corerad/internal/plugin"
	"github.com/mdlayher/ndp"
)

// zzRoundTrip marshals and re-parses an RA; encoding must succeed for every
// accepted configuration.
func zzRoundTrip(ra *ndp.RouterAdvertisement, id string) *ndp.RouterAdvertisement {
	b, err := ndp.MarshalMessage(ra)
	zzAssert(err == nil, id+"/encodes")
	if err != nil {
		return nil
	}
	m, err := ndp.ParseMessage(b)
	zzAssert(err == nil, id+"/decodes")
	if err != nil {
		return nil
	}
	out, ok := m.(*ndp.RouterAdvertisement)
	zzAssert(ok, id+"/decodes-as-ra")
	if !ok {
		return nil
	}
	return out
}

// zzSameUpTo: d is non-negative, within the field's range, and its decoded
// value d2 equals d up to truncation to the unit.
func zzSameUpTo(d, d2, unit, max time.Duration, id string) {
	zzAssert(d >= 0, id+"/non-negative")
	zzAssert(d <= max, id+"/within-field-range")
	zzAssert(zzAnd(d2 <= d, d-d2 < unit), id+"/same-up-to-truncation")
}

// H03header: the seven header fields of an accepted interface.
func zzH03header() {
	var raw rawInterface
	raw.Advertise = true
	var max time.Duration
	raw.MaxInterval, max = zzValueKey("max_interval")
	_ = max
	raw.DefaultLifetime, _ = zzDurKeyPtr("default_lifetime")
	raw.ReachableTime, _ = zzValueKey("reachable_time")
	raw.RetransmitTimer, _ = zzValueKey("retransmit_timer")
	hop := zzNondetInt("hop_limit")
	raw.HopLimit = &hop
	raw.Managed, raw.OtherConfig = zzNondetBool("managed"), zzNondetBool("other_config")
	f := false
	raw.SourceLLA = &f
	switch zzNondetChoice("preference", 3) {
	case 1:
		raw.Preference = "low"
	case 2:
		raw.Preference = "high"
	}
	ifi, err := parseInterface("eth0", raw, time.Time{})
	zzAssume(err == nil) // the precondition is the code's own acceptance
	ra, _, err := ifi.RouterAdvertisement(true)
	zzAssert(err == nil, "generates")
	if err != nil {
		return
	}
	out := zzRoundTrip(ra, "header")
	if out == nil {
		return
	}
	zzSameUpTo(ra.RouterLifetime, out.RouterLifetime, time.Second, 65535*time.Second, "router-lifetime")
	zzSameUpTo(ra.ReachableTime, out.ReachableTime, time.Millisecond, 4294967295*time.Millisecond, "reachable-time")
	zzSameUpTo(ra.RetransmitTimer, out.RetransmitTimer, time.Millisecond, 4294967295*time.Millisecond, "retransmit-timer")
	zzAssert(zzAnd(out.CurrentHopLimit == ra.CurrentHopLimit, zzAnd(out.ManagedConfiguration == ra.ManagedConfiguration, out.OtherConfiguration == ra.OtherConfiguration)), "hop-limit-and-flags")
	zzAssert(out.RouterSelectionPreference == ra.RouterSelectionPreference, "preference")
}

// zzLifeSame: a lifetime placed in an option: infinity maps to infinity,
// anything else is non-negative, below infinity, and survives up to 1s.
func zzLifeSame(d, d2 time.Duration, id string) {
	zzAssert(zzOr(d == ndp.Infinity, zzAnd(d >= 0, d < ndp.Infinity)), id+"/non-negative-and-representable")
	zzAssert(zzImplies(d == ndp.Infinity, d2 == ndp.Infinity), id+"/infinity-preserved")
	// one-unit tolerance above 2^23 s (float rounding inside ndp), exact for whole seconds
	zzAssert(zzImplies(d != ndp.Infinity, zzAnd(d2-d < time.Second, d-d2 < time.Second)), id+"/same-up-to-one-second")
	zzAssert(zzImplies(d%time.Second == 0, d2 == d), id+"/whole-seconds-exact")
}

// H03prefix: a static prefix stanza.
func zzH03prefix() {
	var rp rawPrefix
	s, kind, _ := zzPrefixKey("prefix")
	zzAssume(kind == zzPv6)
	rp.Prefix = s
	rp.ValidLifetime, _ = zzDurKeyPtr("valid_lifetime")
	rp.PreferredLifetime, _ = zzDurKeyPtr("preferred_lifetime")
	p, err := parsePrefix(rp, time.Time{})
	zzAssume(err == nil)
	zzAssume(zzNot(p.Auto))
	ra := &ndp.RouterAdvertisement{}
	zzAssert(p.Apply(ra) == nil, "applies")
	out := zzRoundTrip(ra, "prefix")
	if out == nil || len(ra.Options) != 1 {
		return
	}
	zzAssert(len(out.Options) == 1, "one-option-decoded")
	if len(out.Options) != 1 {
		return
	}
	a := ra.Options[0].(*ndp.PrefixInformation)
	b, ok := out.Options[0].(*ndp.PrefixInformation)
	zzAssert(ok, "decodes-as-prefix-information")
	if !ok {
		return
	}
	zzLifeSame(a.ValidLifetime, b.ValidLifetime, "valid")
	zzLifeSame(a.PreferredLifetime, b.PreferredLifetime, "preferred")
	zzAssert(zzAnd(a.Prefix == b.Prefix, a.PrefixLength == b.PrefixLength), "prefix-and-length")
	zzAssert(zzAnd(a.OnLink == b.OnLink, a.AutonomousAddressConfiguration == b.AutonomousAddressConfiguration), "flags")
}

// H03route: a static route stanza.
func zzH03route() {
	var rr rawRoute
	s, kind, _ := zzPrefixKey("prefix")
	zzAssume(kind == zzPv6)
	rr.Prefix = s
	rr.Lifetime, _ = zzDurKeyPtr("lifetime")
	switch zzNondetChoice("preference", 3) {
	case 1:
		rr.Preference = "low"
	case 2:
		rr.Preference = "high"
	}
	r, err := parseRoute(rr, time.Time{})
	zzAssume(err == nil)
	zzAssume(zzNot(r.Auto))
	ra := &ndp.RouterAdvertisement{}
	zzAssert(r.Apply(ra) == nil, "applies")
	out := zzRoundTrip(ra, "route")
	if out == nil || len(ra.Options) != 1 || len(out.Options) != 1 {
		zzAssert(out == nil || len(out.Options) == 1, "one-option-decoded")
		return
	}
	a := ra.Options[0].(*ndp.RouteInformation)
	b, ok := out.Options[0].(*ndp.RouteInformation)
	zzAssert(ok, "decodes-as-route-information")
	if !ok {
		return
	}
	zzLifeSame(a.RouteLifetime, b.RouteLifetime, "lifetime")
	zzAssert(zzAnd(a.PrefixLength == b.PrefixLength, a.Preference == b.Preference), "length-and-preference")
	// mdlayher/ndp's own decoder keeps only the whole bytes of a route prefix
	// (the encoder writes all of them): the comparison is on those bytes
	x, y := a.Prefix.As16(), b.Prefix.As16()
	same := true
	for i := 0; i < 16; i++ {
		same = zzAnd(same, zzOr(i >= int(a.PrefixLength)/8, x[i] == y[i]))
	}
	zzAssert(same, "prefix-whole-bytes")
	zzAssert(zzImplies(a.PrefixLength%8 == 0, a.Prefix == b.Prefix), "prefix-exact-for-byte-aligned-lengths")
}

// H03rdnss / H03dnssl: lifetimes of the DNS options.
func zzH03dns() {
	max := zzNondetDuration("max_interval")
	zzAssume(zzAnd(max >= 4*time.Second, max <= 1800*time.Second))
	ra := &ndp.RouterAdvertisement{}
	which := zzNondetChoice("which", 2)
	if which == 0 {
		var rd rawRDNSS
		rd.Lifetime, _ = zzDurKeyPtr("lifetime")
		s := zzAtom("server")
		zzPA[s] = zzPARes{a: zzNondetAddr6("server"), ok: true}
		rd.Servers = []string{s}
		r, err := parseRDNSS(rd, max)
		zzAssume(err == nil)
		zzAssume(zzNot(r.Auto))
		zzAssert(r.Apply(ra) == nil, "applies")
	} else {
		var rd rawDNSSL
		rd.Lifetime, _ = zzDurKeyPtr("lifetime")
		rd.DomainNames = []string{"lan.example.com"}
		d, err := parseDNSSL(rd, max)
		zzAssume(err == nil)
		zzAssert(d.Apply(ra) == nil, "applies")
	}
	out := zzRoundTrip(ra, "dns")
	if out == nil || len(out.Options) != 1 {
		zzAssert(out == nil, "one-option-decoded")
		return
	}
	if which == 0 {
		a := ra.Options[0].(*ndp.RecursiveDNSServer)
		b, ok := out.Options[0].(*ndp.RecursiveDNSServer)
		zzAssert(ok, "decodes-as-rdnss")
		if ok {
			zzLifeSame(a.Lifetime, b.Lifetime, "rdnss-lifetime")
			zzAssert(len(b.Servers) == 1 && b.Servers[0] == a.Servers[0], "rdnss-servers")
		}
	} else {
		a := ra.Options[0].(*ndp.DNSSearchList)
		b, ok := out.Options[0].(*ndp.DNSSearchList)
		zzAssert(ok, "decodes-as-dnssl")
		if ok {
			zzLifeSame(a.Lifetime, b.Lifetime, "dnssl-lifetime")
			zzAssert(len(b.DomainNames) == 1 && b.DomainNames[0] == "lan.example.com", "dnssl-names")
		}
	}
}

// H03misc: mtu, source LLA, pref64.
func zzH03misc() {
	var raw rawInterface
	raw.Advertise = true
	var max time.Duration
	raw.MaxInterval, max = zzValueKey("max_interval")
	_ = max
	raw.MTU = zzNondetInt("mtu")
	f := false
	raw.SourceLLA = &f
	which := zzNondetChoice("pref64", 3)
	if which > 0 {
		var rp rawPREF64
		if which == 2 {
			// any prefix string the parser accepts: the six encodable lengths
			// (anything else is rejected, see H02pref64), any address bits
			s := zzAtom("pref64.prefix")
			bits := []int{96, 64, 56, 48, 40, 32}[zzNondetChoice("pref64.prefix.len", 6)]
			zzPP[s] = zzPPRes{p: netip.PrefixFrom(zzNondetAddr6("pref64.prefix"), bits), ok: true}
			rp.Prefix = &s
		}
		raw.PREF64 = []rawPREF64{rp}
	}
	ifi, err := parseInterface("eth0", raw, time.Time{})
	zzAssume(err == nil)
	// runtime part of source_lla (Prepare): Ethernet address or none
	if zzNondetChoice("mac", 2) == 1 {
		mac := make(net.HardwareAddr, 6)
		for i := range mac {
			mac[i] = zzNondetUint8("mac")
		}
		ifi.Plugins = append(ifi.Plugins, &plugin.LLA{Addr: mac})
	}
	ra, _, err := ifi.RouterAdvertisement(true)
	zzAssert(err == nil, "generates")
	if err != nil {
		return
	}
	out := zzRoundTrip(ra, "misc")
	if out == nil {
		return
	}
	zzAssert(len(out.Options) == len(ra.Options), "same-number-of-options")
	if len(out.Options) != len(ra.Options) {
		return
	}
	for i, o := range ra.Options {
		switch a := o.(type) {
		case *ndp.MTU:
			b, ok := out.Options[i].(*ndp.MTU)
			zzAssert(ok && b.MTU == a.MTU, "mtu")
			zzAssert(int(a.MTU) == raw.MTU, "mtu-not-wrapped")
		case *ndp.LinkLayerAddress:
			b, ok := out.Options[i].(*ndp.LinkLayerAddress)
			zzAssert(ok && b.Direction == a.Direction, "lla")
		case *ndp.PREF64:
			b, ok := out.Options[i].(*ndp.PREF64)
			zzAssert(ok, "pref64-decodes")
			if ok {
				zzAssert(b.Prefix == a.Prefix, "pref64-prefix")
				zzAssert(b.Lifetime == a.Lifetime, "pref64-lifetime")
			}
		}
	}
}

// H03captive: a captive-portal URI the parser accepts always encodes and
// decodes to the same URI (lengths around the option-length boundaries).
func zzH03captive() {
	lengths := []int{3, 6, 14, 100, 245, 246, 247, 248, 254, 255, 256, 262, 263, 500, 518}
	n := lengths[zzNondetChoice("uri.length", len(lengths))]
	uri := "h:"
	for len(uri) < n {
		uri += "x"
	}
	var raw rawInterface
	raw.Advertise = true
	f := false
	raw.SourceLLA = &f
	raw.CaptivePortal = uri
	zzKnownClass("uri-longer-than-246-bytes", n > 246)
	ifi, err := parseInterface("eth0", raw, time.Time{})
	zzAssume(err == nil)
	ra, _, err := ifi.RouterAdvertisement(true)
	zzAssert(err == nil, "generates")
	if err != nil {
		return
	}
	out := zzRoundTrip(ra, "captive")
	if out == nil {
		return
	}
	zzAssert(len(out.Options) == 1, "one-option-decoded")
	if len(out.Options) == 1 {
		cp, ok := out.Options[0].(*ndp.CaptivePortal)
		zzAssert(ok && cp.URI == uri, "same-uri")
	}
}
