package config

import (
	"github.com/mdlayher/ndp"
	"time"
)

// H03route: a static route stanza.
func zzH03route() {
	var rr rawRoute
	s, kind, _ := zzPrefixKey("prefix")
	zzAssume(kind == zzPv6)
	rr.Prefix = s
	rr.Lifetime, _ = zzDurKeyPtr("lifetime")
	switch zzNondetChoice("preference", 3) {
	case 1:
		rr.Preference = "low"
	case 2:
		rr.Preference = "high"
	}
	r, err := parseRoute(rr, time.Time{})
	zzAssume(err == nil)
	zzAssume(zzNot(r.Auto))
	ra := &ndp.RouterAdvertisement{}
	zzAssert(r.Apply(ra) == nil, "applies")
	out := zzRoundTrip(ra, "route")
	if out == nil || len(ra.Options) != 1 || len(out.Options) != 1 {
		zzAssert(out == nil || len(out.Options) == 1, "one-option-decoded")
		return
	}
	a := ra.Options[0].(*ndp.RouteInformation)
	b, ok := out.Options[0].(*ndp.RouteInformation)
	zzAssert(ok, "decodes-as-route-information")
	if !ok {
		return
	}
	zzLifeSame(a.RouteLifetime, b.RouteLifetime, "lifetime")
	zzAssert(zzAnd(a.PrefixLength == b.PrefixLength, a.Preference == b.Preference), "length-and-preference")
	// mdlayher/ndp's own decoder keeps only the whole bytes of a route prefix
	// (the encoder writes all of them): the comparison is on those bytes
	x, y := a.Prefix.As16(), b.Prefix.As16()
	same := true
	for i := 0; i < 16; i++ {
		same = zzAnd(same, zzOr(i >= int(a.PrefixLength)/8, x[i] == y[i]))
	}
	zzAssert(same, "prefix-whole-bytes")
	zzAssert(zzImplies(a.PrefixLength%8 == 0, a.Prefix == b.Prefix), "prefix-exact-for-byte-aligned-lengths")
}
