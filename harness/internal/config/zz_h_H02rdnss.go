package config

import (
	"net/netip"
	"time"
)

func zzH02rdnss() {
	var rd rawRDNSS
	var kl zzDur
	rd.Lifetime, kl = zzDurKeyPtr("lifetime")
	max := zzNondetDuration("max_interval")
	zzAssume(zzAnd(max >= 4*time.Second, max <= 1800*time.Second))
	n := zzNondetChoice("nservers", 4)
	// server strings: unparsable, IPv4, or an IPv6 address (possibly :: or 4in6)
	serversOK := true
	var addrs []netip.Addr
	for i := 0; i < n; i++ {
		name := "server" + string(rune('0'+i))
		s := zzAtom(name)
		switch zzNondetChoice(name+".kind", 3) {
		case 0:
			zzPA[s] = zzPARes{ok: false}
			serversOK = false
		case 1:
			zzPA[s] = zzPARes{a: zzNondetAddr4(name), ok: true}
			serversOK = false
		default:
			a := zzNondetAddr6(name)
			zzPA[s] = zzPARes{a: a, ok: true}
			addrs = append(addrs, a)
		}
		rd.Servers = append(rd.Servers, s)
	}
	out, err := parseRDNSS(rd, max)
	okL, lt := zzDurDecode(kl, 3*max)
	vl := zzNonNegLife(okL, lt)
	zzKnownClass("negative-lifetime", zzAnd(okL, lt < 0))
	if !serversOK {
		zzAssert(zzOr(err != nil, zzNot(vl.mustAccept)), "non-ipv6-server-rejected")
		if okL {
			zzAssert(err != nil, "non-ipv6-server-rejected-2")
		}
		return
	}
	// all strings are IPv6 addresses: unique, not 4in6, at most one ::
	bad := false
	wild := 0
	for i, a := range addrs {
		hi, lo := zzHiLo(a)
		bad = zzOr(bad, zzAnd(hi == 0, lo>>32 == 0xffff))
		wild += zzIte(zzAnd(hi == 0, lo == 0), 1, 0)
		for j := 0; j < i; j++ {
			nz := zzNot(zzAnd(hi == 0, lo == 0))
			bad = zzOr(bad, zzAnd(nz, addrs[j] == a))
		}
	}
	bad = zzOr(bad, wild > 1)
	all := zzVerdict{mustAccept: zzAnd(vl.mustAccept, zzNot(bad)), mustReject: zzOr(vl.mustReject, bad)}
	zzCheckVerdict(all, err, "rdnss")
	if err != nil {
		return
	}
	zzAssert(out.Lifetime == lt, "lifetime-value-or-default-3x-max")
	zzAssert(out.Auto == zzOr(n == 0, wild == 1), "auto-iff-empty-or-wildcard")
	zzAssert(len(out.Servers) == len(addrs)-zzIte(wild == 1, 1, 0), "static-servers-without-wildcard")
	for i := range out.Servers {
		isInput := false
		for _, a := range addrs {
			isInput = zzOr(isInput, out.Servers[i] == a)
		}
		zzAssert(isInput, "static-server-is-configured")
		if i > 0 {
			zzAssert(out.Servers[i-1].Less(out.Servers[i]), "static-servers-ascending")
		}
	}
}
