package config

import "time"

// H02compose: a whole advertising interface with two stanzas of every list
// kind, all valid, except that at most one component (chosen arbitrarily) is
// given a value its own rule rejects. Accepted iff nothing was corrupted:
// catches a dropped or short-circuited component check in parseInterface /
// parsePlugins (the per-component rules themselves are the other H02
// harnesses). The corrupted stanza is the second of its list.
func zzH02compose() {
	s := func(v string) *string { return &v }
	hop := 64
	raw := rawInterface{
		Advertise: true, MaxInterval: "600s", MinInterval: "200s", ReachableTime: "30s", RetransmitTimer: "1s",
		HopLimit: &hop, DefaultLifetime: s("1800s"), Preference: "high", MTU: 1500, CaptivePortal: "https://portal.example.com/",
		Prefixes: []rawPrefix{{Prefix: "2001:db8:1::/64"}, {Prefix: "2001:db8:2::/64", ValidLifetime: s("2h"), PreferredLifetime: s("1h")}},
		Routes:   []rawRoute{{Prefix: "2001:db8:ffff::/48"}, {Prefix: "2001:db8:eeee::/48", Lifetime: s("1h"), Preference: "low"}},
		RDNSS:    []rawRDNSS{{Servers: []string{"2001:db8::53"}}, {Servers: []string{"2001:db8::54"}, Lifetime: s("1h")}},
		DNSSL:    []rawDNSSL{{DomainNames: []string{"a.example.com"}}, {DomainNames: []string{"b.example.com"}, Lifetime: s("1h")}},
		PREF64:   []rawPREF64{{}, {Prefix: s("2001:db8:64::/96")}},
	}
	const n = 19
	k := zzNondetChoice("corrupted-component", n+1)
	switch k {
	case 0:
		raw.MaxInterval = "3s"
	case 1:
		raw.MinInterval = "500s" // above 0.75 * max
	case 2:
		raw.ReachableTime = "2h"
	case 3:
		raw.RetransmitTimer = "-1s"
	case 4:
		hop = 256
	case 5:
		raw.DefaultLifetime = s("10s") // below max_interval
	case 6:
		raw.Preference = "urgent"
	case 7:
		raw.MTU = 70000
	case 8:
		raw.Prefixes[1].PreferredLifetime = s("3h") // exceeds valid
	case 9:
		raw.Prefixes[1].Prefix = "2001:db8:1::/65" // overlaps the first
	case 10:
		raw.Routes[1].Lifetime = s("-1h")
	case 11:
		raw.Routes[1].Prefix = "2001:db8:ffff:8000::/49" // overlaps the first
	case 12:
		raw.RDNSS[1].Servers = []string{"192.0.2.1"}
	case 13:
		raw.DNSSL[1].DomainNames = nil
	case 14:
		raw.PREF64[1].Prefix = s("2001:db8:64::/33")
	case 15:
		raw.Monitor = true // with advertise
	case 16:
		raw.Routes[1].Preference = "urgent"
	case 17:
		raw.RDNSS[1].Lifetime = s("-1s")
	case 18:
		raw.DNSSL[1].Lifetime = s("-1s")
	}
	ifi, err := parseInterface("eth0", raw, time.Unix(1700000000, 0))
	zzAssert((err == nil) == (k == n), "accepted-iff-every-component-is-valid")
	if err != nil || k != n {
		return
	}
	// 2 prefixes + 2 routes + 2 RDNSS + 2 DNSSL + MTU + LLA + captive portal + 2 PREF64
	zzAssert(len(ifi.Plugins) == 13, "one-plugin-per-stanza")
	zzAssert(ifi.MaxInterval == 600*time.Second && ifi.MinInterval == 200*time.Second && ifi.HopLimit == 64 &&
		ifi.DefaultLifetime == 1800*time.Second && ifi.ReachableTime == 30*time.Second && ifi.RetransmitTimer == time.Second, "header-values")
}
