package config

import (
	"net/netip"
	"time"
)

// H02overlapW: the route wildcard (written "::/0" or left empty) at any
// position among three route stanzas does not switch the overlap check off
// for the other two.
func zzH02overlapW() {
	var raw rawInterface
	raw.Advertise = true
	pos := zzNondetChoice("wildcard-position", 3)
	wild := []string{"::/0", ""}[zzNondetChoice("wildcard-spelling", 2)]
	var ps []netip.Prefix
	k := 0
	for i := 0; i < 3; i++ {
		if i == pos {
			raw.Routes = append(raw.Routes, rawRoute{Prefix: wild})
			continue
		}
		s, p := zzGoodPrefixKey("r"+string(rune('0'+k)), true)
		k++
		// the two static routes are not wildcards themselves (two wildcard
		// stanzas are not covered by the statement)
		zzAssume(p.Bits() != 0)
		ps = append(ps, p)
		raw.Routes = append(raw.Routes, rawRoute{Prefix: s})
	}
	_, err := parseInterface("eth0", raw, time.Time{})
	zzAssert((err != nil) == zzOverlap6(ps[0], ps[1]), "static-routes-checked-for-overlap-wherever-the-wildcard-stands")
}
