package config

import (
	"encoding/binary"
	"github.com/mdlayher/ndp"
	"net/netip"
	"time"
)

func zzTruncSec(d time.Duration) time.Duration { return d / time.Second * time.Second }

// three-valued verdict on an input
type zzVerdict struct{ mustAccept, mustReject bool }

func zzCheckVerdict(v zzVerdict, err error, id string) {
	if err != nil {
		zzAssert(zzNot(v.mustAccept), id+"/accepted-when-constraints-hold")
	} else {
		zzAssert(zzNot(v.mustReject), id+"/rejected-when-a-constraint-fails")
	}
}

const zzMaxWire = time.Duration(4294967295) * time.Second

// zzLifetime: decoded value of a lifetime key: (ok, infinite, value)
func zzDurDecode(k zzDur, def time.Duration) (ok bool, val time.Duration) {
	switch k.kind {
	case zzKAbsent, zzKAuto:
		return true, def
	case zzKEmpty:
		return true, 0
	case zzKInfinite:
		return true, ndp.Infinity
	case zzKBad:
		return false, 0
	}
	return true, k.d
}

const (
	zzPEmpty = iota
	zzPBad
	zzPv6
	zzPv4
)

// zzPrefixKey: a prefix string of arbitrary shape and the prefix it parses to.
func zzPrefixKey(name string) (string, int, netip.Prefix) {
	k := zzNondetChoice(name+".kind", 4)
	switch k {
	case zzPEmpty:
		return "", k, netip.Prefix{}
	case zzPBad:
		s := zzAtom(name + ".bad")
		zzPP[s] = zzPPRes{ok: false}
		return s, k, netip.Prefix{}
	}
	s := zzAtom(name + ".val")
	var a netip.Addr
	max := 128
	if k == zzPv6 {
		a = zzNondetAddr6(name)
	} else {
		a, max = zzNondetAddr4(name), 32
	}
	bits := zzNondetInt(name + ".bits")
	zzAssume(zzAnd(bits >= 0, bits <= max))
	p := netip.PrefixFrom(a, bits)
	zzPP[s] = zzPPRes{p: p, ok: true}
	return s, k, p
}

func zzHiLo(a netip.Addr) (uint64, uint64) {
	b := a.As16()
	return binary.BigEndian.Uint64(b[:8]), binary.BigEndian.Uint64(b[8:])
}

// zzCanonical6: IPv6 (not 4in6) prefix with no host bits set.
func zzCanonical6(p netip.Prefix) bool {
	hi, lo := zzHiLo(p.Addr())
	bits := p.Bits()
	all := ^uint64(0)
	mhi := zzIte(bits >= 64, all, all<<uint(64-bits))
	mlo := zzIte(bits > 64, all<<uint(128-bits), uint64(0))
	is4in6 := zzAnd(hi == 0, lo>>32 == 0xffff)
	return zzAnd(zzNot(is4in6), zzAnd(hi&^mhi == 0, lo&^mlo == 0))
}

func zzIsUnspec6(p netip.Prefix) bool {
	hi, lo := zzHiLo(p.Addr())
	return zzAnd(hi == 0, lo == 0)
}

// zzLifeVerdict: a lifetime that must be positive or infinite.
// returns (mustAccept, mustReject, infinite)
func zzPositiveLife(ok bool, v time.Duration) zzVerdict {
	if !ok {
		return zzVerdict{false, true}
	}
	inf := v == ndp.Infinity
	return zzVerdict{
		mustAccept: zzOr(inf, zzAnd(v > 0, v <= zzMaxWire)),
		mustReject: zzAnd(zzNot(inf), v <= 0),
	}
}

func zzNonNegLife(ok bool, v time.Duration) zzVerdict {
	if !ok {
		return zzVerdict{false, true}
	}
	inf := v == ndp.Infinity
	return zzVerdict{mustAccept: zzOr(inf, zzAnd(v >= 0, v <= zzMaxWire)), mustReject: zzAnd(zzNot(inf), v < 0)}
}
