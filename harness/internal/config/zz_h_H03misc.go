package config

import (
	"github.com/mdlayher/corerad/internal/plugin"
	"github.com/mdlayher/ndp"
	"net"
	"net/netip"
	"time"
)

// H03misc: mtu, source LLA, pref64.
func zzH03misc() {
	var raw rawInterface
	raw.Advertise = true
	var max time.Duration
	raw.MaxInterval, max = zzValueKey("max_interval")
	_ = max
	raw.MTU = zzNondetInt("mtu")
	f := false
	raw.SourceLLA = &f
	which := zzNondetChoice("pref64", 3)
	if which > 0 {
		var rp rawPREF64
		if which == 2 {
			// any prefix string the parser accepts: the six encodable lengths
			// (anything else is rejected, see H02pref64), any address bits
			s := zzAtom("pref64.prefix")
			bits := []int{96, 64, 56, 48, 40, 32}[zzNondetChoice("pref64.prefix.len", 6)]
			zzPP[s] = zzPPRes{p: netip.PrefixFrom(zzNondetAddr6("pref64.prefix"), bits), ok: true}
			rp.Prefix = &s
		}
		raw.PREF64 = []rawPREF64{rp}
	}
	ifi, err := parseInterface("eth0", raw, time.Time{})
	zzAssume(err == nil)
	// runtime part of source_lla (Prepare): Ethernet address or none
	if zzNondetChoice("mac", 2) == 1 {
		mac := make(net.HardwareAddr, 6)
		for i := range mac {
			mac[i] = zzNondetUint8("mac")
		}
		ifi.Plugins = append(ifi.Plugins, &plugin.LLA{Addr: mac})
	}
	ra, _, err := ifi.RouterAdvertisement(true)
	zzAssert(err == nil, "generates")
	if err != nil {
		return
	}
	out := zzRoundTrip(ra, "misc")
	if out == nil {
		return
	}
	zzAssert(len(out.Options) == len(ra.Options), "same-number-of-options")
	if len(out.Options) != len(ra.Options) {
		return
	}
	for i, o := range ra.Options {
		switch a := o.(type) {
		case *ndp.MTU:
			b, ok := out.Options[i].(*ndp.MTU)
			zzAssert(ok && b.MTU == a.MTU, "mtu")
			zzAssert(int(a.MTU) == raw.MTU, "mtu-not-wrapped")
		case *ndp.LinkLayerAddress:
			b, ok := out.Options[i].(*ndp.LinkLayerAddress)
			zzAssert(ok && b.Direction == a.Direction, "lla")
		case *ndp.PREF64:
			b, ok := out.Options[i].(*ndp.PREF64)
			zzAssert(ok, "pref64-decodes")
			if ok {
				zzAssert(b.Prefix == a.Prefix, "pref64-prefix")
				zzAssert(b.Lifetime == a.Lifetime, "pref64-lifetime")
			}
		}
	}
}
