package config

import (
	"net/netip"
	"time"

	"github.com/mdlayher/corerad/internal/plugin"
	"github.com/mdlayher/ndp"
)

// H04a: forwarding off changes nothing but the router lifetime (0) and
// reports the interface_not_forwarding misconfiguration iff a non-zero
// lifetime was configured; forwarding on reports nothing.
func zzH04a() {
	ifi := Interface{
		Name: "eth0", Advertise: true,
		MinInterval: 200 * time.Second, MaxInterval: 600 * time.Second,
		Managed: zzNondetBool("managed"), OtherConfig: zzNondetBool("other"),
		ReachableTime:   zzNondetDuration("reachable"),
		RetransmitTimer: zzNondetDuration("retransmit"),
		HopLimit:        zzNondetUint8("hop"),
		DefaultLifetime: zzNondetDuration("lifetime"),
		Preference:      []ndp.Preference{ndp.Medium, ndp.High, ndp.Low}[zzNondetChoice("preference", 3)],
		Plugins: []plugin.Plugin{
			&plugin.Prefix{Prefix: netip.MustParsePrefix("2001:db8::/64"), OnLink: true, Autonomous: true,
				ValidLifetime: zzNondetDuration("valid"), PreferredLifetime: zzNondetDuration("preferred")},
			plugin.NewMTU(1500),
		},
	}
	zzAssume(ifi.DefaultLifetime >= 0)
	on, msOn, err1 := ifi.RouterAdvertisement(true)
	off, msOff, err2 := ifi.RouterAdvertisement(false)
	zzAssert(err1 == nil && err2 == nil, "generates")
	if err1 != nil || err2 != nil {
		return
	}
	zzAssert(on.RouterLifetime == ifi.DefaultLifetime, "forwarding-sends-configured-lifetime")
	zzAssert(len(msOn) == 0, "forwarding-reports-nothing")
	zzAssert(off.RouterLifetime == 0, "not-forwarding-sends-lifetime-0")
	mis := ifi.DefaultLifetime > 0
	zzAssert(zzIte(mis, len(msOff) == 1, len(msOff) == 0), "misconfiguration-iff-nonzero-lifetime-configured")
	if len(msOff) == 1 {
		zzAssert(msOff[0] == InterfaceNotForwarding, "misconfiguration-kind")
	}
	// all other content unchanged
	on.RouterLifetime = 0
	zzAssert(zzDeepEqual(on, off), "everything-else-unchanged")
	// and both carry the configuration
	zzAssert(zzAnd(zzAnd(off.CurrentHopLimit == ifi.HopLimit, off.RouterSelectionPreference == ifi.Preference),
		zzAnd(zzAnd(off.ManagedConfiguration == ifi.Managed, off.OtherConfiguration == ifi.OtherConfig),
			zzAnd(off.ReachableTime == ifi.ReachableTime, off.RetransmitTimer == ifi.RetransmitTimer))), "header-as-configured")
	zzAssert(len(off.Options) == 2, "options-as-configured")
}
