package config

import (
	"github.com/mdlayher/ndp"
	"net/netip"
	"time"
)

func zzH02route() {
	var rr rawRoute
	s, kind, p := zzPrefixKey("prefix")
	rr.Prefix = s
	var kl zzDur
	rr.Lifetime, kl = zzDurKeyPtr("lifetime")
	rr.Deprecated = zzNondetBool("deprecated")
	prefOK, wantPref := true, ndp.Medium
	switch zzNondetChoice("preference", 4) {
	case 0:
	case 1:
		rr.Preference, wantPref = "low", ndp.Low
	case 2:
		rr.Preference, wantPref = "high", ndp.High
	default:
		rr.Preference, prefOK = zzAtom("preference"), false
	}
	epoch := zzNondetInstant("epoch", false)
	out, err := parseRoute(rr, epoch)

	var pv zzVerdict
	want := netip.MustParsePrefix("::/0")
	switch kind {
	case zzPEmpty:
		pv = zzVerdict{true, false}
	case zzPBad, zzPv4:
		pv = zzVerdict{false, true}
	default:
		good := zzAnd(zzCanonical6(p), zzOr(zzNot(zzIsUnspec6(p)), p.Bits() == 0))
		pv = zzVerdict{good, zzNot(good)}
		want = p
	}
	okL, lt := zzDurDecode(kl, 24*time.Hour)
	vl := zzPositiveLife(okL, lt)
	zzKnownClass("negative-lifetime", zzAnd(okL, lt < 0))
	depr := zzVerdict{mustAccept: zzOr(zzNot(rr.Deprecated), lt != ndp.Infinity), mustReject: zzAnd(rr.Deprecated, lt == ndp.Infinity)}
	all := zzVerdict{
		mustAccept: zzAnd(zzAnd(pv.mustAccept, prefOK), zzAnd(vl.mustAccept, depr.mustAccept)),
		mustReject: zzOr(zzOr(pv.mustReject, !prefOK), zzOr(vl.mustReject, zzAnd(okL, depr.mustReject))),
	}
	zzCheckVerdict(all, err, "route")
	if err != nil {
		return
	}
	zzAssert(out.Prefix == want, "route-value-or-wildcard")
	zzAssert(out.Auto == (out.Prefix == netip.MustParsePrefix("::/0")), "auto-iff-wildcard")
	zzAssert(zzAnd(out.Lifetime == lt, out.Preference == wantPref), "lifetime-default-24h-preference-default-medium")
	zzAssert(zzAnd(out.Deprecated == rr.Deprecated, out.Epoch == epoch), "deprecated-and-epoch-copied")
}
