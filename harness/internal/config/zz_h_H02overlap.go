package config

import (
	"net/netip"
	"time"
)

// H02overlap: several prefix / route stanzas: accepted iff pairwise
// non-overlapping (the route wildcard is exempt).
func zzH02overlap() {
	n := zzParam("n")
	routes := zzNondetChoice("routes", 2) == 1
	var raw rawInterface
	raw.Advertise = true
	ps := make([]netip.Prefix, n)
	for i := 0; i < n; i++ {
		s, p := zzGoodPrefixKey("p"+string(rune('0'+i)), routes)
		ps[i] = p
		if routes {
			raw.Routes = append(raw.Routes, rawRoute{Prefix: s})
		} else {
			raw.Prefixes = append(raw.Prefixes, rawPrefix{Prefix: s})
		}
	}
	_, err := parseInterface("eth0", raw, time.Time{})
	overlap, dontcare := false, false
	for i := 0; i < n; i++ {
		for j := i + 1; j < n; j++ {
			o := zzOverlap6(ps[i], ps[j])
			if routes {
				wi, wj := zzAnd(zzIsUnspec6(ps[i]), ps[i].Bits() == 0), zzAnd(zzIsUnspec6(ps[j]), ps[j].Bits() == 0)
				// the wildcard is exempt; two wildcard stanzas are not covered by the statement
				dontcare = zzOr(dontcare, zzAnd(wi, wj))
				o = zzAnd(o, zzAnd(zzNot(wi), zzNot(wj)))
			}
			overlap = zzOr(overlap, o)
		}
	}
	if err != nil {
		zzAssert(zzOr(overlap, dontcare), "accepted-when-pairwise-disjoint")
	} else {
		zzAssert(zzNot(overlap), "rejected-when-two-overlap")
	}
}
