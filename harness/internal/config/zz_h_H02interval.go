package config

import (
	"github.com/mdlayher/corerad/internal/plugin"
	"github.com/mdlayher/ndp"
	"time"
)

func zzH02interval() {
	var raw rawInterface
	raw.Advertise = true
	var kmax, kmin zzDur
	raw.MaxInterval, kmax = zzDurKey("max_interval")
	raw.MinInterval, kmin = zzDurKey("min_interval")
	ifi, err := parseInterface("eth0", raw, time.Time{})

	// max: "" = default 600s; auto / infinite / unparsable are not durations
	maxOK := kmax.kind == zzKEmpty || kmax.kind == zzKValue
	max := 600 * time.Second
	if kmax.kind == zzKValue {
		max = kmax.d
	}
	if !maxOK {
		zzAssert(err != nil, "max-not-a-duration-rejected")
		return
	}
	maxIn := zzAnd(max >= 4*time.Second, max <= 1800*time.Second)
	minAuto := kmin.kind == zzKEmpty || kmin.kind == zzKAuto
	minOK := minAuto || kmin.kind == zzKValue
	if !minOK {
		zzAssert(err != nil, "min-not-a-duration-rejected")
		return
	}
	upper := zzTruncSec(3 * max / 4)
	minIn := zzOr(minAuto, zzAnd(kmin.d >= 3*time.Second, kmin.d <= upper))
	accept := zzAnd(maxIn, minIn)
	if err != nil {
		zzAssert(zzNot(accept), "accepted-iff-intervals-in-range")
		return
	}
	zzAssert(accept, "rejected-iff-intervals-out-of-range")
	zzAssert(ifi.MaxInterval == max, "max-value-or-default-600s")
	wantMin := kmin.d
	if minAuto {
		wantMin = zzIte(max >= 9*time.Second, zzTruncSec(33*max/100), max)
	}
	zzAssert(ifi.MinInterval == wantMin, "min-value-or-default")
	// other defaults on a minimal interface
	zzAssert(ifi.DefaultLifetime == 3*max, "default-lifetime-3x-max")
	zzAssert(ifi.HopLimit == 64, "default-hop-limit-64")
	zzAssert(zzAnd(ifi.ReachableTime == 0, ifi.RetransmitTimer == 0), "default-timers-zero")
	zzAssert(ifi.Preference == ndp.Medium, "default-preference-medium")
	zzAssert(len(ifi.Plugins) == 1, "default-plugins-source-lla-only")
	if len(ifi.Plugins) == 1 {
		_, isLLA := ifi.Plugins[0].(*plugin.LLA)
		zzAssert(isLLA, "source-lla-on-by-default")
	}
}
