package config

import (
	"errors"
	"net/netip"
	"time"
)

// String-valued configuration keys are decoded explicitly (DESIGN §3.2): a
// key is absent, "", "auto", "infinite", an unparsable token, or a token that
// parses to an arbitrary value. Tokens are opaque atoms; the parse functions
// are redirected to these tables so that the numeric part stays symbolic.

type zzPDRes struct {
	d  time.Duration
	ok bool
}
type zzPPRes struct {
	p  netip.Prefix
	ok bool
}
type zzPARes struct {
	a  netip.Addr
	ok bool
}

var (
	zzPD        = map[string]zzPDRes{}
	zzPP        = map[string]zzPPRes{}
	zzPA        = map[string]zzPARes{}
	zzErrSyntax = errors.New("zz: syntax error")
)

func zzStub_time_ParseDuration(s string) (time.Duration, error) {
	if r, ok := zzPD[s]; ok {
		if r.ok {
			return r.d, nil
		}
		return 0, zzErrSyntax
	}
	return time.ParseDuration(s)
}

func zzStub_netip_ParsePrefix(s string) (netip.Prefix, error) {
	if r, ok := zzPP[s]; ok {
		if r.ok {
			return r.p, nil
		}
		return netip.Prefix{}, zzErrSyntax
	}
	return netip.ParsePrefix(s)
}

func zzStub_netip_ParseAddr(s string) (netip.Addr, error) {
	if r, ok := zzPA[s]; ok {
		if r.ok {
			return r.a, nil
		}
		return netip.Addr{}, zzErrSyntax
	}
	return netip.ParseAddr(s)
}

const (
	zzKAbsent = iota
	zzKEmpty
	zzKAuto
	zzKInfinite
	zzKBad
	zzKValue
)

// zzDur describes how a duration key was written.
type zzDur struct {
	kind int
	d    time.Duration
}

// zzDurKeyPtr: a *string duration key of arbitrary shape.
func zzDurKeyPtr(name string) (*string, zzDur) {
	k := zzNondetChoice(name+".kind", 6)
	switch k {
	case zzKAbsent:
		return nil, zzDur{kind: k}
	case zzKEmpty:
		s := ""
		return &s, zzDur{kind: k}
	case zzKAuto:
		s := "auto"
		return &s, zzDur{kind: k}
	case zzKInfinite:
		s := "infinite"
		return &s, zzDur{kind: k}
	case zzKBad:
		s := zzAtom(name + ".bad")
		zzPD[s] = zzPDRes{ok: false}
		return &s, zzDur{kind: k}
	}
	s := zzAtom(name + ".val")
	d := zzNondetDuration(name + ".d")
	zzPD[s] = zzPDRes{d: d, ok: true}
	return &s, zzDur{kind: zzKValue, d: d}
}

// zzDurKey: a plain string duration key (absent and "" coincide).
func zzDurKey(name string) (string, zzDur) {
	p, k := zzDurKeyPtr(name)
	if p == nil {
		return "", zzDur{kind: zzKEmpty}
	}
	return *p, k
}

// zzValueKey: a duration key that is present with a parsable value.
func zzValueKey(name string) (string, time.Duration) {
	s := zzAtom(name + ".val")
	d := zzNondetDuration(name + ".d")
	zzPD[s] = zzPDRes{d: d, ok: true}
	return s, d
}

// ZZAcceptedIntervals returns an arbitrary (min, max) interval pair that the
// real parser accepts (used by the corerad harnesses as their precondition).
func ZZAcceptedIntervals() (min, max time.Duration) {
	var raw rawInterface
	raw.Advertise = true
	raw.MaxInterval, _ = zzDurKey("max_interval")
	raw.MinInterval, _ = zzDurKey("min_interval")
	ifi, err := parseInterface("eth0", raw, time.Time{})
	zzAssume(err == nil)
	return ifi.MinInterval, ifi.MaxInterval
}

// ZZFullInterface returns an accepted advertising interface that carries one
// stanza of every kind (static, wildcard and deprecated prefixes; static and
// wildcard routes; rdnss with wildcard and a static server; dnssl; mtu; source
// LLA; captive portal; pref64), parsed by the real parser. Lifetimes are
// symbolic values the parser accepts.
func ZZFullInterface(name string, epoch time.Time) Interface {
	var raw rawInterface
	raw.Advertise = true
	raw.Managed, raw.OtherConfig = zzNondetBool(name+".managed"), zzNondetBool(name+".other")
	dl, _ := zzValueKey(name + ".default_lifetime")
	raw.DefaultLifetime = &dl
	raw.ReachableTime, _ = zzValueKey(name + ".reachable_time")
	raw.RetransmitTimer, _ = zzValueKey(name + ".retransmit_timer")
	hop := zzNondetInt(name + ".hop_limit")
	raw.HopLimit = &hop
	raw.Preference = []string{"", "low", "high"}[zzNondetChoice(name+".preference", 3)]
	v1, _ := zzValueKey(name + ".p1.valid")
	v2, _ := zzValueKey(name + ".p3.valid")
	pf3, _ := zzValueKey(name + ".p3.preferred")
	raw.Prefixes = []rawPrefix{
		{Prefix: "2001:db8:1::/64", ValidLifetime: &v1},
		{Prefix: "::/64"},
		{Prefix: "2001:db8:3::/64", ValidLifetime: &v2, PreferredLifetime: &pf3, Deprecated: true},
	}
	rl, _ := zzValueKey(name + ".r1.lifetime")
	raw.Routes = []rawRoute{{Prefix: "2001:db8:ffff::/48", Lifetime: &rl, Preference: "high"}, {Prefix: "::/0"}}
	dlf, _ := zzValueKey(name + ".rdnss.lifetime")
	raw.RDNSS = []rawRDNSS{{Lifetime: &dlf, Servers: []string{"::", "2001:db8::53"}}}
	raw.DNSSL = []rawDNSSL{{DomainNames: []string{"lan.example.com", "example.org"}}}
	raw.MTU = 1500
	raw.CaptivePortal = "https://portal.example.com/"
	raw.PREF64 = []rawPREF64{{}}
	ifi, err := parseInterface(name, raw, epoch)
	zzAssume(err == nil)
	return *ifi
}

// ZZKindInterface returns an accepted advertising interface that carries the
// stanzas of one kind only (smaller symbolic state than ZZFullInterface):
//
//	0 header fields, 1 static prefix, 2 static route, 3 RDNSS + DNSSL,
//	4 MTU + captive portal + PREF64, 5 deprecated prefix, 6 deprecated route,
//	7 wildcard prefix, 8 wildcard route + wildcard RDNSS
func ZZKindInterface(name string, kind int, epoch time.Time) Interface {
	var raw rawInterface
	raw.Advertise = true
	switch kind {
	case 0:
		raw.Managed, raw.OtherConfig = zzNondetBool(name+".managed"), zzNondetBool(name+".other")
		dl, _ := zzValueKey(name + ".default_lifetime")
		raw.DefaultLifetime = &dl
		raw.ReachableTime, _ = zzValueKey(name + ".reachable_time")
		raw.RetransmitTimer, _ = zzValueKey(name + ".retransmit_timer")
		hop := zzNondetInt(name + ".hop_limit")
		raw.HopLimit = &hop
		raw.Preference = []string{"", "low", "high"}[zzNondetChoice(name+".preference", 3)]
	case 1:
		v1, _ := zzValueKey(name + ".p1.valid")
		pf1, _ := zzValueKey(name + ".p1.preferred")
		raw.Prefixes = []rawPrefix{{Prefix: "2001:db8:1::/64", ValidLifetime: &v1, PreferredLifetime: &pf1}}
	case 5:
		v2, _ := zzValueKey(name + ".p2.valid")
		pf2, _ := zzValueKey(name + ".p2.preferred")
		raw.Prefixes = []rawPrefix{{Prefix: "2001:db8:3::/64", ValidLifetime: &v2, PreferredLifetime: &pf2, Deprecated: true}}
	case 2:
		rl, _ := zzValueKey(name + ".r1.lifetime")
		raw.Routes = []rawRoute{{Prefix: "2001:db8:ffff::/48", Lifetime: &rl, Preference: "high"}}
	case 6:
		rl2, _ := zzValueKey(name + ".r2.lifetime")
		raw.Routes = []rawRoute{{Prefix: "2001:db8:eeee::/48", Lifetime: &rl2, Deprecated: true}}
	case 7:
		raw.Prefixes = []rawPrefix{{Prefix: "::/64"}}
	case 8:
		raw.Routes = []rawRoute{{Prefix: "::/0"}}
		raw.RDNSS = []rawRDNSS{{Servers: []string{"::"}}}
	case 3:
		dlf, _ := zzValueKey(name + ".rdnss.lifetime")
		slf, _ := zzValueKey(name + ".dnssl.lifetime")
		raw.RDNSS = []rawRDNSS{{Lifetime: &dlf, Servers: []string{"2001:db8::53"}}}
		raw.DNSSL = []rawDNSSL{{Lifetime: &slf, DomainNames: []string{"lan.example.com"}}}
	default:
		raw.MTU = 1500
		raw.CaptivePortal = "https://portal.example.com/"
		raw.PREF64 = []rawPREF64{{}}
	}
	ifi, err := parseInterface(name, raw, epoch)
	zzAssume(err == nil)
	return *ifi
}
