package config

import (
	"net/netip"
	"time"

	"github.com/mdlayher/corerad/internal/system"
	"github.com/mdlayher/ndp"
)

// H14b / H01c (RDNSS): the option built from a parsed stanza that combines the
// :: wildcard with static servers is [chosen] ++ sorted static servers, and
// building the RA again yields the same option and leaves the plugin alone.
func zzH14b() {
	var rd rawRDNSS
	n := zzParam("static")
	var static []netip.Addr
	wildAt := zzNondetChoice("wildcard.position", n+1)
	for i := 0; i <= n; i++ {
		if i == wildAt {
			rd.Servers = append(rd.Servers, "::")
			continue
		}
		name := "server" + string(rune('0'+len(static)))
		s := zzAtom(name)
		a := zzNondetAddr6(name)
		zzPA[s] = zzPARes{a: a, ok: true}
		static = append(static, a)
		rd.Servers = append(rd.Servers, s)
	}
	r, err := parseRDNSS(rd, 600*time.Second)
	zzAssume(err == nil)
	chosen := zzNondetAddr6("iface")
	zzAssume(zzNot(chosen.Is4In6()))
	r.Addrs = func() ([]system.IP, error) {
		return []system.IP{{Address: netip.PrefixFrom(chosen, 64)}}, nil
	}
	before := append([]netip.Addr(nil), r.Servers...)
	repeats := zzParam("repeats")
	for k := 0; k < repeats; k++ {
		ra := &ndp.RouterAdvertisement{}
		zzAssert(r.Apply(ra) == nil, "apply-ok")
		if len(ra.Options) != 1 {
			zzAssert(false, "one-option")
			return
		}
		o := ra.Options[0].(*ndp.RecursiveDNSServer)
		zzAssert(len(o.Servers) == n+1, "chosen-plus-static")
		if len(o.Servers) != n+1 {
			return
		}
		zzAssert(o.Servers[0] == chosen, "chosen-first")
		for i := 1; i <= n; i++ {
			isStatic := false
			for _, a := range static {
				isStatic = zzOr(isStatic, o.Servers[i] == a)
			}
			zzAssert(isStatic, "static-servers-follow")
			if i > 1 {
				zzAssert(o.Servers[i-1].Less(o.Servers[i]), "static-sorted-no-duplicates")
			}
		}
		// configuration untouched
		zzAssert(len(r.Servers) == len(before), "plugin-servers-length-unchanged")
		for i := range before {
			if i < len(r.Servers) {
				zzAssert(r.Servers[i] == before[i], "plugin-servers-unchanged")
			}
		}
	}
}
