package config

import (
	"github.com/mdlayher/ndp"
	"time"
)

// zzRoundTrip marshals and re-parses an RA; encoding must succeed for every
// accepted configuration.
func zzRoundTrip(ra *ndp.RouterAdvertisement, id string) *ndp.RouterAdvertisement {
	b, err := ndp.MarshalMessage(ra)
	zzAssert(err == nil, id+"/encodes")
	if err != nil {
		return nil
	}
	m, err := ndp.ParseMessage(b)
	zzAssert(err == nil, id+"/decodes")
	if err != nil {
		return nil
	}
	out, ok := m.(*ndp.RouterAdvertisement)
	zzAssert(ok, id+"/decodes-as-ra")
	if !ok {
		return nil
	}
	return out
}

// zzSameUpTo: d is non-negative, within the field's range, and its decoded
// value d2 equals d up to truncation to the unit.
func zzSameUpTo(d, d2, unit, max time.Duration, id string) {
	zzAssert(d >= 0, id+"/non-negative")
	zzAssert(d <= max, id+"/within-field-range")
	zzAssert(zzAnd(d2 <= d, d-d2 < unit), id+"/same-up-to-truncation")
}

// zzLifeSame: a lifetime placed in an option: infinity maps to infinity,
// anything else is non-negative, below infinity, and survives up to 1s.
func zzLifeSame(d, d2 time.Duration, id string) {
	zzAssert(zzOr(d == ndp.Infinity, zzAnd(d >= 0, d < ndp.Infinity)), id+"/non-negative-and-representable")
	zzAssert(zzImplies(d == ndp.Infinity, d2 == ndp.Infinity), id+"/infinity-preserved")
	// one-unit tolerance above 2^23 s (float rounding inside ndp), exact for whole seconds
	zzAssert(zzImplies(d != ndp.Infinity, zzAnd(d2-d < time.Second, d-d2 < time.Second)), id+"/same-up-to-one-second")
	zzAssert(zzImplies(d%time.Second == 0, d2 == d), id+"/whole-seconds-exact")
}
