package config

import (
	"time"
)

func zzH02dnssl() {
	var rd rawDNSSL
	var kl zzDur
	rd.Lifetime, kl = zzDurKeyPtr("lifetime")
	max := zzNondetDuration("max_interval")
	zzAssume(zzAnd(max >= 4*time.Second, max <= 1800*time.Second))
	names := []string{"a.example", "b.example", "c.example"}
	n := zzNondetChoice("nnames", 4)
	dup := false
	for i := 0; i < n; i++ {
		k := zzNondetChoice("name"+string(rune('0'+i)), 3)
		for _, prev := range rd.DomainNames {
			if prev == names[k] {
				dup = true
			}
		}
		rd.DomainNames = append(rd.DomainNames, names[k])
	}
	out, err := parseDNSSL(rd, max)
	okL, lt := zzDurDecode(kl, 3*max)
	vl := zzNonNegLife(okL, lt)
	zzKnownClass("negative-lifetime", zzAnd(okL, lt < 0))
	bad := n == 0 || dup
	all := zzVerdict{mustAccept: zzAnd(vl.mustAccept, !bad), mustReject: zzOr(vl.mustReject, bad)}
	zzCheckVerdict(all, err, "dnssl")
	if err != nil {
		return
	}
	zzAssert(out.Lifetime == lt, "lifetime-value-or-default-3x-max")
	zzAssert(len(out.DomainNames) == n, "names-copied")
}
