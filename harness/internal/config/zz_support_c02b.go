package config

import (
	"errors"
	"github.com/pelletier/go-toml"
	"net"
	"net/netip"
)

// zzGoodPrefixKey: a prefix string that passes the per-stanza checks of a
// prefix (not /128, :: only as ::/64) or route (:: only as ::/0) stanza.
func zzGoodPrefixKey(name string, route bool) (string, netip.Prefix) {
	s := zzAtom(name)
	a := zzNondetAddr6(name)
	bits := zzNondetInt(name + ".bits")
	zzAssume(zzAnd(bits >= 0, bits <= 128))
	p := netip.PrefixFrom(a, bits)
	zzAssume(zzCanonical6(p))
	if route {
		zzAssume(zzOr(zzNot(zzIsUnspec6(p)), bits == 0))
	} else {
		zzAssume(zzAnd(bits != 128, zzOr(zzNot(zzIsUnspec6(p)), bits == 64)))
	}
	zzPP[s] = zzPPRes{p: p, ok: true}
	return s, p
}

// zzOverlap6: equal under the shorter mask.
func zzOverlap6(p, q netip.Prefix) bool {
	phi, plo := zzHiLo(p.Addr())
	qhi, qlo := zzHiLo(q.Addr())
	b := zzIte(p.Bits() < q.Bits(), p.Bits(), q.Bits())
	all := ^uint64(0)
	mhi := zzIte(b >= 64, all, all<<uint(64-b))
	mlo := zzIte(b > 64, all<<uint(128-b), uint64(0))
	return zzAnd(phi&mhi == qhi&mhi, plo&mlo == qlo&mlo)
}

var (
	zzFile        file
	zzDecodeErr   error
	zzResolveFail bool
)

func zzStub_toml_Decoder_Decode(d *toml.Decoder, v interface{}) error {
	if zzDecodeErr != nil {
		return zzDecodeErr
	}
	*(v.(*file)) = zzFile
	return nil
}

func zzStub_net_ResolveTCPAddr(network, address string) (*net.TCPAddr, error) {
	if zzResolveFail {
		return nil, errors.New("zz: cannot resolve")
	}
	return &net.TCPAddr{Port: 9430}, nil
}
