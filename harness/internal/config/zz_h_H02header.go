package config

import (
	"github.com/mdlayher/corerad/internal/plugin"
	"github.com/mdlayher/ndp"
	"time"
)

func zzH02header() {
	var raw rawInterface
	raw.Advertise = true
	var max time.Duration
	raw.MaxInterval, max = zzValueKey("max_interval")
	zzAssume(zzAnd(max >= 4*time.Second, max <= 1800*time.Second))
	which := zzNondetChoice("key", 5)
	var kl, kt zzDur
	hop, mtu := 64, 0
	prefOK, wantPref := true, ndp.Medium
	timerIsReach := false
	switch which {
	case 0:
		raw.DefaultLifetime, kl = zzDurKeyPtr("default_lifetime")
	case 1:
		timerIsReach = zzNondetChoice("timer", 2) == 0
		var s string
		s, kt = zzDurKey("timer")
		if timerIsReach {
			raw.ReachableTime = s
		} else {
			raw.RetransmitTimer = s
		}
	case 2:
		if zzNondetChoice("hop.set", 2) == 1 {
			hop = zzNondetInt("hop_limit")
			raw.HopLimit = &hop
		}
	case 3:
		mtu = zzNondetInt("mtu")
		raw.MTU = mtu
	case 4:
		switch zzNondetChoice("preference", 5) {
		case 0:
			raw.Preference = ""
		case 1:
			raw.Preference, wantPref = "low", ndp.Low
		case 2:
			raw.Preference = "medium"
		case 3:
			raw.Preference, wantPref = "high", ndp.High
		default:
			raw.Preference, prefOK = zzAtom("preference"), false
		}
	}
	ifi, err := parseInterface("eth0", raw, time.Time{})
	switch which {
	case 0:
		ok, lt := zzDurDecode(kl, 3*max)
		if !ok || kl.kind == zzKInfinite {
			zzAssert(err != nil, "default-lifetime-not-a-finite-duration-rejected")
			return
		}
		in := zzOr(lt == 0, zzAnd(lt >= max, lt <= 9000*time.Second))
		if err != nil {
			zzAssert(zzNot(in), "default-lifetime-accepted-iff-0-or-in-range")
			return
		}
		zzAssert(in, "default-lifetime-rejected-iff-out-of-range")
		zzAssert(ifi.DefaultLifetime == lt, "default-lifetime-value")
	case 1:
		if kt.kind != zzKEmpty && kt.kind != zzKValue {
			zzAssert(err != nil, "timer-not-a-duration-rejected")
			return
		}
		v := time.Duration(0)
		if kt.kind == zzKValue {
			v = kt.d
		}
		in := zzAnd(v >= 0, v <= time.Hour)
		if err != nil {
			zzAssert(zzNot(in), "timer-accepted-iff-in-0-1h")
			return
		}
		zzAssert(in, "timer-rejected-iff-out-of-range")
		if timerIsReach {
			zzAssert(zzAnd(ifi.ReachableTime == v, ifi.RetransmitTimer == 0), "reachable-value")
		} else {
			zzAssert(zzAnd(ifi.RetransmitTimer == v, ifi.ReachableTime == 0), "retransmit-value")
		}
	case 2:
		in := zzAnd(hop >= 0, hop <= 255)
		if err != nil {
			zzAssert(zzNot(in), "hop-limit-accepted-iff-0-255")
			return
		}
		zzAssert(in, "hop-limit-rejected-iff-out-of-range")
		zzAssert(int(ifi.HopLimit) == hop, "hop-limit-value")
	case 3:
		in := zzAnd(mtu >= 0, mtu <= 65536)
		if err != nil {
			zzAssert(zzNot(in), "mtu-accepted-iff-0-65536")
			return
		}
		zzAssert(in, "mtu-rejected-iff-out-of-range")
		// MTU plugin iff non-zero, placed before the source LLA plugin
		n := 0
		for _, p := range ifi.Plugins {
			if m, ok := p.(*plugin.MTU); ok {
				n++
				zzAssert(int(*m) == mtu, "mtu-plugin-value")
			}
		}
		zzAssert(n == zzIte(mtu != 0, 1, 0), "mtu-plugin-iff-nonzero")
	case 4:
		if err != nil {
			zzAssert(!prefOK, "preference-accepted-iff-low-medium-high")
			return
		}
		zzAssert(prefOK, "preference-rejected-iff-unknown")
		zzAssert(ifi.Preference == wantPref, "preference-value")
	}
}
