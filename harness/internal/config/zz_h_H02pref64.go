package config

import (
	"github.com/mdlayher/corerad/internal/plugin"
	"net/netip"
	"time"
)

// H02pref64: accepted iff an IPv6 (not 4in6) prefix of a NAT64 length; default 64:ff9b::/96.
func zzH02pref64() {
	var raw rawInterface
	raw.Advertise = true
	var rp rawPREF64
	which := zzNondetChoice("prefix.set", 3)
	kind, p := zzPEmpty, netip.Prefix{}
	if which == 1 {
		e := ""
		rp.Prefix = &e
	} else if which == 2 {
		var s string
		s, kind, p = zzPrefixKey("prefix")
		zzAssume(kind != zzPEmpty)
		rp.Prefix = &s
	}
	raw.PREF64 = []rawPREF64{rp}
	f := false
	raw.SourceLLA = &f
	ifi, err := parseInterface("eth0", raw, time.Time{})
	want := netip.MustParsePrefix("64:ff9b::/96")
	v := zzVerdict{true, false}
	switch kind {
	case zzPBad, zzPv4:
		v = zzVerdict{false, true}
	case zzPv6:
		b := p.Bits()
		okLen := zzOr(zzOr(b == 96, b == 64), zzOr(zzOr(b == 56, b == 48), zzOr(b == 40, b == 32)))
		hi, lo := zzHiLo(p.Addr())
		is4in6 := zzAnd(hi == 0, lo>>32 == 0xffff)
		// host bits set: not covered by the statement (don't-care)
		v = zzVerdict{mustAccept: zzAnd(okLen, zzCanonical6(p)), mustReject: zzOr(zzNot(okLen), is4in6)}
		want = p
	}
	zzCheckVerdict(v, err, "pref64")
	if err != nil {
		return
	}
	zzAssert(len(ifi.Plugins) == 1, "one-plugin")
	if len(ifi.Plugins) == 1 {
		pp, ok := ifi.Plugins[0].(*plugin.PREF64)
		zzAssert(ok, "pref64-plugin")
		if ok {
			zzAssert(pp.Inner.Prefix == want, "prefix-value-or-default-64:ff9b::/96")
		}
	}
}
