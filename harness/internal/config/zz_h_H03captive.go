package config

import (
	"github.com/mdlayher/ndp"
	"time"
)

// H03captive: a captive-portal URI the parser accepts always encodes and
// decodes to the same URI (lengths around the option-length boundaries).
func zzH03captive() {
	lengths := []int{3, 6, 14, 100, 245, 246, 247, 248, 254, 255, 256, 262, 263, 500, 518}
	n := lengths[zzNondetChoice("uri.length", len(lengths))]
	uri := "h:"
	for len(uri) < n {
		uri += "x"
	}
	var raw rawInterface
	raw.Advertise = true
	f := false
	raw.SourceLLA = &f
	raw.CaptivePortal = uri
	zzKnownClass("uri-longer-than-246-bytes", n > 246)
	ifi, err := parseInterface("eth0", raw, time.Time{})
	zzAssume(err == nil)
	ra, _, err := ifi.RouterAdvertisement(true)
	zzAssert(err == nil, "generates")
	if err != nil {
		return
	}
	out := zzRoundTrip(ra, "captive")
	if out == nil {
		return
	}
	zzAssert(len(out.Options) == 1, "one-option-decoded")
	if len(out.Options) == 1 {
		cp, ok := out.Options[0].(*ndp.CaptivePortal)
		zzAssert(ok && cp.URI == uri, "same-uri")
	}
}
