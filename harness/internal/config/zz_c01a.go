package config

import (
	"net"
	"net/netip"
	"time"

	"github.com/mdlayher/corerad/internal/plugin"
	"github.com/mdlayher/corerad/internal/system"
	"github.com/mdlayher/ndp"
)

// H01a / H01c: an interface with one stanza of every kind, parsed by the real
// parser, on an arbitrary system state: the RA carries exactly the configured
// header and the options the configuration calls for, in the documented
// order, and building it again yields an identical RA and leaves the
// configuration untouched.
func zzH01a() {
	epoch := zzNondetInstant("epoch", false)
	now := zzNondetInstant("now", false)
	zzAssume(zzNot(now.Before(epoch)))
	ifi := ZZFullInterface("lan0", epoch)

	// system state: one or two interface addresses, one loopback route, MAC present or absent
	a0 := zzNondetAddr6("addr0")
	zzAssume(zzNot(a0.Is4In6()))
	addrs := []system.IP{{Address: netip.PrefixFrom(a0, 64), ValidForever: zzNondetBool("addr0.forever")}}
	if zzNondetChoice("two-addresses", 2) == 1 {
		addrs = append(addrs, system.IP{Address: netip.MustParsePrefix("fe80::1/64")})
	}
	routes := []system.Route{{Prefix: netip.MustParsePrefix("2001:db8:b::/48")}}
	hasMAC := zzNondetChoice("mac", 2) == 1
	for _, p := range ifi.Plugins {
		switch p := p.(type) {
		case *plugin.Prefix:
			p.TimeNow = func() time.Time { return now }
			p.Addrs = func() ([]system.IP, error) { return addrs, nil }
		case *plugin.Route:
			p.TimeNow = func() time.Time { return now }
			p.Routes = func() ([]system.Route, error) { return routes, nil }
		case *plugin.RDNSS:
			p.Addrs = func() ([]system.IP, error) { return addrs, nil }
		case *plugin.LLA:
			if hasMAC {
				p.Addr = net.HardwareAddr{2, 0, 0, 0, 0, 1}
			}
		}
	}
	fwd := zzNondetBool("forwarding")
	ra, _, err := ifi.RouterAdvertisement(fwd)
	// eligible wildcard address: not link-local
	b := a0.As16()
	a0LL := zzAnd(b[0] == 0xfe, b[1]&0xc0 == 0x80)
	if err != nil {
		// only the RDNSS wildcard can fail: no usable address never happens here (a0 or fe80::1 is usable)
		zzAssert(false, "generation-succeeds")
		return
	}
	// header
	zzAssert(zzAnd(zzAnd(ra.CurrentHopLimit == ifi.HopLimit, ra.ManagedConfiguration == ifi.Managed),
		zzAnd(ra.OtherConfiguration == ifi.OtherConfig, zzAnd(ra.ReachableTime == ifi.ReachableTime, ra.RetransmitTimer == ifi.RetransmitTimer))), "header-as-configured")
	zzAssert(ra.RouterSelectionPreference == ifi.Preference, "preference-as-configured")
	zzAssert(ra.RouterLifetime == zzIte(fwd, ifi.DefaultLifetime, 0), "router-lifetime")

	// option kinds in order: prefixes, routes, rdnss, dnssl, mtu, lla, captive portal, pref64
	rank := func(o ndp.Option) int {
		switch o.(type) {
		case *ndp.PrefixInformation:
			return 0
		case *ndp.RouteInformation:
			return 1
		case *ndp.RecursiveDNSServer:
			return 2
		case *ndp.DNSSearchList:
			return 3
		case *ndp.MTU:
			return 4
		case *ndp.LinkLayerAddress:
			return 5
		case *ndp.CaptivePortal:
			return 6
		case *ndp.PREF64:
			return 7
		}
		return 8
	}
	counts := make([]int, 9)
	prev := 0
	for _, o := range ra.Options {
		r := rank(o)
		zzAssert(r >= prev, "documented-option-order")
		prev = r
		counts[r]++
	}
	zzAssert(counts[8] == 0, "no-unknown-option")
	// prefixes: static p1, the wildcard expansion (a0's /64 unless link-local), deprecated p3
	zzAssert(counts[0] == 2+zzIte(a0LL, 0, 1), "prefix-count")
	zzAssert(counts[1] == 2, "route-count-static-plus-loopback")
	zzAssert(counts[2] == 1 && counts[3] == 1 && counts[4] == 1 && counts[6] == 1 && counts[7] == 1, "one-each-of-rdnss-dnssl-mtu-captive-pref64")
	zzAssert(counts[5] == zzIte(hasMAC, 1, 0), "source-lla-iff-hardware-address")
	if len(ra.Options) > 0 {
		p1, ok := ra.Options[0].(*ndp.PrefixInformation)
		zzAssert(ok, "first-option-is-the-first-prefix-stanza")
		if ok {
			zzAssert(p1.Prefix == netip.MustParseAddr("2001:db8:1::") && p1.PrefixLength == 64, "static-prefix-value")
			zzAssert(p1.PreferredLifetime == 4*time.Hour && p1.OnLink && p1.AutonomousAddressConfiguration, "static-prefix-defaults")
		}
	}
	for _, o := range ra.Options {
		switch o := o.(type) {
		case *ndp.RecursiveDNSServer:
			zzAssert(len(o.Servers) == 2, "rdnss-wildcard-plus-static")
			if len(o.Servers) == 2 {
				zzAssert(o.Servers[1] == netip.MustParseAddr("2001:db8::53"), "rdnss-static-server-second")
				zzAssert(zzOr(o.Servers[0] == a0, o.Servers[0] == netip.MustParseAddr("fe80::1")), "rdnss-wildcard-is-an-interface-address")
			}
		case *ndp.DNSSearchList:
			zzAssert(len(o.DomainNames) == 2 && o.Lifetime == 3*ifi.MaxInterval, "dnssl-as-configured")
		case *ndp.MTU:
			zzAssert(o.MTU == 1500, "mtu-value")
		case *ndp.CaptivePortal:
			zzAssert(o.URI == "https://portal.example.com/", "captive-portal-uri")
		case *ndp.PREF64:
			zzAssert(o.Prefix == netip.MustParsePrefix("64:ff9b::/96") && o.Lifetime == 1800*time.Second, "pref64-default-prefix-and-lifetime")
		case *ndp.RouteInformation:
			zzAssert(zzOr(zzAnd(o.Prefix == netip.MustParseAddr("2001:db8:ffff::"), o.Preference == ndp.High),
				zzAnd(o.Prefix == netip.MustParseAddr("2001:db8:b::"), o.Preference == ndp.Medium)), "routes-static-then-loopback")
		}
	}
	// building it again: identical RA
	ra2, _, err2 := ifi.RouterAdvertisement(fwd)
	zzAssert(err2 == nil, "second-build-succeeds")
	if err2 == nil {
		zzAssert(zzDeepEqual(ra, ra2), "rebuilding-yields-an-identical-ra")
	}
}
