package config

import "time"

// H02strings: the textual forms of a PREF64 prefix, a prefix and a route, on a
// concrete table through the real netip parsers (the symbolic harnesses feed
// parsed values through a stub): only canonical IPv6 CIDR text is accepted --
// no bare address, no host bits, no IPv4, no IPv4-mapped form, no zone.
func zzH02strings() {
	cases := []struct {
		s      string
		pref64 bool // accepted as a pref64 prefix
		prefix bool // accepted as a prefix
		route  bool // accepted as a route
	}{
		{"64:ff9b::/96", true, true, true},
		{"2001:db8:64::/64", true, true, true},
		{"2001:db8::/32", true, true, true},
		{"64:ff9b::1/96", false, false, false},    // host bits
		{"64:ff9b::", false, false, false},        // bare address
		{"64:ff9b::1", false, false, false},       // bare address with host bits
		{"2001:db8::/33", false, true, true},      // not a NAT64 length
		{"192.0.2.0/24", false, false, false},     // IPv4
		{"::ffff:192.0.2.0/120", false, false, false}, // IPv4-mapped
		{"fe80::%eth0/64", false, false, false},   // zone
		{"2001:db8::/129", false, false, false},
		{"2001:db8::1/128", false, false, true},   // /128: no prefix, but a route
	}
	c := cases[zzNondetChoice("case", len(cases))]
	s := c.s
	which := zzNondetChoice("stanza", 3)
	var raw rawInterface
	raw.Advertise = true
	want := false
	switch which {
	case 0:
		raw.PREF64 = []rawPREF64{{Prefix: &s}}
		want = c.pref64
	case 1:
		raw.Prefixes = []rawPrefix{{Prefix: s}}
		want = c.prefix
	default:
		raw.Routes = []rawRoute{{Prefix: s}}
		want = c.route
	}
	_, err := parseInterface("eth0", raw, time.Unix(1700000000, 0))
	zzAssert((err == nil) == want, "only-canonical-ipv6-cidr-text-is-accepted")
}
