package config

import (
	"github.com/mdlayher/ndp"
	"time"
)

// H03rdnss / H03dnssl: lifetimes of the DNS options.
func zzH03dns() {
	max := zzNondetDuration("max_interval")
	zzAssume(zzAnd(max >= 4*time.Second, max <= 1800*time.Second))
	ra := &ndp.RouterAdvertisement{}
	which := zzNondetChoice("which", 2)
	if which == 0 {
		var rd rawRDNSS
		rd.Lifetime, _ = zzDurKeyPtr("lifetime")
		s := zzAtom("server")
		zzPA[s] = zzPARes{a: zzNondetAddr6("server"), ok: true}
		rd.Servers = []string{s}
		r, err := parseRDNSS(rd, max)
		zzAssume(err == nil)
		zzAssume(zzNot(r.Auto))
		zzAssert(r.Apply(ra) == nil, "applies")
	} else {
		var rd rawDNSSL
		rd.Lifetime, _ = zzDurKeyPtr("lifetime")
		rd.DomainNames = []string{"lan.example.com"}
		d, err := parseDNSSL(rd, max)
		zzAssume(err == nil)
		zzAssert(d.Apply(ra) == nil, "applies")
	}
	out := zzRoundTrip(ra, "dns")
	if out == nil || len(out.Options) != 1 {
		zzAssert(out == nil, "one-option-decoded")
		return
	}
	if which == 0 {
		a := ra.Options[0].(*ndp.RecursiveDNSServer)
		b, ok := out.Options[0].(*ndp.RecursiveDNSServer)
		zzAssert(ok, "decodes-as-rdnss")
		if ok {
			zzLifeSame(a.Lifetime, b.Lifetime, "rdnss-lifetime")
			zzAssert(len(b.Servers) == 1 && b.Servers[0] == a.Servers[0], "rdnss-servers")
		}
	} else {
		a := ra.Options[0].(*ndp.DNSSearchList)
		b, ok := out.Options[0].(*ndp.DNSSearchList)
		zzAssert(ok, "decodes-as-dnssl")
		if ok {
			zzLifeSame(a.Lifetime, b.Lifetime, "dnssl-lifetime")
			zzAssert(len(b.DomainNames) == 1 && b.DomainNames[0] == "lan.example.com", "dnssl-names")
		}
	}
}
