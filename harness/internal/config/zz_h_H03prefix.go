package config

import (
	"github.com/mdlayher/ndp"
	"time"
)

// H03prefix: a static prefix stanza.
func zzH03prefix() {
	var rp rawPrefix
	s, kind, _ := zzPrefixKey("prefix")
	zzAssume(kind == zzPv6)
	rp.Prefix = s
	rp.ValidLifetime, _ = zzDurKeyPtr("valid_lifetime")
	rp.PreferredLifetime, _ = zzDurKeyPtr("preferred_lifetime")
	p, err := parsePrefix(rp, time.Time{})
	zzAssume(err == nil)
	zzAssume(zzNot(p.Auto))
	ra := &ndp.RouterAdvertisement{}
	zzAssert(p.Apply(ra) == nil, "applies")
	out := zzRoundTrip(ra, "prefix")
	if out == nil || len(ra.Options) != 1 {
		return
	}
	zzAssert(len(out.Options) == 1, "one-option-decoded")
	if len(out.Options) != 1 {
		return
	}
	a := ra.Options[0].(*ndp.PrefixInformation)
	b, ok := out.Options[0].(*ndp.PrefixInformation)
	zzAssert(ok, "decodes-as-prefix-information")
	if !ok {
		return
	}
	zzLifeSame(a.ValidLifetime, b.ValidLifetime, "valid")
	zzLifeSame(a.PreferredLifetime, b.PreferredLifetime, "preferred")
	zzAssert(zzAnd(a.Prefix == b.Prefix, a.PrefixLength == b.PrefixLength), "prefix-and-length")
	zzAssert(zzAnd(a.OnLink == b.OnLink, a.AutonomousAddressConfiguration == b.AutonomousAddressConfiguration), "flags")
}
