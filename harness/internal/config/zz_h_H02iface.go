package config

import (
	"time"
)

// H02iface: name xor names; monitor and advertise exclusive; a monitoring
// interface carries no advertising settings (and none is validated).
func zzH02iface() {
	var raw rawInterface
	hasName := zzNondetChoice("name", 2) == 1
	nNames := zzNondetChoice("names", 3)
	if hasName {
		raw.Name = "eth0"
	}
	for i := 0; i < nNames; i++ {
		raw.Names = append(raw.Names, "eth"+string(rune('1'+i)))
	}
	raw.Monitor, raw.Advertise = zzNondetChoice("monitor", 2) == 1, zzNondetChoice("advertise", 2) == 1
	raw.Verbose = zzNondetBool("verbose")
	// garbage in every advertising key: must not matter for a monitor
	garbage := zzNondetChoice("garbage", 2) == 1
	if garbage {
		raw.MaxInterval = "1s"
		raw.MTU = -5
		raw.Preference = "bogus"
	}
	ifis, err := parseInterfaces(raw, time.Time{})
	idOK := hasName != (nNames > 0)
	modeOK := !(raw.Monitor && raw.Advertise)
	settingsOK := raw.Monitor || !garbage
	if err != nil {
		zzAssert(!(idOK && modeOK && settingsOK), "accepted-when-identifiers-and-modes-are-consistent")
		return
	}
	zzAssert(idOK && modeOK && settingsOK, "rejected-otherwise")
	want := 1
	if !hasName {
		want = nNames
	}
	zzAssert(len(ifis) == want, "one-interface-per-name")
	for i, ifi := range ifis {
		name := "eth0"
		if !hasName {
			name = "eth" + string(rune('1'+i))
		}
		zzAssert(ifi.Name == name, "names-in-order")
		zzAssert(ifi.Monitor == raw.Monitor && ifi.Advertise == raw.Advertise && ifi.Verbose == raw.Verbose, "modes-copied")
		if raw.Monitor {
			zzAssert(ifi.MaxInterval == 0 && ifi.MinInterval == 0 && ifi.DefaultLifetime == 0 && ifi.HopLimit == 0 && len(ifi.Plugins) == 0, "monitor-interface-has-no-advertising-settings")
		}
	}
	// every interface of a group has its own plugin objects: they hold
	// per-interface state once prepared (hardware address, address source)
	for i := range ifis {
		for j := i + 1; j < len(ifis); j++ {
			for k := range ifis[i].Plugins {
				if k < len(ifis[j].Plugins) {
					zzAssert(ifis[i].Plugins[k] != ifis[j].Plugins[k], "interfaces-of-a-group-do-not-share-plugin-state")
				}
			}
		}
	}
}
