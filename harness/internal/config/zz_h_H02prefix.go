package config

import (
	"github.com/mdlayher/ndp"
	"net/netip"
	"time"
)

func zzH02prefix() {
	var rp rawPrefix
	s, kind, p := zzPrefixKey("prefix")
	rp.Prefix = s
	var kv, kp zzDur
	rp.ValidLifetime, kv = zzDurKeyPtr("valid_lifetime")
	rp.PreferredLifetime, kp = zzDurKeyPtr("preferred_lifetime")
	rp.Deprecated = zzNondetBool("deprecated")
	onl, aut := zzNondetChoice("on_link", 3), zzNondetChoice("autonomous", 3)
	t, f := true, false
	if onl == 1 {
		rp.OnLink = &t
	} else if onl == 2 {
		rp.OnLink = &f
	}
	if aut == 1 {
		rp.Autonomous = &t
	} else if aut == 2 {
		rp.Autonomous = &f
	}
	epoch := zzNondetInstant("epoch", false)
	out, err := parsePrefix(rp, epoch)

	// prefix string
	var pv zzVerdict
	want := netip.MustParsePrefix("::/64")
	switch kind {
	case zzPEmpty:
		pv = zzVerdict{true, false}
	case zzPBad, zzPv4:
		pv = zzVerdict{false, true}
	default:
		good := zzAnd(zzCanonical6(p), zzAnd(p.Bits() != 128, zzOr(zzNot(zzIsUnspec6(p)), p.Bits() == 64)))
		pv = zzVerdict{good, zzNot(good)}
		want = p
	}
	okV, v := zzDurDecode(kv, 24*time.Hour)
	okP, pr := zzDurDecode(kp, 4*time.Hour)
	vv, vp := zzPositiveLife(okV, v), zzPositiveLife(okP, pr)
	// negative lifetimes: the class the current tree gets wrong (C02 requires positive or infinite)
	zzKnownClass("negative-lifetime", zzOr(zzAnd(okV, v < 0), zzAnd(okP, pr < 0)))
	order := zzVerdict{mustAccept: pr <= v, mustReject: pr > v}
	depr := zzVerdict{mustAccept: zzOr(zzNot(rp.Deprecated), zzAnd(v != ndp.Infinity, pr != ndp.Infinity)),
		mustReject: zzAnd(rp.Deprecated, zzOr(v == ndp.Infinity, pr == ndp.Infinity))}
	all := zzVerdict{
		mustAccept: zzAnd(zzAnd(pv.mustAccept, vv.mustAccept), zzAnd(vp.mustAccept, zzAnd(order.mustAccept, depr.mustAccept))),
		mustReject: zzOr(zzOr(pv.mustReject, vv.mustReject), zzOr(vp.mustReject, zzOr(zzAnd(okV && okP, order.mustReject), zzAnd(okV && okP, depr.mustReject)))),
	}
	zzCheckVerdict(all, err, "prefix")
	if err != nil {
		return
	}
	zzAssert(out.Prefix == want, "prefix-value-or-wildcard")
	zzAssert(out.Auto == (out.Prefix == netip.MustParsePrefix("::/64")), "auto-iff-wildcard")
	zzAssert(zzAnd(out.ValidLifetime == v, out.PreferredLifetime == pr), "lifetimes-value-or-default-24h-4h")
	zzAssert(out.OnLink == (onl != 2), "on-link-default-true")
	zzAssert(out.Autonomous == (aut != 2), "autonomous-default-true")
	zzAssert(out.Deprecated == rp.Deprecated, "deprecated-copied")
	zzAssert(out.Epoch == epoch, "epoch-stored-unmodified")
}
