package config

import (
	"time"
)

// H03header: the seven header fields of an accepted interface.
func zzH03header() {
	var raw rawInterface
	raw.Advertise = true
	var max time.Duration
	raw.MaxInterval, max = zzValueKey("max_interval")
	_ = max
	raw.DefaultLifetime, _ = zzDurKeyPtr("default_lifetime")
	raw.ReachableTime, _ = zzValueKey("reachable_time")
	raw.RetransmitTimer, _ = zzValueKey("retransmit_timer")
	hop := zzNondetInt("hop_limit")
	raw.HopLimit = &hop
	raw.Managed, raw.OtherConfig = zzNondetBool("managed"), zzNondetBool("other_config")
	f := false
	raw.SourceLLA = &f
	switch zzNondetChoice("preference", 3) {
	case 1:
		raw.Preference = "low"
	case 2:
		raw.Preference = "high"
	}
	ifi, err := parseInterface("eth0", raw, time.Time{})
	zzAssume(err == nil) // the precondition is the code's own acceptance
	ra, _, err := ifi.RouterAdvertisement(true)
	zzAssert(err == nil, "generates")
	if err != nil {
		return
	}
	out := zzRoundTrip(ra, "header")
	if out == nil {
		return
	}
	zzSameUpTo(ra.RouterLifetime, out.RouterLifetime, time.Second, 65535*time.Second, "router-lifetime")
	zzSameUpTo(ra.ReachableTime, out.ReachableTime, time.Millisecond, 4294967295*time.Millisecond, "reachable-time")
	zzSameUpTo(ra.RetransmitTimer, out.RetransmitTimer, time.Millisecond, 4294967295*time.Millisecond, "retransmit-timer")
	zzAssert(zzAnd(out.CurrentHopLimit == ra.CurrentHopLimit, zzAnd(out.ManagedConfiguration == ra.ManagedConfiguration, out.OtherConfiguration == ra.OtherConfiguration)), "hop-limit-and-flags")
	zzAssert(out.RouterSelectionPreference == ra.RouterSelectionPreference, "preference")
}
