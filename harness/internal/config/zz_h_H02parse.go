package config

import (
	"errors"
	"time"
)

// H02parse: at least one interface; every name unique across groups; debug
// address validated iff set, Debug copied iff set; decoder errors propagate.
func zzH02parse() {
	groups := zzNondetChoice("groups", 4)
	pool := []string{"eth0", "eth1", "eth2"}
	var all []string
	zzFile = file{}
	for g := 0; g < groups; g++ {
		var raw rawInterface
		raw.Advertise = true
		if zzNondetChoice("g"+string(rune('0'+g))+".two", 2) == 1 {
			raw.Names = []string{pool[zzNondetChoice("g"+string(rune('0'+g))+".a", 3)], pool[zzNondetChoice("g"+string(rune('0'+g))+".b", 3)]}
			all = append(all, raw.Names...)
		} else {
			raw.Name = pool[zzNondetChoice("g"+string(rune('0'+g))+".a", 3)]
			all = append(all, raw.Name)
		}
		zzFile.Interfaces = append(zzFile.Interfaces, raw)
	}
	debugSet := zzNondetChoice("debug.address", 2) == 1
	zzFile.Debug = Debug{Prometheus: true, PProf: true}
	if debugSet {
		zzFile.Debug.Address = "localhost:9430"
	}
	zzResolveFail = zzNondetChoice("resolve.fail", 2) == 1
	zzDecodeErr = nil
	if zzNondetChoice("decode.fail", 2) == 1 {
		zzDecodeErr = errors.New("zz: bad TOML / unknown key")
	}
	cfg, err := Parse(nil, time.Time{})
	dup := false
	for i := range all {
		for j := i + 1; j < len(all); j++ {
			if all[i] == all[j] {
				dup = true
			}
		}
	}
	ok := zzDecodeErr == nil && groups > 0 && !dup && !(debugSet && zzResolveFail)
	if err != nil {
		zzAssert(!ok, "accepted-when-file-level-constraints-hold")
		return
	}
	zzAssert(ok, "rejected-otherwise")
	zzAssert(len(cfg.Interfaces) == len(all), "one-interface-per-name")
	for i := range cfg.Interfaces {
		if i < len(all) {
			zzAssert(cfg.Interfaces[i].Name == all[i], "interfaces-in-file-order")
		}
	}
	if debugSet {
		zzAssert(cfg.Debug == zzFile.Debug, "debug-copied-when-address-set")
	} else {
		zzAssert(cfg.Debug == Debug{}, "debug-empty-when-address-unset")
	}
}
