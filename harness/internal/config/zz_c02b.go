package config

import (
	"errors"
	"net"
	"net/netip"
	"time"

	"github.com/pelletier/go-toml"
)

// zzGoodPrefixKey: a prefix string that passes the per-stanza checks of a
// prefix (not /128, :: only as ::/64) or route (:: only as ::/0) stanza.
func zzGoodPrefixKey(name string, route bool) (string, netip.Prefix) {
	s := zzAtom(name)
	a := zzNondetAddr6(name)
	bits := zzNondetInt(name + ".bits")
	zzAssume(zzAnd(bits >= 0, bits <= 128))
	p := netip.PrefixFrom(a, bits)
	zzAssume(zzCanonical6(p))
	if route {
		zzAssume(zzOr(zzNot(zzIsUnspec6(p)), bits == 0))
	} else {
		zzAssume(zzAnd(bits != 128, zzOr(zzNot(zzIsUnspec6(p)), bits == 64)))
	}
	zzPP[s] = zzPPRes{p: p, ok: true}
	return s, p
}

// zzOverlap6: equal under the shorter mask.
func zzOverlap6(p, q netip.Prefix) bool {
	phi, plo := zzHiLo(p.Addr())
	qhi, qlo := zzHiLo(q.Addr())
	b := zzIte(p.Bits() < q.Bits(), p.Bits(), q.Bits())
	all := ^uint64(0)
	mhi := zzIte(b >= 64, all, all<<uint(64-b))
	mlo := zzIte(b > 64, all<<uint(128-b), uint64(0))
	return zzAnd(phi&mhi == qhi&mhi, plo&mlo == qlo&mlo)
}

// H02overlap: several prefix / route stanzas: accepted iff pairwise
// non-overlapping (the route wildcard is exempt).
func zzH02overlap() {
	n := zzParam("n")
	routes := zzNondetChoice("routes", 2) == 1
	var raw rawInterface
	raw.Advertise = true
	ps := make([]netip.Prefix, n)
	for i := 0; i < n; i++ {
		s, p := zzGoodPrefixKey("p"+string(rune('0'+i)), routes)
		ps[i] = p
		if routes {
			raw.Routes = append(raw.Routes, rawRoute{Prefix: s})
		} else {
			raw.Prefixes = append(raw.Prefixes, rawPrefix{Prefix: s})
		}
	}
	_, err := parseInterface("eth0", raw, time.Time{})
	overlap, dontcare := false, false
	for i := 0; i < n; i++ {
		for j := i + 1; j < n; j++ {
			o := zzOverlap6(ps[i], ps[j])
			if routes {
				wi, wj := zzAnd(zzIsUnspec6(ps[i]), ps[i].Bits() == 0), zzAnd(zzIsUnspec6(ps[j]), ps[j].Bits() == 0)
				// the wildcard is exempt; two wildcard stanzas are not covered by the statement
				dontcare = zzOr(dontcare, zzAnd(wi, wj))
				o = zzAnd(o, zzAnd(zzNot(wi), zzNot(wj)))
			}
			overlap = zzOr(overlap, o)
		}
	}
	if err != nil {
		zzAssert(zzOr(overlap, dontcare), "accepted-when-pairwise-disjoint")
	} else {
		zzAssert(zzNot(overlap), "rejected-when-two-overlap")
	}
}

// H02overlapW: the route wildcard (written "::/0" or left empty) at any
// position among three route stanzas does not switch the overlap check off
// for the other two.
func zzH02overlapW() {
	var raw rawInterface
	raw.Advertise = true
	pos := zzNondetChoice("wildcard-position", 3)
	wild := []string{"::/0", ""}[zzNondetChoice("wildcard-spelling", 2)]
	var ps []netip.Prefix
	k := 0
	for i := 0; i < 3; i++ {
		if i == pos {
			raw.Routes = append(raw.Routes, rawRoute{Prefix: wild})
			continue
		}
		s, p := zzGoodPrefixKey("r"+string(rune('0'+k)), true)
		k++
		// the two static routes are not wildcards themselves (two wildcard
		// stanzas are not covered by the statement)
		zzAssume(p.Bits() != 0)
		ps = append(ps, p)
		raw.Routes = append(raw.Routes, rawRoute{Prefix: s})
	}
	_, err := parseInterface("eth0", raw, time.Time{})
	zzAssert((err != nil) == zzOverlap6(ps[0], ps[1]), "static-routes-checked-for-overlap-wherever-the-wildcard-stands")
}

// H02iface: name xor names; monitor and advertise exclusive; a monitoring
// interface carries no advertising settings (and none is validated).
func zzH02iface() {
	var raw rawInterface
	hasName := zzNondetChoice("name", 2) == 1
	nNames := zzNondetChoice("names", 3)
	if hasName {
		raw.Name = "eth0"
	}
	for i := 0; i < nNames; i++ {
		raw.Names = append(raw.Names, "eth"+string(rune('1'+i)))
	}
	raw.Monitor, raw.Advertise = zzNondetChoice("monitor", 2) == 1, zzNondetChoice("advertise", 2) == 1
	raw.Verbose = zzNondetBool("verbose")
	// garbage in every advertising key: must not matter for a monitor
	garbage := zzNondetChoice("garbage", 2) == 1
	if garbage {
		raw.MaxInterval = "1s"
		raw.MTU = -5
		raw.Preference = "bogus"
	}
	ifis, err := parseInterfaces(raw, time.Time{})
	idOK := hasName != (nNames > 0)
	modeOK := !(raw.Monitor && raw.Advertise)
	settingsOK := raw.Monitor || !garbage
	if err != nil {
		zzAssert(!(idOK && modeOK && settingsOK), "accepted-when-identifiers-and-modes-are-consistent")
		return
	}
	zzAssert(idOK && modeOK && settingsOK, "rejected-otherwise")
	want := 1
	if !hasName {
		want = nNames
	}
	zzAssert(len(ifis) == want, "one-interface-per-name")
	for i, ifi := range ifis {
		name := "eth0"
		if !hasName {
			name = "eth" + string(rune('1'+i))
		}
		zzAssert(ifi.Name == name, "names-in-order")
		zzAssert(ifi.Monitor == raw.Monitor && ifi.Advertise == raw.Advertise && ifi.Verbose == raw.Verbose, "modes-copied")
		if raw.Monitor {
			zzAssert(ifi.MaxInterval == 0 && ifi.MinInterval == 0 && ifi.DefaultLifetime == 0 && ifi.HopLimit == 0 && len(ifi.Plugins) == 0, "monitor-interface-has-no-advertising-settings")
		}
	}
	// every interface of a group has its own plugin objects: they hold
	// per-interface state once prepared (hardware address, address source)
	for i := range ifis {
		for j := i + 1; j < len(ifis); j++ {
			for k := range ifis[i].Plugins {
				if k < len(ifis[j].Plugins) {
					zzAssert(ifis[i].Plugins[k] != ifis[j].Plugins[k], "interfaces-of-a-group-do-not-share-plugin-state")
				}
			}
		}
	}
}

// ---- file level: the TOML decoder and the resolver are environment ----

var (
	zzFile        file
	zzDecodeErr   error
	zzResolveFail bool
)

func zzStub_toml_Decoder_Decode(d *toml.Decoder, v interface{}) error {
	if zzDecodeErr != nil {
		return zzDecodeErr
	}
	*(v.(*file)) = zzFile
	return nil
}

func zzStub_net_ResolveTCPAddr(network, address string) (*net.TCPAddr, error) {
	if zzResolveFail {
		return nil, errors.New("zz: cannot resolve")
	}
	return &net.TCPAddr{Port: 9430}, nil
}

// H02parse: at least one interface; every name unique across groups; debug
// address validated iff set, Debug copied iff set; decoder errors propagate.
func zzH02parse() {
	groups := zzNondetChoice("groups", 4)
	pool := []string{"eth0", "eth1", "eth2"}
	var all []string
	zzFile = file{}
	for g := 0; g < groups; g++ {
		var raw rawInterface
		raw.Advertise = true
		if zzNondetChoice("g"+string(rune('0'+g))+".two", 2) == 1 {
			raw.Names = []string{pool[zzNondetChoice("g"+string(rune('0'+g))+".a", 3)], pool[zzNondetChoice("g"+string(rune('0'+g))+".b", 3)]}
			all = append(all, raw.Names...)
		} else {
			raw.Name = pool[zzNondetChoice("g"+string(rune('0'+g))+".a", 3)]
			all = append(all, raw.Name)
		}
		zzFile.Interfaces = append(zzFile.Interfaces, raw)
	}
	debugSet := zzNondetChoice("debug.address", 2) == 1
	zzFile.Debug = Debug{Prometheus: true, PProf: true}
	if debugSet {
		zzFile.Debug.Address = "localhost:9430"
	}
	zzResolveFail = zzNondetChoice("resolve.fail", 2) == 1
	zzDecodeErr = nil
	if zzNondetChoice("decode.fail", 2) == 1 {
		zzDecodeErr = errors.New("zz: bad TOML / unknown key")
	}
	cfg, err := Parse(nil, time.Time{})
	dup := false
	for i := range all {
		for j := i + 1; j < len(all); j++ {
			if all[i] == all[j] {
				dup = true
			}
		}
	}
	ok := zzDecodeErr == nil && groups > 0 && !dup && !(debugSet && zzResolveFail)
	if err != nil {
		zzAssert(!ok, "accepted-when-file-level-constraints-hold")
		return
	}
	zzAssert(ok, "rejected-otherwise")
	zzAssert(len(cfg.Interfaces) == len(all), "one-interface-per-name")
	for i := range cfg.Interfaces {
		if i < len(all) {
			zzAssert(cfg.Interfaces[i].Name == all[i], "interfaces-in-file-order")
		}
	}
	if debugSet {
		zzAssert(cfg.Debug == zzFile.Debug, "debug-copied-when-address-set")
	} else {
		zzAssert(cfg.Debug == Debug{}, "debug-empty-when-address-unset")
	}
}
