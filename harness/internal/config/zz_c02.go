package config

import (
	"encoding/binary"
	"net/netip"
	"time"

	"github.com/mdlayher/corerad/internal/plugin"
	"github.com/mdlayher/ndp"
)

// ---------- reference model helpers (written from the statement / reference.toml) ----------

func zzTruncSec(d time.Duration) time.Duration { return d / time.Second * time.Second }

// three-valued verdict on an input
type zzVerdict struct{ mustAccept, mustReject bool }

func zzCheckVerdict(v zzVerdict, err error, id string) {
	if err != nil {
		zzAssert(zzNot(v.mustAccept), id+"/accepted-when-constraints-hold")
	} else {
		zzAssert(zzNot(v.mustReject), id+"/rejected-when-a-constraint-fails")
	}
}

const zzMaxWire = time.Duration(4294967295) * time.Second // 2^32-1 s: largest finite wire lifetime

// zzLifetime: decoded value of a lifetime key: (ok, infinite, value)
func zzDurDecode(k zzDur, def time.Duration) (ok bool, val time.Duration) {
	switch k.kind {
	case zzKAbsent, zzKAuto:
		return true, def
	case zzKEmpty:
		return true, 0
	case zzKInfinite:
		return true, ndp.Infinity
	case zzKBad:
		return false, 0
	}
	return true, k.d
}

// ---------- H02interval ----------

func zzH02interval() {
	var raw rawInterface
	raw.Advertise = true
	var kmax, kmin zzDur
	raw.MaxInterval, kmax = zzDurKey("max_interval")
	raw.MinInterval, kmin = zzDurKey("min_interval")
	ifi, err := parseInterface("eth0", raw, time.Time{})

	// max: "" = default 600s; auto / infinite / unparsable are not durations
	maxOK := kmax.kind == zzKEmpty || kmax.kind == zzKValue
	max := 600 * time.Second
	if kmax.kind == zzKValue {
		max = kmax.d
	}
	if !maxOK {
		zzAssert(err != nil, "max-not-a-duration-rejected")
		return
	}
	maxIn := zzAnd(max >= 4*time.Second, max <= 1800*time.Second)
	minAuto := kmin.kind == zzKEmpty || kmin.kind == zzKAuto
	minOK := minAuto || kmin.kind == zzKValue
	if !minOK {
		zzAssert(err != nil, "min-not-a-duration-rejected")
		return
	}
	upper := zzTruncSec(3 * max / 4)
	minIn := zzOr(minAuto, zzAnd(kmin.d >= 3*time.Second, kmin.d <= upper))
	accept := zzAnd(maxIn, minIn)
	if err != nil {
		zzAssert(zzNot(accept), "accepted-iff-intervals-in-range")
		return
	}
	zzAssert(accept, "rejected-iff-intervals-out-of-range")
	zzAssert(ifi.MaxInterval == max, "max-value-or-default-600s")
	wantMin := kmin.d
	if minAuto {
		wantMin = zzIte(max >= 9*time.Second, zzTruncSec(33*max/100), max)
	}
	zzAssert(ifi.MinInterval == wantMin, "min-value-or-default")
	// other defaults on a minimal interface
	zzAssert(ifi.DefaultLifetime == 3*max, "default-lifetime-3x-max")
	zzAssert(ifi.HopLimit == 64, "default-hop-limit-64")
	zzAssert(zzAnd(ifi.ReachableTime == 0, ifi.RetransmitTimer == 0), "default-timers-zero")
	zzAssert(ifi.Preference == ndp.Medium, "default-preference-medium")
	zzAssert(len(ifi.Plugins) == 1, "default-plugins-source-lla-only")
	if len(ifi.Plugins) == 1 {
		_, isLLA := ifi.Plugins[0].(*plugin.LLA)
		zzAssert(isLLA, "source-lla-on-by-default")
	}
}

// ---------- H02header: default_lifetime, timers, hop limit, mtu, preference ----------

func zzH02header() {
	var raw rawInterface
	raw.Advertise = true
	var max time.Duration
	raw.MaxInterval, max = zzValueKey("max_interval")
	zzAssume(zzAnd(max >= 4*time.Second, max <= 1800*time.Second))
	which := zzNondetChoice("key", 5)
	var kl, kt zzDur
	hop, mtu := 64, 0
	prefOK, wantPref := true, ndp.Medium
	timerIsReach := false
	switch which {
	case 0:
		raw.DefaultLifetime, kl = zzDurKeyPtr("default_lifetime")
	case 1:
		timerIsReach = zzNondetChoice("timer", 2) == 0
		var s string
		s, kt = zzDurKey("timer")
		if timerIsReach {
			raw.ReachableTime = s
		} else {
			raw.RetransmitTimer = s
		}
	case 2:
		if zzNondetChoice("hop.set", 2) == 1 {
			hop = zzNondetInt("hop_limit")
			raw.HopLimit = &hop
		}
	case 3:
		mtu = zzNondetInt("mtu")
		raw.MTU = mtu
	case 4:
		switch zzNondetChoice("preference", 5) {
		case 0:
			raw.Preference = ""
		case 1:
			raw.Preference, wantPref = "low", ndp.Low
		case 2:
			raw.Preference = "medium"
		case 3:
			raw.Preference, wantPref = "high", ndp.High
		default:
			raw.Preference, prefOK = zzAtom("preference"), false
		}
	}
	ifi, err := parseInterface("eth0", raw, time.Time{})
	switch which {
	case 0:
		ok, lt := zzDurDecode(kl, 3*max)
		if !ok || kl.kind == zzKInfinite {
			zzAssert(err != nil, "default-lifetime-not-a-finite-duration-rejected")
			return
		}
		in := zzOr(lt == 0, zzAnd(lt >= max, lt <= 9000*time.Second))
		if err != nil {
			zzAssert(zzNot(in), "default-lifetime-accepted-iff-0-or-in-range")
			return
		}
		zzAssert(in, "default-lifetime-rejected-iff-out-of-range")
		zzAssert(ifi.DefaultLifetime == lt, "default-lifetime-value")
	case 1:
		if kt.kind != zzKEmpty && kt.kind != zzKValue {
			zzAssert(err != nil, "timer-not-a-duration-rejected")
			return
		}
		v := time.Duration(0)
		if kt.kind == zzKValue {
			v = kt.d
		}
		in := zzAnd(v >= 0, v <= time.Hour)
		if err != nil {
			zzAssert(zzNot(in), "timer-accepted-iff-in-0-1h")
			return
		}
		zzAssert(in, "timer-rejected-iff-out-of-range")
		if timerIsReach {
			zzAssert(zzAnd(ifi.ReachableTime == v, ifi.RetransmitTimer == 0), "reachable-value")
		} else {
			zzAssert(zzAnd(ifi.RetransmitTimer == v, ifi.ReachableTime == 0), "retransmit-value")
		}
	case 2:
		in := zzAnd(hop >= 0, hop <= 255)
		if err != nil {
			zzAssert(zzNot(in), "hop-limit-accepted-iff-0-255")
			return
		}
		zzAssert(in, "hop-limit-rejected-iff-out-of-range")
		zzAssert(int(ifi.HopLimit) == hop, "hop-limit-value")
	case 3:
		in := zzAnd(mtu >= 0, mtu <= 65536)
		if err != nil {
			zzAssert(zzNot(in), "mtu-accepted-iff-0-65536")
			return
		}
		zzAssert(in, "mtu-rejected-iff-out-of-range")
		// MTU plugin iff non-zero, placed before the source LLA plugin
		n := 0
		for _, p := range ifi.Plugins {
			if m, ok := p.(*plugin.MTU); ok {
				n++
				zzAssert(int(*m) == mtu, "mtu-plugin-value")
			}
		}
		zzAssert(n == zzIte(mtu != 0, 1, 0), "mtu-plugin-iff-nonzero")
	case 4:
		if err != nil {
			zzAssert(!prefOK, "preference-accepted-iff-low-medium-high")
			return
		}
		zzAssert(prefOK, "preference-rejected-iff-unknown")
		zzAssert(ifi.Preference == wantPref, "preference-value")
	}
}

// ---------- prefixes and routes ----------

const (
	zzPEmpty = iota
	zzPBad
	zzPv6
	zzPv4
)

// zzPrefixKey: a prefix string of arbitrary shape and the prefix it parses to.
func zzPrefixKey(name string) (string, int, netip.Prefix) {
	k := zzNondetChoice(name+".kind", 4)
	switch k {
	case zzPEmpty:
		return "", k, netip.Prefix{}
	case zzPBad:
		s := zzAtom(name + ".bad")
		zzPP[s] = zzPPRes{ok: false}
		return s, k, netip.Prefix{}
	}
	s := zzAtom(name + ".val")
	var a netip.Addr
	max := 128
	if k == zzPv6 {
		a = zzNondetAddr6(name)
	} else {
		a, max = zzNondetAddr4(name), 32
	}
	bits := zzNondetInt(name + ".bits")
	zzAssume(zzAnd(bits >= 0, bits <= max))
	p := netip.PrefixFrom(a, bits)
	zzPP[s] = zzPPRes{p: p, ok: true}
	return s, k, p
}

func zzHiLo(a netip.Addr) (uint64, uint64) {
	b := a.As16()
	return binary.BigEndian.Uint64(b[:8]), binary.BigEndian.Uint64(b[8:])
}

// zzCanonical6: IPv6 (not 4in6) prefix with no host bits set.
func zzCanonical6(p netip.Prefix) bool {
	hi, lo := zzHiLo(p.Addr())
	bits := p.Bits()
	all := ^uint64(0)
	mhi := zzIte(bits >= 64, all, all<<uint(64-bits))
	mlo := zzIte(bits > 64, all<<uint(128-bits), uint64(0))
	is4in6 := zzAnd(hi == 0, lo>>32 == 0xffff)
	return zzAnd(zzNot(is4in6), zzAnd(hi&^mhi == 0, lo&^mlo == 0))
}

func zzIsUnspec6(p netip.Prefix) bool {
	hi, lo := zzHiLo(p.Addr())
	return zzAnd(hi == 0, lo == 0)
}

// zzLifeVerdict: a lifetime that must be positive or infinite.
// returns (mustAccept, mustReject, infinite)
func zzPositiveLife(ok bool, v time.Duration) zzVerdict {
	if !ok {
		return zzVerdict{false, true}
	}
	inf := v == ndp.Infinity
	return zzVerdict{
		mustAccept: zzOr(inf, zzAnd(v > 0, v <= zzMaxWire)),
		mustReject: zzAnd(zzNot(inf), v <= 0),
	}
}

func zzH02prefix() {
	var rp rawPrefix
	s, kind, p := zzPrefixKey("prefix")
	rp.Prefix = s
	var kv, kp zzDur
	rp.ValidLifetime, kv = zzDurKeyPtr("valid_lifetime")
	rp.PreferredLifetime, kp = zzDurKeyPtr("preferred_lifetime")
	rp.Deprecated = zzNondetBool("deprecated")
	onl, aut := zzNondetChoice("on_link", 3), zzNondetChoice("autonomous", 3)
	t, f := true, false
	if onl == 1 {
		rp.OnLink = &t
	} else if onl == 2 {
		rp.OnLink = &f
	}
	if aut == 1 {
		rp.Autonomous = &t
	} else if aut == 2 {
		rp.Autonomous = &f
	}
	epoch := zzNondetInstant("epoch", false)
	out, err := parsePrefix(rp, epoch)

	// prefix string
	var pv zzVerdict
	want := netip.MustParsePrefix("::/64")
	switch kind {
	case zzPEmpty:
		pv = zzVerdict{true, false}
	case zzPBad, zzPv4:
		pv = zzVerdict{false, true}
	default:
		good := zzAnd(zzCanonical6(p), zzAnd(p.Bits() != 128, zzOr(zzNot(zzIsUnspec6(p)), p.Bits() == 64)))
		pv = zzVerdict{good, zzNot(good)}
		want = p
	}
	okV, v := zzDurDecode(kv, 24*time.Hour)
	okP, pr := zzDurDecode(kp, 4*time.Hour)
	vv, vp := zzPositiveLife(okV, v), zzPositiveLife(okP, pr)
	// negative lifetimes: the class the current tree gets wrong (C02 requires positive or infinite)
	zzKnownClass("negative-lifetime", zzOr(zzAnd(okV, v < 0), zzAnd(okP, pr < 0)))
	order := zzVerdict{mustAccept: pr <= v, mustReject: pr > v}
	depr := zzVerdict{mustAccept: zzOr(zzNot(rp.Deprecated), zzAnd(v != ndp.Infinity, pr != ndp.Infinity)),
		mustReject: zzAnd(rp.Deprecated, zzOr(v == ndp.Infinity, pr == ndp.Infinity))}
	all := zzVerdict{
		mustAccept: zzAnd(zzAnd(pv.mustAccept, vv.mustAccept), zzAnd(vp.mustAccept, zzAnd(order.mustAccept, depr.mustAccept))),
		mustReject: zzOr(zzOr(pv.mustReject, vv.mustReject), zzOr(vp.mustReject, zzOr(zzAnd(okV && okP, order.mustReject), zzAnd(okV && okP, depr.mustReject)))),
	}
	zzCheckVerdict(all, err, "prefix")
	if err != nil {
		return
	}
	zzAssert(out.Prefix == want, "prefix-value-or-wildcard")
	zzAssert(out.Auto == (out.Prefix == netip.MustParsePrefix("::/64")), "auto-iff-wildcard")
	zzAssert(zzAnd(out.ValidLifetime == v, out.PreferredLifetime == pr), "lifetimes-value-or-default-24h-4h")
	zzAssert(out.OnLink == (onl != 2), "on-link-default-true")
	zzAssert(out.Autonomous == (aut != 2), "autonomous-default-true")
	zzAssert(out.Deprecated == rp.Deprecated, "deprecated-copied")
	zzAssert(out.Epoch == epoch, "epoch-stored-unmodified")
}

func zzH02route() {
	var rr rawRoute
	s, kind, p := zzPrefixKey("prefix")
	rr.Prefix = s
	var kl zzDur
	rr.Lifetime, kl = zzDurKeyPtr("lifetime")
	rr.Deprecated = zzNondetBool("deprecated")
	prefOK, wantPref := true, ndp.Medium
	switch zzNondetChoice("preference", 4) {
	case 0:
	case 1:
		rr.Preference, wantPref = "low", ndp.Low
	case 2:
		rr.Preference, wantPref = "high", ndp.High
	default:
		rr.Preference, prefOK = zzAtom("preference"), false
	}
	epoch := zzNondetInstant("epoch", false)
	out, err := parseRoute(rr, epoch)

	var pv zzVerdict
	want := netip.MustParsePrefix("::/0")
	switch kind {
	case zzPEmpty:
		pv = zzVerdict{true, false}
	case zzPBad, zzPv4:
		pv = zzVerdict{false, true}
	default:
		good := zzAnd(zzCanonical6(p), zzOr(zzNot(zzIsUnspec6(p)), p.Bits() == 0))
		pv = zzVerdict{good, zzNot(good)}
		want = p
	}
	okL, lt := zzDurDecode(kl, 24*time.Hour)
	vl := zzPositiveLife(okL, lt)
	zzKnownClass("negative-lifetime", zzAnd(okL, lt < 0))
	depr := zzVerdict{mustAccept: zzOr(zzNot(rr.Deprecated), lt != ndp.Infinity), mustReject: zzAnd(rr.Deprecated, lt == ndp.Infinity)}
	all := zzVerdict{
		mustAccept: zzAnd(zzAnd(pv.mustAccept, prefOK), zzAnd(vl.mustAccept, depr.mustAccept)),
		mustReject: zzOr(zzOr(pv.mustReject, !prefOK), zzOr(vl.mustReject, zzAnd(okL, depr.mustReject))),
	}
	zzCheckVerdict(all, err, "route")
	if err != nil {
		return
	}
	zzAssert(out.Prefix == want, "route-value-or-wildcard")
	zzAssert(out.Auto == (out.Prefix == netip.MustParsePrefix("::/0")), "auto-iff-wildcard")
	zzAssert(zzAnd(out.Lifetime == lt, out.Preference == wantPref), "lifetime-default-24h-preference-default-medium")
	zzAssert(zzAnd(out.Deprecated == rr.Deprecated, out.Epoch == epoch), "deprecated-and-epoch-copied")
}

// ---------- RDNSS / DNSSL ----------

func zzNonNegLife(ok bool, v time.Duration) zzVerdict {
	if !ok {
		return zzVerdict{false, true}
	}
	inf := v == ndp.Infinity
	return zzVerdict{mustAccept: zzOr(inf, zzAnd(v >= 0, v <= zzMaxWire)), mustReject: zzAnd(zzNot(inf), v < 0)}
}

func zzH02rdnss() {
	var rd rawRDNSS
	var kl zzDur
	rd.Lifetime, kl = zzDurKeyPtr("lifetime")
	max := zzNondetDuration("max_interval")
	zzAssume(zzAnd(max >= 4*time.Second, max <= 1800*time.Second))
	n := zzNondetChoice("nservers", 4)
	// server strings: unparsable, IPv4, or an IPv6 address (possibly :: or 4in6)
	serversOK := true
	var addrs []netip.Addr
	for i := 0; i < n; i++ {
		name := "server" + string(rune('0'+i))
		s := zzAtom(name)
		switch zzNondetChoice(name+".kind", 3) {
		case 0:
			zzPA[s] = zzPARes{ok: false}
			serversOK = false
		case 1:
			zzPA[s] = zzPARes{a: zzNondetAddr4(name), ok: true}
			serversOK = false
		default:
			a := zzNondetAddr6(name)
			zzPA[s] = zzPARes{a: a, ok: true}
			addrs = append(addrs, a)
		}
		rd.Servers = append(rd.Servers, s)
	}
	out, err := parseRDNSS(rd, max)
	okL, lt := zzDurDecode(kl, 3*max)
	vl := zzNonNegLife(okL, lt)
	zzKnownClass("negative-lifetime", zzAnd(okL, lt < 0))
	if !serversOK {
		zzAssert(zzOr(err != nil, zzNot(vl.mustAccept)), "non-ipv6-server-rejected")
		if okL {
			zzAssert(err != nil, "non-ipv6-server-rejected-2")
		}
		return
	}
	// all strings are IPv6 addresses: unique, not 4in6, at most one ::
	bad := false
	wild := 0
	for i, a := range addrs {
		hi, lo := zzHiLo(a)
		bad = zzOr(bad, zzAnd(hi == 0, lo>>32 == 0xffff))
		wild += zzIte(zzAnd(hi == 0, lo == 0), 1, 0)
		for j := 0; j < i; j++ {
			nz := zzNot(zzAnd(hi == 0, lo == 0))
			bad = zzOr(bad, zzAnd(nz, addrs[j] == a))
		}
	}
	bad = zzOr(bad, wild > 1)
	all := zzVerdict{mustAccept: zzAnd(vl.mustAccept, zzNot(bad)), mustReject: zzOr(vl.mustReject, bad)}
	zzCheckVerdict(all, err, "rdnss")
	if err != nil {
		return
	}
	zzAssert(out.Lifetime == lt, "lifetime-value-or-default-3x-max")
	zzAssert(out.Auto == zzOr(n == 0, wild == 1), "auto-iff-empty-or-wildcard")
	zzAssert(len(out.Servers) == len(addrs)-zzIte(wild == 1, 1, 0), "static-servers-without-wildcard")
	for i := range out.Servers {
		isInput := false
		for _, a := range addrs {
			isInput = zzOr(isInput, out.Servers[i] == a)
		}
		zzAssert(isInput, "static-server-is-configured")
		if i > 0 {
			zzAssert(out.Servers[i-1].Less(out.Servers[i]), "static-servers-ascending")
		}
	}
}

func zzH02dnssl() {
	var rd rawDNSSL
	var kl zzDur
	rd.Lifetime, kl = zzDurKeyPtr("lifetime")
	max := zzNondetDuration("max_interval")
	zzAssume(zzAnd(max >= 4*time.Second, max <= 1800*time.Second))
	names := []string{"a.example", "b.example", "c.example"}
	n := zzNondetChoice("nnames", 4)
	dup := false
	for i := 0; i < n; i++ {
		k := zzNondetChoice("name"+string(rune('0'+i)), 3)
		for _, prev := range rd.DomainNames {
			if prev == names[k] {
				dup = true
			}
		}
		rd.DomainNames = append(rd.DomainNames, names[k])
	}
	out, err := parseDNSSL(rd, max)
	okL, lt := zzDurDecode(kl, 3*max)
	vl := zzNonNegLife(okL, lt)
	zzKnownClass("negative-lifetime", zzAnd(okL, lt < 0))
	bad := n == 0 || dup
	all := zzVerdict{mustAccept: zzAnd(vl.mustAccept, !bad), mustReject: zzOr(vl.mustReject, bad)}
	zzCheckVerdict(all, err, "dnssl")
	if err != nil {
		return
	}
	zzAssert(out.Lifetime == lt, "lifetime-value-or-default-3x-max")
	zzAssert(len(out.DomainNames) == n, "names-copied")
}

// H02pref64: accepted iff an IPv6 (not 4in6) prefix of a NAT64 length; default 64:ff9b::/96.
func zzH02pref64() {
	var raw rawInterface
	raw.Advertise = true
	var rp rawPREF64
	which := zzNondetChoice("prefix.set", 3)
	kind, p := zzPEmpty, netip.Prefix{}
	if which == 1 {
		e := ""
		rp.Prefix = &e
	} else if which == 2 {
		var s string
		s, kind, p = zzPrefixKey("prefix")
		zzAssume(kind != zzPEmpty)
		rp.Prefix = &s
	}
	raw.PREF64 = []rawPREF64{rp}
	f := false
	raw.SourceLLA = &f
	ifi, err := parseInterface("eth0", raw, time.Time{})
	want := netip.MustParsePrefix("64:ff9b::/96")
	v := zzVerdict{true, false}
	switch kind {
	case zzPBad, zzPv4:
		v = zzVerdict{false, true}
	case zzPv6:
		b := p.Bits()
		okLen := zzOr(zzOr(b == 96, b == 64), zzOr(zzOr(b == 56, b == 48), zzOr(b == 40, b == 32)))
		hi, lo := zzHiLo(p.Addr())
		is4in6 := zzAnd(hi == 0, lo>>32 == 0xffff)
		// host bits set: not covered by the statement (don't-care)
		v = zzVerdict{mustAccept: zzAnd(okLen, zzCanonical6(p)), mustReject: zzOr(zzNot(okLen), is4in6)}
		want = p
	}
	zzCheckVerdict(v, err, "pref64")
	if err != nil {
		return
	}
	zzAssert(len(ifi.Plugins) == 1, "one-plugin")
	if len(ifi.Plugins) == 1 {
		pp, ok := ifi.Plugins[0].(*plugin.PREF64)
		zzAssert(ok, "pref64-plugin")
		if ok {
			zzAssert(pp.Inner.Prefix == want, "prefix-value-or-default-64:ff9b::/96")
		}
	}
}
