package plugin

import (
	"encoding/binary"
	"net/netip"

	"github.com/mdlayher/corerad/internal/system"
	"github.com/mdlayher/ndp"
)

// zzNondetRoute: a kernel route: a valid, masked prefix of either family.
func zzNondetRoute(name string) system.Route {
	var a netip.Addr
	max := 128
	if zzNondetChoice(name+".fam", 2) == 0 {
		a = zzNondetAddr6(name)
		zzAssume(zzNot(a.Is4In6()))
	} else {
		a = zzNondetAddr4(name)
		max = 32
	}
	bits := zzNondetInt(name + ".bits")
	zzAssume(zzAnd(bits >= 0, bits <= max))
	p := netip.PrefixFrom(a, bits)
	zzAssume(p == p.Masked()) // documented shape of a route dump
	// the dump also carries the interface index and the kernel preference,
	// which the expansion must ignore (the same prefix can sit on two
	// loopback interfaces)
	return system.Route{Prefix: p, Index: 1 + int(zzNondetUint8(name+".index")&1), Preference: ndp.Preference(zzNondetUint8(name+".pref") & 3)}
}

func zzHiLo(a netip.Addr) (uint64, uint64) {
	b := a.As16()
	return binary.BigEndian.Uint64(b[:8]), binary.BigEndian.Uint64(b[8:])
}

// zzCovers: s covers r (both IPv6): len(s) <= len(r) and equal under s's mask.
func zzCovers(s, r netip.Prefix) bool {
	shi, slo := zzHiLo(s.Addr())
	rhi, rlo := zzHiLo(r.Addr())
	sb := s.Bits()
	all := ^uint64(0)
	// Go shifts by >= 64 yield 0, which is exactly the mask wanted
	mhi := zzIte(sb >= 64, all, all<<uint(64-sb))
	mlo := zzIte(sb > 64, all<<uint(128-sb), uint64(0))
	return zzAnd(sb <= r.Bits(), zzAnd(shi&mhi == rhi&mhi, slo&mlo == rlo&mlo))
}

// H15: ::/0 wildcard expansion over an arbitrary loopback route list.
func zzH15() {
	n := zzParam("n")
	routes := make([]system.Route, n)
	for i := range routes {
		routes[i] = zzNondetRoute("r" + string(rune('0'+i)))
	}
	fail := zzNondetChoice("routes.fail", 2) == 1
	pref := ndp.Preference(zzNondetChoice("pref", 3)) // medium, high, (2 reserved), low=3
	lifetime := zzNondetDuration("lifetime")
	r := &Route{
		Auto:       true,
		Prefix:     netip.MustParsePrefix("::/0"),
		Preference: pref,
		Lifetime:   lifetime,
		Routes: func() ([]system.Route, error) {
			if fail {
				return nil, zzErrEnv
			}
			return routes, nil
		},
	}
	ra := &ndp.RouterAdvertisement{}
	err := r.Apply(ra)
	if fail {
		zzAssert(err != nil, "listing-failure-fails-generation")
		zzAssert(len(ra.Options) == 0, "listing-failure-adds-nothing")
		return
	}
	zzAssert(err == nil, "no-error")
	if err != nil {
		return
	}
	// wanted(i): IPv6, not /128, and not contained in a different, shorter route
	want := make([]bool, n)
	for i, rt := range routes {
		covered := false
		for j, s := range routes {
			if i == j {
				continue
			}
			covered = zzOr(covered, zzAnd(s.Prefix.Addr().Is6(), zzAnd(s.Prefix.Bits() < rt.Prefix.Bits(), zzCovers(s.Prefix, rt.Prefix))))
		}
		want[i] = zzAnd(rt.Prefix.Addr().Is6(), zzAnd(rt.Prefix.Bits() != 128, zzNot(covered)))
	}
	dupClass := false
	nestClass := false
	for i := range routes {
		for j := range routes {
			if i < j {
				same := routes[i].Prefix == routes[j].Prefix
				dupClass = zzOr(dupClass, zzAnd(same, routes[i].Prefix.Addr().Is6()))
				nestClass = zzOr(nestClass, zzAnd(zzAnd(zzNot(same), routes[i].Prefix.Addr() == routes[j].Prefix.Addr()), routes[i].Prefix.Addr().Is6()))
			}
		}
	}
	zzKnownClass("route-listed-twice", dupClass)
	zzKnownClass("nested-routes-same-base-address", nestClass)

	var prev netip.Addr
	var prevBits int
	for k, o := range ra.Options {
		ri, ok := o.(*ndp.RouteInformation)
		zzAssert(ok, "only-route-options")
		if !ok {
			return
		}
		zzAssert(zzAnd(ri.Preference == pref, ri.RouteLifetime == lifetime), "stanza-settings")
		sound := false
		for i, rt := range routes {
			sound = zzOr(sound, zzAnd(want[i], zzAnd(ri.Prefix == rt.Prefix.Addr(), int(ri.PrefixLength) == rt.Prefix.Bits())))
		}
		zzAssert(sound, "sound")
		if k > 0 {
			// ascending by address; equal addresses cannot both be maximal
			zzAssert(zzLess(prev, ri.Prefix), "strictly-ascending")
		}
		prev, prevBits = ri.Prefix, int(ri.PrefixLength)
	}
	_ = prevBits
	for i, rt := range routes {
		found := false
		for _, o := range ra.Options {
			if ri, ok := o.(*ndp.RouteInformation); ok {
				found = zzOr(found, zzAnd(ri.Prefix == rt.Prefix.Addr(), int(ri.PrefixLength) == rt.Prefix.Bits()))
			}
		}
		zzAssert(zzImplies(want[i], found), "complete")
	}
}
