package plugin

import (
	"github.com/mdlayher/corerad/internal/system"
	"github.com/mdlayher/ndp"
	"net/netip"
)

// H15: ::/0 wildcard expansion over an arbitrary loopback route list.
func zzH15() {
	n := zzParam("n")
	routes := make([]system.Route, n)
	for i := range routes {
		routes[i] = zzNondetRoute("r" + string(rune('0'+i)))
	}
	fail := zzNondetChoice("routes.fail", 2) == 1
	pref := ndp.Preference(zzNondetChoice("pref", 3)) // medium, high, (2 reserved), low=3
	lifetime := zzNondetDuration("lifetime")
	r := &Route{
		Auto:       true,
		Prefix:     netip.MustParsePrefix("::/0"),
		Preference: pref,
		Lifetime:   lifetime,
		Routes: func() ([]system.Route, error) {
			if fail {
				return nil, zzErrEnv
			}
			return routes, nil
		},
	}
	ra := &ndp.RouterAdvertisement{}
	err := r.Apply(ra)
	if fail {
		zzAssert(err != nil, "listing-failure-fails-generation")
		zzAssert(len(ra.Options) == 0, "listing-failure-adds-nothing")
		return
	}
	zzAssert(err == nil, "no-error")
	if err != nil {
		return
	}
	// wanted(i): IPv6, not /128, and not contained in a different, shorter route
	want := make([]bool, n)
	for i, rt := range routes {
		covered := false
		for j, s := range routes {
			if i == j {
				continue
			}
			covered = zzOr(covered, zzAnd(s.Prefix.Addr().Is6(), zzAnd(s.Prefix.Bits() < rt.Prefix.Bits(), zzCovers(s.Prefix, rt.Prefix))))
		}
		want[i] = zzAnd(rt.Prefix.Addr().Is6(), zzAnd(rt.Prefix.Bits() != 128, zzNot(covered)))
	}
	dupClass := false
	nestClass := false
	for i := range routes {
		for j := range routes {
			if i < j {
				same := routes[i].Prefix == routes[j].Prefix
				dupClass = zzOr(dupClass, zzAnd(same, routes[i].Prefix.Addr().Is6()))
				nestClass = zzOr(nestClass, zzAnd(zzAnd(zzNot(same), routes[i].Prefix.Addr() == routes[j].Prefix.Addr()), routes[i].Prefix.Addr().Is6()))
			}
		}
	}
	zzKnownClass("route-listed-twice", dupClass)
	zzKnownClass("nested-routes-same-base-address", nestClass)

	var prev netip.Addr
	var prevBits int
	for k, o := range ra.Options {
		ri, ok := o.(*ndp.RouteInformation)
		zzAssert(ok, "only-route-options")
		if !ok {
			return
		}
		zzAssert(zzAnd(ri.Preference == pref, ri.RouteLifetime == lifetime), "stanza-settings")
		sound := false
		for i, rt := range routes {
			sound = zzOr(sound, zzAnd(want[i], zzAnd(ri.Prefix == rt.Prefix.Addr(), int(ri.PrefixLength) == rt.Prefix.Bits())))
		}
		zzAssert(sound, "sound")
		if k > 0 {
			// ascending by address; equal addresses cannot both be maximal
			zzAssert(zzLess(prev, ri.Prefix), "strictly-ascending")
		}
		prev, prevBits = ri.Prefix, int(ri.PrefixLength)
	}
	_ = prevBits
	for i, rt := range routes {
		found := false
		for _, o := range ra.Options {
			if ri, ok := o.(*ndp.RouteInformation); ok {
				found = zzOr(found, zzAnd(ri.Prefix == rt.Prefix.Addr(), int(ri.PrefixLength) == rt.Prefix.Bits()))
			}
		}
		zzAssert(zzImplies(want[i], found), "complete")
	}
}
