package plugin

import (
	"net/netip"
	"time"

	"github.com/mdlayher/corerad/internal/system"
	"github.com/mdlayher/ndp"
)

// H13: ::/64 wildcard expansion over an arbitrary address list of length n.
func zzH13() {
	n := zzParam("n")
	addrs := make([]system.IP, n)
	for i := range addrs {
		addrs[i] = zzNondetIP("a" + string(rune('0'+i)))
	}
	fail := zzNondetChoice("addrs.fail", 2) == 1
	p := &Prefix{
		Auto:              true,
		Prefix:            netip.MustParsePrefix("::/64"),
		OnLink:            zzNondetBool("onlink"),
		Autonomous:        zzNondetBool("autonomous"),
		ValidLifetime:     zzNondetDuration("valid"),
		PreferredLifetime: zzNondetDuration("preferred"),
		Addrs: func() ([]system.IP, error) {
			if fail {
				return nil, zzErrEnv
			}
			return addrs, nil
		},
	}
	ra := &ndp.RouterAdvertisement{}
	err := p.Apply(ra)
	if fail {
		zzAssert(err != nil, "listing-failure-fails-generation")
		zzAssert(len(ra.Options) == 0, "listing-failure-adds-nothing")
		return
	}
	zzAssert(err == nil, "no-error")
	if err != nil {
		return
	}

	elig := make([]bool, n)
	for i, a := range addrs {
		ip := a.Address.Addr()
		elig[i] = zzAnd(zzAnd(ip.Is6(), zzNot(zzIsLinkLocal6(ip))),
			zzAnd(a.Address.Bits() == 64, zzAnd(zzNot(a.Temporary), zzNot(a.Tentative))))
	}

	var prev netip.Addr
	for k, o := range ra.Options {
		pi, ok := o.(*ndp.PrefixInformation)
		zzAssert(ok, "only-prefix-options")
		if !ok {
			return
		}
		// stanza settings on every expanded prefix
		zzAssert(pi.PrefixLength == 64, "length-64")
		zzAssert(zzAnd(pi.OnLink == p.OnLink, pi.AutonomousAddressConfiguration == p.Autonomous), "flags")
		zzAssert(zzAnd(pi.ValidLifetime == p.ValidLifetime, pi.PreferredLifetime == p.PreferredLifetime), "lifetimes")
		// soundness: it is the /64 network of some eligible address
		sound := false
		for i, a := range addrs {
			sound = zzOr(sound, zzAnd(elig[i], pi.Prefix == zzNet64(a.Address.Addr())))
		}
		zzAssert(sound, "sound")
		// strictly ascending, hence no duplicates
		if k > 0 {
			zzAssert(zzLess(prev, pi.Prefix), "strictly-ascending")
		}
		prev = pi.Prefix
	}
	// completeness: every eligible address's network is advertised
	for i, a := range addrs {
		found := false
		for _, o := range ra.Options {
			if pi, ok := o.(*ndp.PrefixInformation); ok {
				found = zzOr(found, pi.Prefix == zzNet64(a.Address.Addr()))
			}
		}
		zzAssert(zzImplies(elig[i], found), "complete")
	}
	_ = time.Second
}
