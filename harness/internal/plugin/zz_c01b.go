package plugin

import (
	"net/netip"
	"time"
)

// H01b: PREF64 lifetime = 3 x MaxRtrAdvInterval rounded up to a multiple of
// 8 s, capped at 65528 s, for every max_interval the configuration accepts.
func zzH01b() {
	max := zzNondetDuration("max_interval")
	zzAssume(zzAnd(max >= 4*time.Second, max <= 1800*time.Second))
	p := NewPREF64(netip.MustParsePrefix("64:ff9b::/96"), max)
	lt := p.Inner.Lifetime
	unit := 8 * time.Second
	want := (3*max + unit - 1) / unit * unit
	if want > 65528*time.Second {
		want = 65528 * time.Second
	}
	zzKnownClass("fractional-max-interval", max%time.Second != 0)
	zzAssert(lt%unit == 0, "multiple-of-8s")
	zzAssert(lt <= 65528*time.Second, "cap")
	zzAssert(lt >= 3*max, "at-least-3x-max")
	zzAssert(lt == want, "exact")
}
