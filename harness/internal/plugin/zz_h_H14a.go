package plugin

import (
	"github.com/mdlayher/corerad/internal/system"
	"github.com/mdlayher/ndp"
)

// H14a: the :: wildcard picks the best eligible address of an arbitrary list.
func zzH14a() {
	n := zzParam("n")
	addrs := make([]system.IP, n)
	for i := range addrs {
		addrs[i] = zzNondetIP("a" + string(rune('0'+i)))
	}
	fail := zzNondetChoice("addrs.fail", 2) == 1
	lifetime := zzNondetDuration("lifetime")
	r := &RDNSS{
		Auto:     true,
		Lifetime: lifetime,
		Addrs: func() ([]system.IP, error) {
			if fail {
				return nil, zzErrEnv
			}
			return addrs, nil
		},
	}
	ra := &ndp.RouterAdvertisement{}
	err := r.Apply(ra)
	if fail {
		zzAssert(err != nil, "listing-failure-fails-generation")
		zzAssert(len(ra.Options) == 0, "listing-failure-adds-nothing")
		return
	}
	elig := make([]bool, n)
	any := false
	for i, a := range addrs {
		elig[i] = zzAnd(zzAnd(a.Address.Addr().Is6(), zzNot(a.Deprecated)), zzAnd(zzNot(a.Temporary), zzNot(a.Tentative)))
		any = zzOr(any, elig[i])
	}
	if err != nil {
		zzAssert(zzNot(any), "error-only-when-nothing-eligible")
		zzAssert(len(ra.Options) == 0, "error-adds-nothing")
		return
	}
	zzAssert(any, "no-server-without-eligible-address")
	zzAssert(len(ra.Options) == 1, "one-option")
	if len(ra.Options) != 1 {
		return
	}
	o, ok := ra.Options[0].(*ndp.RecursiveDNSServer)
	zzAssert(ok, "rdnss-option")
	if !ok {
		return
	}
	zzAssert(o.Lifetime == lifetime, "lifetime")
	zzAssert(len(o.Servers) == 1, "one-server")
	if len(o.Servers) != 1 {
		return
	}
	got := o.Servers[0]
	// the result is an eligible input ...
	isInput := false
	for i, a := range addrs {
		isInput = zzOr(isInput, zzAnd(elig[i], got == a.Address.Addr()))
	}
	zzAssert(isInput, "result-is-eligible-input")
	// ... and minimal under the documented ranking: for every eligible x some
	// eligible input with the chosen address ranks at least as good
	for i, x := range addrs {
		better := false
		for j, a := range addrs {
			better = zzOr(better, zzAnd(zzAnd(elig[j], got == a.Address.Addr()), zzKeyLE(a, x)))
		}
		zzAssert(zzImplies(elig[i], better), "result-is-best")
	}
}
