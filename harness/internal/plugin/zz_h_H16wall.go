package plugin

func zzH16wall() {
	zzH16body()
}
