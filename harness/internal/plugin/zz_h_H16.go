package plugin

// H16 (wall-clock readings): deprecated prefix / route lifetimes at three
// non-decreasing clock readings, possibly before the epoch.
func zzH16() {
	zzH16body()
}
