package plugin

import (
	"github.com/mdlayher/ndp"
	"net/netip"
	"time"
)

// zzRemaining: time remaining until epoch+life at instant now, clamped at 0.
// Wall-clock readings: computed on Unix nanoseconds in plain integer
// arithmetic. Monotonic readings (what time.Now returns): life minus the
// monotonic time elapsed since the epoch.
func zzRemaining(epoch time.Time, life time.Duration, now time.Time) time.Duration {
	var rem int64
	if zzParam("mono") == 1 {
		rem = int64(life) - int64(now.Sub(epoch))
	} else {
		e := epoch.Unix()*1000000000 + int64(epoch.Nanosecond())
		n := now.Unix()*1000000000 + int64(now.Nanosecond())
		rem = e + int64(life) - n
	}
	return time.Duration(zzIte(rem > 0, rem, 0))
}

func zzH16body() {
	mono := zzParam("mono") == 1
	epoch := zzNondetInstant("epoch", mono)
	valid := zzNondetDuration("valid")
	pref := zzNondetDuration("preferred")
	rlife := zzNondetDuration("route")
	// what the parser accepts for a deprecated stanza: finite, positive, preferred <= valid;
	// representable (C03): at most 2^32-1 s
	maxLife := time.Duration(4294967295) * time.Second
	zzAssume(zzAnd(zzAnd(pref > 0, pref <= valid), valid < maxLife))
	zzAssume(zzAnd(rlife > 0, rlife < maxLife))
	deprecated := zzNondetBool("deprecated")

	// the clock may advance between two readings taken while one RA is built:
	// every reading handed out is recorded
	var now time.Time
	var readings []time.Time
	moving := zzParam("moving") == 1
	clock := func() time.Time {
		if moving && len(readings) > 0 {
			t := zzNondetInstant("reread", mono)
			zzAssume(zzNot(t.Before(now)))
			now = t
		}
		readings = append(readings, now)
		return now
	}
	p := &Prefix{
		Prefix: netip.MustParsePrefix("2001:db8::/64"), ValidLifetime: valid, PreferredLifetime: pref,
		Epoch: epoch, Deprecated: deprecated, TimeNow: clock,
	}
	r := &Route{
		Prefix: netip.MustParsePrefix("2001:db8::/48"), Lifetime: rlife,
		Epoch: epoch, Deprecated: deprecated, TimeNow: clock,
	}
	var lastV, lastP, lastR time.Duration
	for k := 0; k < 3; k++ {
		t := zzNondetInstant("now", mono)
		if k > 0 {
			zzAssume(zzNot(t.Before(now)))
		}
		if !mono {
			// wall-clock-only readings (which time.Now never returns): at most a
			// century before the daemon's start. Further back, epoch+lifetime-now
			// exceeds the range of time.Duration and Time.Sub saturates.
			zzAssume(t.Unix() >= epoch.Unix()-3153600000)
		}
		now = t
		readings = nil
		ra := &ndp.RouterAdvertisement{}
		zzAssert(p.Apply(ra) == nil, "prefix-apply-ok")
		zzAssert(r.Apply(ra) == nil, "route-apply-ok")
		if len(ra.Options) != 2 {
			zzAssert(false, "two-options")
			return
		}
		pi := ra.Options[0].(*ndp.PrefixInformation)
		ri := ra.Options[1].(*ndp.RouteInformation)
		if !deprecated {
			zzAssert(zzAnd(pi.ValidLifetime == valid, pi.PreferredLifetime == pref), "constant-prefix-lifetimes")
			zzAssert(ri.RouteLifetime == rlife, "constant-route-lifetime")
			continue
		}
		// the prefix option describes one instant: some reading taken while it
		// was built explains both of its lifetimes (likewise the route)
		okP, okR := false, false
		for _, rd := range readings {
			okP = zzOr(okP, zzAnd(pi.ValidLifetime == zzRemaining(epoch, valid, rd), pi.PreferredLifetime == zzRemaining(epoch, pref, rd)))
			okR = zzOr(okR, ri.RouteLifetime == zzRemaining(epoch, rlife, rd))
		}
		zzAssert(okP, "prefix-lifetimes-are-time-remaining-at-one-instant")
		zzAssert(okR, "route-lifetime-is-time-remaining")
		zzAssert(zzAnd(pi.PreferredLifetime >= 0, pi.PreferredLifetime <= pi.ValidLifetime), "preferred-within-valid")
		zzAssert(ri.RouteLifetime >= 0, "route-non-negative")
		if k > 0 {
			zzAssert(zzAnd(pi.ValidLifetime <= lastV, pi.PreferredLifetime <= lastP), "prefix-never-increases")
			zzAssert(ri.RouteLifetime <= lastR, "route-never-increases")
		}
		lastV, lastP, lastR = pi.ValidLifetime, pi.PreferredLifetime, ri.RouteLifetime
	}
}
