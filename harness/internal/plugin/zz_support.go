package plugin

import (
	"errors"
	"net/netip"

	"github.com/mdlayher/corerad/internal/system"
)

var zzErrEnv = errors.New("zz: environment failure")

// zzNondetIP: an arbitrary interface address as the operating system may list
// it: either family, any prefix length, any flag combination. 4in6 addresses
// are excluded (the rtnetlink addresser cannot produce them).
func zzNondetIP(name string) system.IP {
	var a netip.Addr
	max := 128
	if zzNondetChoice(name+".fam", 2) == 0 {
		a = zzNondetAddr6(name)
		zzAssume(zzNot(a.Is4In6()))
	} else {
		a = zzNondetAddr4(name)
		max = 32
	}
	bits := zzNondetInt(name + ".bits")
	zzAssume(zzAnd(bits >= 0, bits <= max))
	return system.IP{
		Address:                  netip.PrefixFrom(a, bits),
		Deprecated:               zzNondetBool(name + ".deprecated"),
		ManageTemporaryAddresses: zzNondetBool(name + ".mngtmp"),
		StablePrivacy:            zzNondetBool(name + ".stablepriv"),
		Temporary:                zzNondetBool(name + ".temporary"),
		Tentative:                zzNondetBool(name + ".tentative"),
		ValidForever:             zzNondetBool(name + ".forever"),
	}
}

// zzIsLinkLocal6: fe80::/10, from the bit pattern.
func zzIsLinkLocal6(a netip.Addr) bool {
	b := a.As16()
	return zzAnd(b[0] == 0xfe, b[1]&0xc0 == 0x80)
}

// zzNet64: the /64 network of an IPv6 address, built from its bytes.
func zzNet64(a netip.Addr) netip.Addr {
	b := a.As16()
	for i := 8; i < 16; i++ {
		b[i] = 0
	}
	return netip.AddrFrom16(b)
}

// zzLess: a < b as 128-bit big-endian numbers (both IPv6).
func zzLess(a, b netip.Addr) bool {
	x, y := a.As16(), b.As16()
	less := false
	for i := 15; i >= 0; i-- {
		less = zzOr(x[i] < y[i], zzAnd(x[i] == y[i], less))
	}
	return less
}

func zzNumAddrs() int { return zzParam("n") }

// system.NewAddresser talks to rtnetlink: an environment stub with no
// addresses and no routes (Prepare only stores the functions).
type zzAddresser struct{}

func (zzAddresser) AddressesByIndex(int) ([]system.IP, error) { return nil, nil }
func (zzAddresser) LoopbackRoutes() ([]system.Route, error)   { return nil, nil }

func zzStub_system_NewAddresser() system.Addresser { return zzAddresser{} }
