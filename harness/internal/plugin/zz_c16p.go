package plugin

import (
	"net"
	"net/netip"
	"time"

	"github.com/mdlayher/ndp"
)

// H16prep: Plugin.Prepare, which runs every time an interface is
// (re)initialised, only installs the runtime hooks (clock, address and route
// sources, hardware address): every configuration field -- in particular the
// epoch a deprecated prefix or route counts down from -- is left as the
// parser set it, however often and whenever Prepare runs. (C16: the deadline
// is daemon start + lifetime, not interface start; C01: building/initialising
// never alters the configuration.)
func zzH16prep() {
	epoch := zzNondetInstant("epoch", true)
	dep := zzNondetBool("deprecated")
	auto := zzNondetBool("auto")
	valid, pref, life := zzNondetDuration("valid"), zzNondetDuration("preferred"), zzNondetDuration("lifetime")
	ifi := &net.Interface{Index: 3, Name: "eth0", HardwareAddr: net.HardwareAddr{2, 0, 0, 0, 0, 1}}
	rounds := 1 + zzNondetChoice("re-initialisations", 2)

	p := &Prefix{Auto: auto, Prefix: netip.MustParsePrefix("2001:db8::/64"), OnLink: zzNondetBool("onlink"), Autonomous: zzNondetBool("autonomous"),
		ValidLifetime: valid, PreferredLifetime: pref, Epoch: epoch, Deprecated: dep}
	p0 := *p
	r := &Route{Auto: auto, Prefix: netip.MustParsePrefix("2001:db8:ffff::/48"), Preference: ndp.High, Lifetime: life, Epoch: epoch, Deprecated: dep}
	r0 := *r
	d := &RDNSS{Auto: auto, Lifetime: life, Servers: []netip.Addr{netip.MustParseAddr("2001:db8::53")}}
	d0 := *d
	l := &LLA{}
	for i := 0; i < rounds; i++ {
		zzAssert(p.Prepare(ifi) == nil && r.Prepare(ifi) == nil && d.Prepare(ifi) == nil && l.Prepare(ifi) == nil, "prepare-succeeds")
	}
	zzAssert(zzAnd(p.Epoch == p0.Epoch, p.Deprecated == p0.Deprecated), "prefix-epoch-and-deprecation-unchanged")
	zzAssert(zzAnd(zzAnd(p.ValidLifetime == p0.ValidLifetime, p.PreferredLifetime == p0.PreferredLifetime),
		zzAnd(zzAnd(p.OnLink == p0.OnLink, p.Autonomous == p0.Autonomous), zzAnd(p.Auto == p0.Auto, p.Prefix == p0.Prefix))), "prefix-configuration-unchanged")
	zzAssert(zzAnd(r.Epoch == r0.Epoch, r.Deprecated == r0.Deprecated), "route-epoch-and-deprecation-unchanged")
	zzAssert(zzAnd(zzAnd(r.Lifetime == r0.Lifetime, r.Preference == r0.Preference), zzAnd(r.Auto == r0.Auto, r.Prefix == r0.Prefix)), "route-configuration-unchanged")
	zzAssert(zzAnd(zzAnd(d.Lifetime == d0.Lifetime, d.Auto == d0.Auto), len(d.Servers) == 1 && d.Servers[0] == d0.Servers[0]), "rdnss-configuration-unchanged")
	zzAssert(p.TimeNow != nil && p.Addrs != nil && r.TimeNow != nil && r.Routes != nil && d.Addrs != nil, "runtime-hooks-installed")
	zzAssert(len(l.Addr) == 6 && l.Addr[5] == 1, "lla-takes-the-interface-hardware-address")
	// the plugins without runtime state
	m := NewMTU(1500)
	zzAssert(m.Prepare(ifi) == nil && int(*m) == 1500, "mtu-unchanged")
	s := &DNSSL{Lifetime: life, DomainNames: []string{"example.com"}}
	zzAssert(s.Prepare(ifi) == nil && s.Lifetime == life && len(s.DomainNames) == 1, "dnssl-unchanged")
	_ = time.Second
}
