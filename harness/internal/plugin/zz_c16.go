package plugin

import (
	"net/netip"
	"time"

	"github.com/mdlayher/ndp"
)

// zzRemaining: time remaining until epoch+life at instant now, clamped at 0.
// Wall-clock readings: computed on Unix nanoseconds in plain integer
// arithmetic. Monotonic readings (what time.Now returns): life minus the
// monotonic time elapsed since the epoch.
func zzRemaining(epoch time.Time, life time.Duration, now time.Time) time.Duration {
	var rem int64
	if zzParam("mono") == 1 {
		rem = int64(life) - int64(now.Sub(epoch))
	} else {
		e := epoch.Unix()*1000000000 + int64(epoch.Nanosecond())
		n := now.Unix()*1000000000 + int64(now.Nanosecond())
		rem = e + int64(life) - n
	}
	return time.Duration(zzIte(rem > 0, rem, 0))
}

// H16 (wall-clock readings): deprecated prefix / route lifetimes at three
// non-decreasing clock readings, possibly before the epoch.
func zzH16() {
	zzH16body()
}

func zzH16wall() {
	zzH16body()
}

func zzH16body() {
	mono := zzParam("mono") == 1
	epoch := zzNondetInstant("epoch", mono)
	valid := zzNondetDuration("valid")
	pref := zzNondetDuration("preferred")
	rlife := zzNondetDuration("route")
	// what the parser accepts for a deprecated stanza: finite, positive, preferred <= valid;
	// representable (C03): at most 2^32-1 s
	maxLife := time.Duration(4294967295) * time.Second
	zzAssume(zzAnd(zzAnd(pref > 0, pref <= valid), valid < maxLife))
	zzAssume(zzAnd(rlife > 0, rlife < maxLife))
	deprecated := zzNondetBool("deprecated")

	var now time.Time
	p := &Prefix{
		Prefix: netip.MustParsePrefix("2001:db8::/64"), ValidLifetime: valid, PreferredLifetime: pref,
		Epoch: epoch, Deprecated: deprecated, TimeNow: func() time.Time { return now },
	}
	r := &Route{
		Prefix: netip.MustParsePrefix("2001:db8::/48"), Lifetime: rlife,
		Epoch: epoch, Deprecated: deprecated, TimeNow: func() time.Time { return now },
	}
	var lastV, lastP, lastR time.Duration
	for k := 0; k < 3; k++ {
		t := zzNondetInstant("now", mono)
		if k > 0 {
			zzAssume(zzNot(t.Before(now)))
		}
		now = t
		ra := &ndp.RouterAdvertisement{}
		zzAssert(p.Apply(ra) == nil, "prefix-apply-ok")
		zzAssert(r.Apply(ra) == nil, "route-apply-ok")
		if len(ra.Options) != 2 {
			zzAssert(false, "two-options")
			return
		}
		pi := ra.Options[0].(*ndp.PrefixInformation)
		ri := ra.Options[1].(*ndp.RouteInformation)
		if !deprecated {
			zzAssert(zzAnd(pi.ValidLifetime == valid, pi.PreferredLifetime == pref), "constant-prefix-lifetimes")
			zzAssert(ri.RouteLifetime == rlife, "constant-route-lifetime")
			continue
		}
		zzAssert(pi.ValidLifetime == zzRemaining(epoch, valid, now), "valid-is-time-remaining")
		zzAssert(pi.PreferredLifetime == zzRemaining(epoch, pref, now), "preferred-is-time-remaining")
		zzAssert(ri.RouteLifetime == zzRemaining(epoch, rlife, now), "route-is-time-remaining")
		zzAssert(zzAnd(pi.PreferredLifetime >= 0, pi.PreferredLifetime <= pi.ValidLifetime), "preferred-within-valid")
		zzAssert(ri.RouteLifetime >= 0, "route-non-negative")
		if k > 0 {
			zzAssert(zzAnd(pi.ValidLifetime <= lastV, pi.PreferredLifetime <= lastP), "prefix-never-increases")
			zzAssert(ri.RouteLifetime <= lastR, "route-never-increases")
		}
		lastV, lastP, lastR = pi.ValidLifetime, pi.PreferredLifetime, ri.RouteLifetime
	}
}
