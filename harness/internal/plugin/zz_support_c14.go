package plugin

import (
	"github.com/mdlayher/corerad/internal/system"
	"net/netip"
)

// reference ranking (DESIGN A.4), written from bit patterns
func zzStable(ip system.IP) bool {
	b := ip.Address.Addr().As16()
	return zzOr(zzOr(ip.ValidForever, ip.ManageTemporaryAddresses),
		zzOr(ip.StablePrivacy, zzAnd(b[11] == 0xff, b[12] == 0xfe)))
}

// class: 0 = fc00::/7, 2 = fe80::/10, 1 = other global unicast, 3 = rest
func zzClass(a netip.Addr) int {
	b := a.As16()
	ula := b[0]&0xfe == 0xfc
	ll := zzAnd(b[0] == 0xfe, b[1]&0xc0 == 0x80)
	mc := b[0] == 0xff
	zeroHi := true
	for i := 0; i < 15; i++ {
		zeroHi = zzAnd(zeroHi, b[i] == 0)
	}
	unspecOrLoop := zzAnd(zeroHi, b[15] <= 1)
	gua := zzAnd(zzNot(ula), zzAnd(zzNot(ll), zzAnd(zzNot(mc), zzNot(unspecOrLoop))))
	return zzIte(ula, 0, zzIte(ll, 2, zzIte(gua, 1, 3)))
}

// zzKeyLE: key(x) <= key(y) lexicographically, key = (!stable, class, address)
func zzKeyLE(x, y system.IP) bool {
	sx, sy := zzStable(x), zzStable(y)
	cx, cy := zzClass(x.Address.Addr()), zzClass(y.Address.Addr())
	ax, ay := x.Address.Addr(), y.Address.Addr()
	sameStab := sx == sy
	return zzOr(zzAnd(sx, zzNot(sy)),
		zzAnd(sameStab, zzOr(cx < cy, zzAnd(cx == cy, zzNot(zzLess(ay, ax))))))
}
