package plugin

import (
	"encoding/binary"
	"github.com/mdlayher/corerad/internal/system"
	"github.com/mdlayher/ndp"
	"net/netip"
)

// zzNondetRoute: a kernel route: a valid, masked prefix of either family.
func zzNondetRoute(name string) system.Route {
	var a netip.Addr
	max := 128
	if zzNondetChoice(name+".fam", 2) == 0 {
		a = zzNondetAddr6(name)
		zzAssume(zzNot(a.Is4In6()))
	} else {
		a = zzNondetAddr4(name)
		max = 32
	}
	bits := zzNondetInt(name + ".bits")
	zzAssume(zzAnd(bits >= 0, bits <= max))
	p := netip.PrefixFrom(a, bits)
	zzAssume(p == p.Masked()) // documented shape of a route dump
	// the dump also carries the interface index and the kernel preference,
	// which the expansion must ignore (the same prefix can sit on two
	// loopback interfaces)
	return system.Route{Prefix: p, Index: 1 + int(zzNondetUint8(name+".index")&1), Preference: ndp.Preference(zzNondetUint8(name+".pref") & 3)}
}

func zzHiLo(a netip.Addr) (uint64, uint64) {
	b := a.As16()
	return binary.BigEndian.Uint64(b[:8]), binary.BigEndian.Uint64(b[8:])
}

// zzCovers: s covers r (both IPv6): len(s) <= len(r) and equal under s's mask.
func zzCovers(s, r netip.Prefix) bool {
	shi, slo := zzHiLo(s.Addr())
	rhi, rlo := zzHiLo(r.Addr())
	sb := s.Bits()
	all := ^uint64(0)
	// Go shifts by >= 64 yield 0, which is exactly the mask wanted
	mhi := zzIte(sb >= 64, all, all<<uint(64-sb))
	mlo := zzIte(sb > 64, all<<uint(128-sb), uint64(0))
	return zzAnd(sb <= r.Bits(), zzAnd(shi&mhi == rhi&mhi, slo&mlo == rlo&mlo))
}
