package system

import (
	"errors"
	"net"
	"net/netip"
	"os"

	"github.com/jsimonetti/rtnetlink"
	"github.com/mdlayher/ndp"
	"github.com/mdlayher/netlink"
)

// ---- H13b / H14 / H15b: where addresses and routes come from ----

// H13b: every address message of the kernel becomes one system.IP with the
// flag mapping of linux/if_addr.h (numeric values written here, not taken
// from x/sys).
func zzH13b() {
	n := zzParam("messages")
	var msgs []rtnetlink.Message
	type in struct {
		flags  uint32
		plen   uint8
		valid  uint32
		addr   netip.Addr
	}
	ins := make([]in, n)
	for i := range ins {
		name := "m" + string(rune('0'+i))
		a := zzNondetAddr6(name)
		zzAssume(zzNot(a.Is4In6()))
		ins[i] = in{flags: zzNondetUint32(name + ".flags"), plen: zzNondetUint8(name + ".prefixlen"), valid: zzNondetUint32(name + ".valid"), addr: a}
		zzAssume(ins[i].plen <= 128)
		b := a.As16()
		msgs = append(msgs, &rtnetlink.AddressMessage{
			Family: 10, PrefixLength: ins[i].plen, Index: 7,
			Attributes: &rtnetlink.AddressAttributes{Address: net.IP(b[:]), Flags: ins[i].flags, CacheInfo: rtnetlink.CacheInfo{Valid: ins[i].valid}},
		})
	}
	fail := zzNondetChoice("execute.fail", 2) == 1
	var reqFamily uint8
	var reqIndex uint32
	var reqType uint16
	a := &addresser{execute: func(m rtnetlink.Message, family uint16, flags netlink.HeaderFlags) ([]rtnetlink.Message, error) {
		am := m.(*rtnetlink.AddressMessage)
		reqFamily, reqIndex, reqType = am.Family, am.Index, family
		if fail {
			return nil, zzErrOpaque
		}
		return msgs, nil
	}}
	ips, err := a.AddressesByIndex(7)
	zzAssert(reqFamily == 10 && reqIndex == 7 && reqType == 22, "asks-for-AF_INET6-addresses-of-this-interface") // AF_INET6=10, RTM_GETADDR=22
	if fail {
		zzAssert(err != nil && len(ips) == 0, "listing-failure-is-returned")
		return
	}
	zzAssert(err == nil && len(ips) == n, "one-ip-per-message")
	for i := range ips {
		f := ins[i].flags
		zzAssert(ips[i].Address == netip.PrefixFrom(ins[i].addr, int(ins[i].plen)), "address-and-length-copied")
		zzAssert(ips[i].Temporary == (f&0x01 != 0), "IFA_F_TEMPORARY-0x01")
		zzAssert(ips[i].Deprecated == (f&0x20 != 0), "IFA_F_DEPRECATED-0x20")
		zzAssert(ips[i].Tentative == (f&0x40 != 0), "IFA_F_TENTATIVE-0x40")
		zzAssert(ips[i].ManageTemporaryAddresses == (f&0x100 != 0), "IFA_F_MANAGETEMPADDR-0x100")
		zzAssert(ips[i].StablePrivacy == (f&0x800 != 0), "IFA_F_STABLE_PRIVACY-0x800")
		zzAssert(ips[i].ValidForever == (ins[i].valid == 0xffffffff), "valid-forever-iff-infinite-cache-lifetime")
	}
}

// the interface list is environment
var zzInterfaces []net.Interface

func zzStub_net_Interfaces() ([]net.Interface, error) { return zzInterfaces, nil }

// H15b: loopback routes: exactly the interfaces that are loopback and up are
// queried (AF_INET6, main table, own index); every message becomes one route.
func zzH15b() {
	zzInterfaces = nil
	want := 0
	for i := 0; i < 2; i++ {
		name := "if" + string(rune('0'+i))
		flags := net.Flags(zzNondetUint32(name+".flags")) & (net.FlagUp | net.FlagLoopback | net.FlagBroadcast | net.FlagMulticast)
		zzInterfaces = append(zzInterfaces, net.Interface{Index: i + 1, Name: name, Flags: flags})
	}
	dst := zzNondetAddr6("dst")
	zzAssume(zzNot(dst.Is4In6()))
	plen := zzNondetUint8("dstlen")
	zzAssume(plen <= 128)
	var queried []uint32
	okReq := true
	a := &addresser{execute: func(m rtnetlink.Message, family uint16, flags netlink.HeaderFlags) ([]rtnetlink.Message, error) {
		rm := m.(*rtnetlink.RouteMessage)
		queried = append(queried, rm.Attributes.OutIface)
		if rm.Family != 10 || rm.Attributes.Table != 254 || family != 26 { // AF_INET6, RT_TABLE_MAIN, RTM_GETROUTE
			okReq = false
		}
		b := dst.As16()
		return []rtnetlink.Message{&rtnetlink.RouteMessage{Family: 10, DstLength: plen, Attributes: rtnetlink.RouteAttributes{Dst: net.IP(b[:]), OutIface: rm.Attributes.OutIface}}}, nil
	}}
	routes, err := a.LoopbackRoutes()
	zzAssert(err == nil, "no-error")
	for _, ifi := range zzInterfaces {
		lo := ifi.Flags&net.FlagLoopback != 0 && ifi.Flags&net.FlagUp != 0
		asked := false
		for _, q := range queried {
			if int(q) == ifi.Index {
				asked = true
			}
		}
		if lo {
			want++
		}
		zzAssert(asked == lo, "queries-exactly-the-loopback-interfaces-that-are-up")
	}
	zzAssert(okReq, "asks-for-AF_INET6-main-table-routes")
	zzAssert(len(routes) == want, "one-route-per-message")
	for _, r := range routes {
		zzAssert(r.Prefix == netip.PrefixFrom(dst, int(plen)), "destination-and-length-copied")
		zzAssert(r.Preference == ndp.Medium, "default-preference-medium")
	}
}

// ---- H04c: where the forwarding / autoconf state comes from ----

var (
	zzReadPath, zzWritePath string
	zzReadData, zzWriteData []byte
	zzReadErr               error
)

func zzStub_os_ReadFile(name string) ([]byte, error) {
	zzReadPath = name
	return zzReadData, zzReadErr
}

func zzStub_os_WriteFile(name string, data []byte, perm os.FileMode) error {
	zzWritePath, zzWriteData = name, data
	return nil
}

func zzH04c() {
	// content of the sysctl file: up to 2 arbitrary bytes, or a read error
	n := zzNondetChoice("len", 3)
	zzReadData = make([]byte, n)
	for i := range zzReadData {
		zzReadData[i] = zzNondetUint8("byte")
	}
	zzReadErr = nil
	if zzNondetChoice("read.fail", 2) == 1 {
		zzReadErr = errors.New("zz: read failed")
	}
	which := zzNondetChoice("key", 2)
	var v bool
	var err error
	if which == 0 {
		v, err = getIPv6Forwarding("eth7")
		zzAssert(zzReadPath == "/proc/sys/net/ipv6/conf/eth7/forwarding", "reads-this-interfaces-forwarding-sysctl")
	} else {
		v, err = getIPv6Autoconf("eth7")
		zzAssert(zzReadPath == "/proc/sys/net/ipv6/conf/eth7/autoconf", "reads-this-interfaces-autoconf-sysctl")
	}
	if zzReadErr != nil {
		zzAssert(err != nil, "read-error-returned")
		return
	}
	zzAssert(err == nil, "no-error")
	want := false
	if n == 2 {
		want = zzAnd(zzReadData[0] == '1', zzReadData[1] == '\n')
	}
	zzAssert(v == want, "true-iff-content-is-1-newline")
	enable := zzNondetChoice("enable", 2) == 1
	zzAssert(setIPv6Autoconf("eth7", enable) == nil, "write-ok")
	zzAssert(zzWritePath == "/proc/sys/net/ipv6/conf/eth7/autoconf", "writes-this-interfaces-autoconf-sysctl")
	zzAssert(len(zzWriteData) == 1 && zzWriteData[0] == map[bool]byte{false: '0', true: '1'}[enable], "writes-0-or-1")
}

// ---- H10f: what counts as "link not ready" ----

func zzH10f() {
	flags := net.Flags(zzNondetUint32("flags"))
	ifi := &net.Interface{Index: 2, Name: "eth0", Flags: flags}
	n := zzNondetChoice("naddrs", 3)
	listFail := zzNondetChoice("addrs.fail", 2) == 1
	var addrs []net.Addr
	hasLL := false
	for i := 0; i < n; i++ {
		name := "a" + string(rune('0'+i))
		switch zzNondetChoice(name+".kind", 3) {
		case 0:
			a := zzNondetAddr6(name)
			b := a.As16()
			addrs = append(addrs, &net.IPNet{IP: net.IP(b[:]), Mask: net.CIDRMask(64, 128)})
			hasLL = zzOr(hasLL, zzAnd(b[0] == 0xfe, b[1]&0xc0 == 0x80))
		case 1:
			a := zzNondetAddr4(name)
			b := a.As4()
			addrs = append(addrs, &net.IPNet{IP: net.IP(b[:]), Mask: net.CIDRMask(24, 32)})
		default:
			addrs = append(addrs, &net.IPAddr{IP: net.ParseIP("fe80::1")})
		}
	}
	err := checkInterface(ifi, func() ([]net.Addr, error) {
		if listFail {
			return nil, zzErrOpaque
		}
		return addrs, nil
	})
	up := flags&net.FlagUp != 0
	if !up {
		zzAssert(err != nil && errors.Is(err, ErrLinkNotReady), "not-up-is-link-not-ready")
		return
	}
	if listFail {
		zzAssert(err != nil && !errors.Is(err, ErrLinkNotReady), "address-listing-failure-is-not-link-not-ready")
		return
	}
	if err == nil {
		zzAssert(hasLL, "ready-only-with-an-ipv6-link-local-address")
	} else {
		zzAssert(zzNot(hasLL), "not-ready-only-without-link-local")
		zzAssert(errors.Is(err, ErrLinkNotReady), "no-link-local-is-link-not-ready")
	}
}

// net.InterfaceByName is the environment: success, package net's "no such
// network interface" error (exactly as package net builds it), another
// OpError, or an opaque error.
var zzIfByNameKind int

func zzStub_net_InterfaceByName(name string) (*net.Interface, error) {
	switch zzIfByNameKind {
	case 0:
		return &net.Interface{Index: 2, Name: name}, nil
	case 1:
		return nil, &net.OpError{Op: "route", Net: "ip+net", Err: errors.New("no such network interface")}
	case 2:
		return nil, &net.OpError{Op: "route", Net: "ip+net", Err: errors.New("invalid network interface name")}
	default:
		return nil, zzErrOpaque
	}
}

// H10g: lookupInterface classifies a missing interface as link-not-ready
// (recoverable: the dialer waits for it to appear) and every other lookup
// failure as an ordinary, non-recoverable error.
func zzH10g() {
	zzIfByNameKind = zzNondetChoice("lookup-outcome", 4)
	ifi, err := lookupInterface("eth0")
	switch zzIfByNameKind {
	case 0:
		zzAssert(err == nil && ifi != nil && ifi.Name == "eth0" && ifi.Index == 2, "found-interface-returned")
	case 1:
		zzAssert(ifi == nil && err != nil && errors.Is(err, ErrLinkNotReady), "missing-interface-is-link-not-ready")
	default:
		zzAssert(ifi == nil && err != nil && !errors.Is(err, ErrLinkNotReady), "other-lookup-failure-is-not-link-not-ready")
	}
}
