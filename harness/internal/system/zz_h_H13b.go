package system

import (
	"github.com/jsimonetti/rtnetlink"
	"github.com/mdlayher/netlink"
	"net"
	"net/netip"
)

// H13b: every address message of the kernel becomes one system.IP with the
// flag mapping of linux/if_addr.h (numeric values written here, not taken
// from x/sys).
func zzH13b() {
	n := zzParam("messages")
	var msgs []rtnetlink.Message
	type in struct {
		flags uint32
		plen  uint8
		valid uint32
		addr  netip.Addr
	}
	ins := make([]in, n)
	for i := range ins {
		name := "m" + string(rune('0'+i))
		a := zzNondetAddr6(name)
		zzAssume(zzNot(a.Is4In6()))
		ins[i] = in{flags: zzNondetUint32(name + ".flags"), plen: zzNondetUint8(name + ".prefixlen"), valid: zzNondetUint32(name + ".valid"), addr: a}
		zzAssume(ins[i].plen <= 128)
		b := a.As16()
		msgs = append(msgs, &rtnetlink.AddressMessage{
			Family: 10, PrefixLength: ins[i].plen, Index: 7,
			Attributes: &rtnetlink.AddressAttributes{Address: net.IP(b[:]), Flags: ins[i].flags, CacheInfo: rtnetlink.CacheInfo{Valid: ins[i].valid}},
		})
	}
	fail := zzNondetChoice("execute.fail", 2) == 1
	var reqFamily uint8
	var reqIndex uint32
	var reqType uint16
	a := &addresser{execute: func(m rtnetlink.Message, family uint16, flags netlink.HeaderFlags) ([]rtnetlink.Message, error) {
		am := m.(*rtnetlink.AddressMessage)
		reqFamily, reqIndex, reqType = am.Family, am.Index, family
		if fail {
			return nil, zzErrOpaque
		}
		return msgs, nil
	}}
	ips, err := a.AddressesByIndex(7)
	zzAssert(reqFamily == 10 && reqIndex == 7 && reqType == 22, "asks-for-AF_INET6-addresses-of-this-interface") // AF_INET6=10, RTM_GETADDR=22
	if fail {
		zzAssert(err != nil && len(ips) == 0, "listing-failure-is-returned")
		return
	}
	zzAssert(err == nil && len(ips) == n, "one-ip-per-message")
	for i := range ips {
		f := ins[i].flags
		zzAssert(ips[i].Address == netip.PrefixFrom(ins[i].addr, int(ins[i].plen)), "address-and-length-copied")
		zzAssert(ips[i].Temporary == (f&0x01 != 0), "IFA_F_TEMPORARY-0x01")
		zzAssert(ips[i].Deprecated == (f&0x20 != 0), "IFA_F_DEPRECATED-0x20")
		zzAssert(ips[i].Tentative == (f&0x40 != 0), "IFA_F_TENTATIVE-0x40")
		zzAssert(ips[i].ManageTemporaryAddresses == (f&0x100 != 0), "IFA_F_MANAGETEMPADDR-0x100")
		zzAssert(ips[i].StablePrivacy == (f&0x800 != 0), "IFA_F_STABLE_PRIVACY-0x800")
		zzAssert(ips[i].ValidForever == (ins[i].valid == 0xffffffff), "valid-forever-iff-infinite-cache-lifetime")
	}
}
