package system

import (
	"context"
	"io"
	"log"
)

// H10a: Dialer.Dial -- classification of the task's error, back-off schedule,
// attempt bound, stop at first success. Driven through the public entry point
// only (the split between Dial and its helpers is the implementation's
// business): with an error class, the first dial succeeds, the task fails with
// an error of that class, and what follows is the (re)initialisation under
// test; without one, the very first initialisation is under test.
func zzH10a() {
	class := zzNondetChoice("error.class", zzNClasses)
	succeedAt := zzNondetChoice("dial.succeeds.at", 52) // attempt index at which DialFunc first succeeds; 51 = never
	dials := 0
	prefix := 0 // dials made before the initialisation under test
	if class != zzENone {
		prefix = 1
	}
	want, first := &DialContext{}, &DialContext{}
	d := &Dialer{iface: "eth0", ll: log.New(io.Discard, "", 0)}
	d.DialFunc = func() (*DialContext, error) {
		dials++
		if dials <= prefix {
			return first, nil
		}
		if dials-prefix-1 >= succeedAt && succeedAt < 51 {
			return want, nil
		}
		return nil, zzErrOf(zzENotReady)
	}
	zzAfterLog = nil
	runs := 0
	var got *DialContext
	err := d.Dial(context.Background(), func(ctx context.Context, dctx *DialContext) error {
		runs++
		if runs <= prefix {
			return zzErrOf(class) // the task fails: re-initialisation follows
		}
		got = dctx
		return nil
	})
	dials -= prefix
	if class == zzENone {
		// no previous error: a single dial decides
		if succeedAt == 0 {
			zzAssert(dials == 1, "first-dial-once")
			zzAssert(zzAnd(err == nil, got == want), "first-dial-success")
			zzAssert(len(zzAfterLog) == 0, "no-wait-on-success")
			return
		}
		// the dial failed with link-not-ready: recoverable, back-off follows
	} else if !zzRecoverable(class) {
		// a cancellation reported by the task is a clean end of Dial; any
		// other unrecoverable error is returned
		zzAssert((err != nil) == (class != zzECanceled) && got == nil, "unrecoverable-returned")
		zzAssert(dials == 0 && len(zzAfterLog) == 0, "unrecoverable-at-once-no-wait-no-dial")
		return
	}
	firstDial := 0
	if class == zzENone {
		firstDial = 1
	}
	// recoverable: waits 0, 250ms, ... capped at 3s; at most 50 dials; stop at first success
	n := dials - firstDial // dials made by the retry loop
	zzAssert(n <= 50, "at-most-50-attempts")
	zzAssert(len(zzAfterLog) == n, "one-wait-per-attempt")
	for i, w := range zzAfterLog {
		zzAssert(w == zzWantDelay(i), "backoff-schedule")
	}
	if succeedAt < 51 && succeedAt-firstDial < 50 && succeedAt >= firstDial {
		zzAssert(zzAnd(err == nil, got == want), "stops-at-first-success")
		zzAssert(dials == succeedAt+1, "no-dial-after-success")
	} else if succeedAt >= firstDial {
		zzAssert(err != nil && n == 50, "error-after-50-failures")
	}
}
