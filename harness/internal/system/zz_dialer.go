package system

import (
	"context"
	"errors"
	"fmt"
	"io"
	"log"
	"net"
	"net/netip"
	"os"
	"syscall"
	"time"

	"github.com/mdlayher/ndp"
)

var zzErrOpaque = errors.New("zz: opaque error")

// ---- environment owned by the harness ----

var (
	zzAfterLog  []time.Duration
	zzCancel    context.CancelFunc // when set, a wait may be interrupted by cancellation
	zzCancelBudget int
	zzCancelled bool
)

func zzStub_time_After(d time.Duration) <-chan time.Time {
	zzAfterLog = append(zzAfterLog, d)
	if zzCancel != nil && zzCancelBudget > 0 && !zzCancelled {
		zzCancelBudget--
		if zzNondetChoice("cancel-during-wait", 2) == 1 {
			zzCancelled = true
			zzCancel()
			// only the Done case is ready: the timer never fires
			return make(chan time.Time)
		}
	}
	ch := make(chan time.Time, 1)
	ch <- time.Time{}
	return ch
}

// error classes (DESIGN A.5)
const (
	zzENone = iota
	zzENotReady
	zzELinkChange
	zzESyscall
	zzESyscallPerm
	zzEOpaque
	zzECanceled
	zzNClasses
)

func zzErrOf(class int) error {
	switch class {
	case zzENone:
		return nil
	case zzENotReady:
		return fmt.Errorf("wrapped: %w", ErrLinkNotReady)
	case zzELinkChange:
		return fmt.Errorf("wrapped: %w", ErrLinkChange)
	case zzESyscall:
		return fmt.Errorf("listen: %w", os.NewSyscallError("bind", syscall.EADDRNOTAVAIL))
	case zzESyscallPerm:
		return os.NewSyscallError("socket", syscall.EPERM)
	case zzECanceled:
		return context.Canceled
	}
	return zzErrOpaque
}

func zzRecoverable(class int) bool {
	return class == zzENotReady || class == zzELinkChange || class == zzESyscall
}

// zzWantDelay: the i-th wait of the back-off (i = 0, 1, ...)
func zzWantDelay(i int) time.Duration {
	d := time.Duration(i) * 250 * time.Millisecond
	if d > 3*time.Second {
		d = 3 * time.Second
	}
	return d
}

// H10a: Dialer.Dial -- classification of the task's error, back-off schedule,
// attempt bound, stop at first success. Driven through the public entry point
// only (the split between Dial and its helpers is the implementation's
// business): with an error class, the first dial succeeds, the task fails with
// an error of that class, and what follows is the (re)initialisation under
// test; without one, the very first initialisation is under test.
func zzH10a() {
	class := zzNondetChoice("error.class", zzNClasses)
	succeedAt := zzNondetChoice("dial.succeeds.at", 52) // attempt index at which DialFunc first succeeds; 51 = never
	dials := 0
	prefix := 0 // dials made before the initialisation under test
	if class != zzENone {
		prefix = 1
	}
	want, first := &DialContext{}, &DialContext{}
	d := &Dialer{iface: "eth0", ll: log.New(io.Discard, "", 0)}
	d.DialFunc = func() (*DialContext, error) {
		dials++
		if dials <= prefix {
			return first, nil
		}
		if dials-prefix-1 >= succeedAt && succeedAt < 51 {
			return want, nil
		}
		return nil, zzErrOf(zzENotReady)
	}
	zzAfterLog = nil
	runs := 0
	var got *DialContext
	err := d.Dial(context.Background(), func(ctx context.Context, dctx *DialContext) error {
		runs++
		if runs <= prefix {
			return zzErrOf(class) // the task fails: re-initialisation follows
		}
		got = dctx
		return nil
	})
	dials -= prefix
	if class == zzENone {
		// no previous error: a single dial decides
		if succeedAt == 0 {
			zzAssert(dials == 1, "first-dial-once")
			zzAssert(zzAnd(err == nil, got == want), "first-dial-success")
			zzAssert(len(zzAfterLog) == 0, "no-wait-on-success")
			return
		}
		// the dial failed with link-not-ready: recoverable, back-off follows
	} else if !zzRecoverable(class) {
		// a cancellation reported by the task is a clean end of Dial; any
		// other unrecoverable error is returned
		zzAssert((err != nil) == (class != zzECanceled) && got == nil, "unrecoverable-returned")
		zzAssert(dials == 0 && len(zzAfterLog) == 0, "unrecoverable-at-once-no-wait-no-dial")
		return
	}
	firstDial := 0
	if class == zzENone {
		firstDial = 1
	}
	// recoverable: waits 0, 250ms, ... capped at 3s; at most 50 dials; stop at first success
	n := dials - firstDial // dials made by the retry loop
	zzAssert(n <= 50, "at-most-50-attempts")
	zzAssert(len(zzAfterLog) == n, "one-wait-per-attempt")
	for i, w := range zzAfterLog {
		zzAssert(w == zzWantDelay(i), "backoff-schedule")
	}
	if succeedAt < 51 && succeedAt-firstDial < 50 && succeedAt >= firstDial {
		zzAssert(zzAnd(err == nil, got == want), "stops-at-first-success")
		zzAssert(dials == succeedAt+1, "no-dial-after-success")
	} else if succeedAt >= firstDial {
		zzAssert(err != nil && n == 50, "error-after-50-failures")
	}
}

// H10a-cancel: cancellation during the back-off ends Dial cleanly (nil) without
// a further dial.
func zzH10aCancel() {
	ctx, cancel := context.WithCancel(context.Background())
	zzCancel, zzCancelBudget, zzCancelled = cancel, 4, false
	dials := 0
	d := &Dialer{iface: "eth0", ll: log.New(io.Discard, "", 0)}
	d.DialFunc = func() (*DialContext, error) {
		dials++
		if dials == 1 {
			return &DialContext{}, nil
		}
		zzAssert(!zzCancelled, "no-dial-after-cancellation")
		return nil, zzErrOf(zzENotReady)
	}
	runs := 0
	err := d.Dial(ctx, func(ctx context.Context, dctx *DialContext) error {
		runs++
		return zzErrOf(zzELinkChange)
	})
	zzAssert(runs == 1, "task-run-once")
	if zzCancelled {
		zzAssert(err == nil, "cancellation-is-a-clean-return")
	} else {
		zzAssert(err != nil && dials == 51, "exhausts-attempts-otherwise")
	}
	cancel()
}

// ---- real dial() with a stubbed operating system (C11) ----

type zzConnRec struct {
	c      *ndp.Conn
	left   int
	closed int
}

var (
	zzConns      []*zzConnRec
	zzFailBudget int // how many environment calls may still fail
)

func zzFind(c *ndp.Conn) *zzConnRec {
	for _, r := range zzConns {
		if r.c == c {
			return r
		}
	}
	return nil
}

func zzMayFail(name string, n int) int {
	if zzFailBudget <= 0 {
		return 0
	}
	k := zzNondetChoice(name, n)
	if k != 0 {
		zzFailBudget--
	}
	return k
}

func zzStub_system_lookupInterface(iface string) (*net.Interface, error) {
	switch zzMayFail("lookup", 3) {
	case 1:
		return nil, fmt.Errorf("interface %q does not exist: %w", iface, ErrLinkNotReady)
	case 2:
		return nil, zzErrOpaque
	}
	return &net.Interface{Index: 2, Name: iface, Flags: net.FlagUp}, nil
}

func zzStub_system_checkInterface(ifi *net.Interface, addrFunc func() ([]net.Addr, error)) error {
	if zzMayFail("check", 2) == 1 {
		return fmt.Errorf("interface not up: %w", ErrLinkNotReady)
	}
	return nil
}

func zzStub_system_dialNDP(ifi *net.Interface) (*ndp.Conn, netip.Addr, error) {
	for _, r := range zzConns {
		zzAssert(r.closed == 1, "previous-connection-closed-before-next-is-opened")
	}
	switch zzMayFail("dialndp", 4) {
	case 1:
		return nil, netip.Addr{}, zzErrOf(zzESyscall)
	case 2:
		return nil, netip.Addr{}, zzErrOf(zzESyscallPerm)
	case 3:
		return nil, netip.Addr{}, zzErrOpaque
	}
	c := new(ndp.Conn)
	zzConns = append(zzConns, &zzConnRec{c: c})
	return c, netip.MustParseAddr("fe80::1"), nil
}

func zzStub_ndp_Conn_LeaveGroup(c *ndp.Conn, group netip.Addr) error {
	if r := zzFind(c); r != nil {
		r.left++
	}
	return nil
}

func zzStub_ndp_Conn_Close(c *ndp.Conn) error {
	if r := zzFind(c); r != nil {
		r.closed++
	}
	return nil
}

// state stub with a ghost autoconf value and failing calls
type zzAutoState struct {
	value      bool
	getCalls   int
	sets       []bool
	anyFailure bool
	// phase 0: next Set call disables autoconf for a new connection;
	// phase 1: next Set call is the restore of the connection being cleaned up
	phase            int
	restoreFailed    int // class of the failed restore (0 = none)
	connsAtRestoreFailure int
	disablePermDenied bool
}

func zzStateErr(k int) error {
	switch k {
	case 1:
		return fmt.Errorf("sysctl: %w", os.ErrPermission)
	case 2:
		return fmt.Errorf("sysctl: %w", os.ErrNotExist)
	case 3:
		return zzErrOpaque
	}
	return nil
}

func (s *zzAutoState) IPv6Autoconf(iface string) (bool, error) {
	s.getCalls++
	if k := zzMayFail("autoconf.get", 2); k != 0 {
		s.anyFailure = true
		return false, zzErrOpaque
	}
	return s.value, nil
}
func (s *zzAutoState) IPv6Forwarding(iface string) (bool, error) { return true, nil }
func (s *zzAutoState) SetIPv6Autoconf(iface string, enable bool) error {
	s.sets = append(s.sets, enable)
	k := zzMayFail("autoconf.set", 4)
	if s.phase == 0 {
		// disabling for a new connection
		zzAssert(!enable, "disable-call-writes-false")
		if k == 1 {
			// permission denied is tolerated: the connection is kept, value unchanged
			s.anyFailure, s.disablePermDenied = true, true
			s.phase = 1
			return zzStateErr(k)
		}
		if k != 0 {
			s.anyFailure = true
			return zzStateErr(k) // dial fails, nothing to restore
		}
		s.value = false
		s.phase = 1
		return nil
	}
	// restoring
	s.phase = 0
	if k != 0 {
		s.anyFailure = true
		s.restoreFailed = k
		s.connsAtRestoreFailure = len(zzConns)
		return zzStateErr(k)
	}
	s.value = enable
	return nil
}

// H11: Dial with the real dial(): connections cleaned up exactly once, before
// the next is opened and before Dial returns; autoconf restored.
func zzH11() {
	mode := Advertise
	if zzNondetChoice("mode", 2) == 1 {
		mode = Monitor
	}
	initial := zzNondetBool("autoconf.initial")
	st := &zzAutoState{value: initial}
	zzConns = nil
	zzFailBudget = zzParam("failures")
	d := NewDialer("eth0", st, mode, nil)
	rounds := 0
	maxRounds := zzParam("rounds")
	held := false
	lastTaskNil := false
	err := d.Dial(context.Background(), func(ctx context.Context, dctx *DialContext) error {
		rounds++
		// while the task runs: exactly the newest connection is open
		for i, r := range zzConns {
			if i == len(zzConns)-1 {
				zzAssert(r.closed == 0, "connection-open-while-task-runs")
			} else {
				zzAssert(r.closed == 1, "older-connections-closed")
			}
		}
		if mode == Advertise && !st.anyFailure {
			zzAssert(zzNot(st.value), "autoconf-disabled-while-connection-held")
		}
		held = true
		if rounds >= maxRounds {
			k := zzNondetChoice("task.final", 2) * zzEOpaque // nil or unrecoverable
			lastTaskNil = k == zzENone
			return zzErrOf(k)
		}
		k := zzNondetChoice("task.outcome", zzNClasses)
		lastTaskNil = k == zzENone
		return zzErrOf(k)
	})
	_ = held
	// every connection ever opened was cleaned up exactly once
	leak := false
	for _, r := range zzConns {
		if r.closed != 1 || r.left != 1 {
			leak = true
		}
	}
	zzKnownClass("setautoconf-fails-after-dial", st.anyFailure)
	zzAssert(!leak, "every-connection-cleaned-up-exactly-once")
	if mode == Monitor {
		zzAssert(st.getCalls == 0 && len(st.sets) == 0, "monitor-never-touches-autoconf")
	} else if !st.anyFailure {
		zzAssert(st.value == initial, "autoconf-restored")
	}
	// a restore failure other than permission-denied / vanished interface is
	// reported, and nothing further is opened after it
	if st.restoreFailed == 3 {
		zzAssert(err != nil, "restore-failure-reported")
		zzAssert(len(zzConns) == st.connsAtRestoreFailure, "no-new-connection-after-failed-cleanup")
	}
	if st.restoreFailed == 1 || st.restoreFailed == 2 {
		// permission denied / vanished interface on restore are tolerated:
		// Dial carries on as if cleaned up, so its result follows the task
		zzCover("tolerated-restore-failure")
		if lastTaskNil {
			zzAssert(err == nil, "tolerated-restore-failure-is-not-reported")
		}
	}
}
