package system

import (
	"context"
	"io"
	"log"
)

// H10a-cancel: cancellation during the back-off ends Dial cleanly (nil) without
// a further dial.
func zzH10aCancel() {
	ctx, cancel := context.WithCancel(context.Background())
	zzCancel, zzCancelBudget, zzCancelled = cancel, 4, false
	dials := 0
	d := &Dialer{iface: "eth0", ll: log.New(io.Discard, "", 0)}
	d.DialFunc = func() (*DialContext, error) {
		dials++
		if dials == 1 {
			return &DialContext{}, nil
		}
		zzAssert(!zzCancelled, "no-dial-after-cancellation")
		return nil, zzErrOf(zzENotReady)
	}
	runs := 0
	err := d.Dial(ctx, func(ctx context.Context, dctx *DialContext) error {
		runs++
		return zzErrOf(zzELinkChange)
	})
	zzAssert(runs == 1, "task-run-once")
	if zzCancelled {
		zzAssert(err == nil, "cancellation-is-a-clean-return")
	} else {
		zzAssert(err != nil && dials == 51, "exhausts-attempts-otherwise")
	}
	cancel()
}
