package system

import (
	"github.com/jsimonetti/rtnetlink"
	"github.com/mdlayher/ndp"
	"github.com/mdlayher/netlink"
	"net"
	"net/netip"
)

// H15b: loopback routes: exactly the interfaces that are loopback and up are
// queried (AF_INET6, main table, own index); every message becomes one route.
func zzH15b() {
	zzInterfaces = nil
	want := 0
	for i := 0; i < 2; i++ {
		name := "if" + string(rune('0'+i))
		flags := net.Flags(zzNondetUint32(name+".flags")) & (net.FlagUp | net.FlagLoopback | net.FlagBroadcast | net.FlagMulticast)
		zzInterfaces = append(zzInterfaces, net.Interface{Index: i + 1, Name: name, Flags: flags})
	}
	dst := zzNondetAddr6("dst")
	zzAssume(zzNot(dst.Is4In6()))
	plen := zzNondetUint8("dstlen")
	zzAssume(plen <= 128)
	var queried []uint32
	okReq := true
	a := &addresser{execute: func(m rtnetlink.Message, family uint16, flags netlink.HeaderFlags) ([]rtnetlink.Message, error) {
		rm := m.(*rtnetlink.RouteMessage)
		queried = append(queried, rm.Attributes.OutIface)
		if rm.Family != 10 || rm.Attributes.Table != 254 || family != 26 { // AF_INET6, RT_TABLE_MAIN, RTM_GETROUTE
			okReq = false
		}
		b := dst.As16()
		return []rtnetlink.Message{&rtnetlink.RouteMessage{Family: 10, DstLength: plen, Attributes: rtnetlink.RouteAttributes{Dst: net.IP(b[:]), OutIface: rm.Attributes.OutIface}}}, nil
	}}
	routes, err := a.LoopbackRoutes()
	zzAssert(err == nil, "no-error")
	for _, ifi := range zzInterfaces {
		lo := ifi.Flags&net.FlagLoopback != 0 && ifi.Flags&net.FlagUp != 0
		asked := false
		for _, q := range queried {
			if int(q) == ifi.Index {
				asked = true
			}
		}
		if lo {
			want++
		}
		zzAssert(asked == lo, "queries-exactly-the-loopback-interfaces-that-are-up")
	}
	zzAssert(okReq, "asks-for-AF_INET6-main-table-routes")
	zzAssert(len(routes) == want, "one-route-per-message")
	for _, r := range routes {
		zzAssert(r.Prefix == netip.PrefixFrom(dst, int(plen)), "destination-and-length-copied")
		zzAssert(r.Preference == ndp.Medium, "default-preference-medium")
	}
}
