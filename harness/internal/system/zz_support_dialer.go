package system

import (
	"context"
	"errors"
	"fmt"
	"github.com/mdlayher/ndp"
	"net"
	"net/netip"
	"os"
	"syscall"
	"time"
)

var zzErrOpaque = errors.New("zz: opaque error")

var (
	zzAfterLog     []time.Duration
	zzCancel       context.CancelFunc // when set, a wait may be interrupted by cancellation
	zzCancelBudget int
	zzCancelled    bool
)

func zzStub_time_After(d time.Duration) <-chan time.Time {
	zzAfterLog = append(zzAfterLog, d)
	if zzCancel != nil && zzCancelBudget > 0 && !zzCancelled {
		zzCancelBudget--
		if zzNondetChoice("cancel-during-wait", 2) == 1 {
			zzCancelled = true
			zzCancel()
			// only the Done case is ready: the timer never fires
			return make(chan time.Time)
		}
	}
	ch := make(chan time.Time, 1)
	ch <- time.Time{}
	return ch
}

// time.NewTimer (with Stop / Reset) is the same environment as time.After:
// every arming asks zzStub_time_After (which logs the duration and may decide
// that the context is cancelled during the wait) and fires at once otherwise.
var zzTimerChans map[*time.Timer]chan time.Time

func zzArm(ch chan time.Time, d time.Duration) {
	select {
	case v := <-zzStub_time_After(d):
		select {
		case ch <- v:
		default:
		}
	default:
	}
}

func zzStub_time_NewTimer(d time.Duration) *time.Timer {
	ch := make(chan time.Time, 1)
	zzArm(ch, d)
	t := &time.Timer{C: ch}
	if zzTimerChans == nil {
		zzTimerChans = map[*time.Timer]chan time.Time{}
	}
	zzTimerChans[t] = ch
	return t
}

func zzStub_time_Timer_Reset(t *time.Timer, d time.Duration) bool {
	if ch := zzTimerChans[t]; ch != nil {
		zzArm(ch, d)
	}
	return true
}

func zzStub_time_Timer_Stop(t *time.Timer) bool { return true }

// time.Sleep is a wait on the same harness-owned timer.
func zzStub_time_Sleep(d time.Duration) { <-zzStub_time_After(d) }

// error classes (DESIGN A.5)
const (
	zzENone = iota
	zzENotReady
	zzELinkChange
	zzESyscall
	zzESyscallPerm
	zzEOpaque
	zzECanceled
	zzNClasses
)

func zzErrOf(class int) error {
	switch class {
	case zzENone:
		return nil
	case zzENotReady:
		return fmt.Errorf("wrapped: %w", ErrLinkNotReady)
	case zzELinkChange:
		return fmt.Errorf("wrapped: %w", ErrLinkChange)
	case zzESyscall:
		return fmt.Errorf("listen: %w", os.NewSyscallError("bind", syscall.EADDRNOTAVAIL))
	case zzESyscallPerm:
		return os.NewSyscallError("socket", syscall.EPERM)
	case zzECanceled:
		return context.Canceled
	}
	return zzErrOpaque
}

func zzRecoverable(class int) bool {
	return class == zzENotReady || class == zzELinkChange || class == zzESyscall
}

// zzWantDelay: the i-th wait of the back-off (i = 0, 1, ...)
func zzWantDelay(i int) time.Duration {
	d := time.Duration(i) * 250 * time.Millisecond
	if d > 3*time.Second {
		d = 3 * time.Second
	}
	return d
}

type zzConnRec struct {
	c      *ndp.Conn
	left   int
	closed int
}

var (
	zzConns      []*zzConnRec
	zzFailBudget int // how many environment calls may still fail
)

func zzFind(c *ndp.Conn) *zzConnRec {
	for _, r := range zzConns {
		if r.c == c {
			return r
		}
	}
	return nil
}

func zzMayFail(name string, n int) int {
	if zzFailBudget <= 0 {
		return 0
	}
	k := zzNondetChoice(name, n)
	if k != 0 {
		zzFailBudget--
	}
	return k
}

func zzStub_system_lookupInterface(iface string) (*net.Interface, error) {
	switch zzMayFail("lookup", 3) {
	case 1:
		return nil, fmt.Errorf("interface %q does not exist: %w", iface, ErrLinkNotReady)
	case 2:
		return nil, zzErrOpaque
	}
	return &net.Interface{Index: 2, Name: iface, Flags: net.FlagUp}, nil
}

func zzStub_system_checkInterface(ifi *net.Interface, addrFunc func() ([]net.Addr, error)) error {
	if zzMayFail("check", 2) == 1 {
		return fmt.Errorf("interface not up: %w", ErrLinkNotReady)
	}
	return nil
}

func zzStub_system_dialNDP(ifi *net.Interface) (*ndp.Conn, netip.Addr, error) {
	for _, r := range zzConns {
		zzAssert(r.closed == 1, "previous-connection-closed-before-next-is-opened")
	}
	switch zzMayFail("dialndp", 4) {
	case 1:
		return nil, netip.Addr{}, zzErrOf(zzESyscall)
	case 2:
		return nil, netip.Addr{}, zzErrOf(zzESyscallPerm)
	case 3:
		return nil, netip.Addr{}, zzErrOpaque
	}
	// the stop request may arrive while the socket is being opened -- and the
	// open may still succeed: the connection then exists and must be cleaned up
	if zzCancel != nil && !zzCancelled && zzCancelBudget > 0 && zzNondetChoice("cancel-during-dial", 2) == 1 {
		zzCancelBudget--
		zzCancelled = true
		zzCancel()
	}
	c := new(ndp.Conn)
	zzConns = append(zzConns, &zzConnRec{c: c})
	return c, netip.MustParseAddr("fe80::1"), nil
}

func zzStub_ndp_Conn_LeaveGroup(c *ndp.Conn, group netip.Addr) error {
	if r := zzFind(c); r != nil {
		r.left++
	}
	return nil
}

func zzStub_ndp_Conn_Close(c *ndp.Conn) error {
	if r := zzFind(c); r != nil {
		r.closed++
	}
	return nil
}

// state stub with a ghost autoconf value and failing calls
type zzAutoState struct {
	value      bool
	getCalls   int
	sets       []bool
	anyFailure bool
	// phase 0: next Set call disables autoconf for a new connection;
	// phase 1: next Set call is the restore of the connection being cleaned up
	phase                 int
	restoreFailed         int // class of the failed restore (0 = none)
	connsAtRestoreFailure int
	disablePermDenied     bool
	// ghost, independent of the order of Set calls: every setAutoconf starts
	// with a read, so a read opens a new connection's episode
	prevRead    bool // value returned by the episode's read
	lastDisable int  // 0 none yet in this episode, 1 written, 2 permission denied
	owed        bool // a disable was written and no restore has been attempted since
}

func zzStateErr(k int) error {
	switch k {
	case 1:
		return fmt.Errorf("sysctl: %w", os.ErrPermission)
	case 2:
		return fmt.Errorf("sysctl: %w", os.ErrNotExist)
	case 3:
		return zzErrOpaque
	}
	return nil
}

func (s *zzAutoState) IPv6Autoconf(iface string) (bool, error) {
	s.getCalls++
	if k := zzMayFail("autoconf.get", 2); k != 0 {
		s.anyFailure = true
		return false, zzErrOpaque
	}
	// the previous connection's restore was attempted before this one starts
	zzAssert(!s.owed, "restore-attempted-before-next-connection")
	s.prevRead, s.lastDisable, s.phase = s.value, 0, 0
	return s.value, nil
}

func (s *zzAutoState) IPv6Forwarding(iface string) (bool, error) { return true, nil }

func (s *zzAutoState) SetIPv6Autoconf(iface string, enable bool) error {
	s.sets = append(s.sets, enable)
	k := zzMayFail("autoconf.set", 4)
	if s.phase == 0 {
		// disabling for a new connection
		zzAssert(!enable, "disable-call-writes-false")
		if k == 1 {
			// permission denied is tolerated: the connection is kept, value unchanged
			s.anyFailure, s.disablePermDenied = true, true
			s.phase, s.lastDisable = 1, 2
			return zzStateErr(k)
		}
		if k != 0 {
			s.anyFailure = true
			return zzStateErr(k) // dial fails, nothing to restore
		}
		s.value = false
		s.phase, s.lastDisable, s.owed = 1, 1, true
		return nil
	}
	// restoring: whatever its outcome, the attempt writes the value read when
	// the connection was set up
	s.phase, s.owed = 0, false
	zzAssert(enable == s.prevRead, "restore-writes-the-value-read-before")
	if k != 0 {
		s.anyFailure = true
		s.restoreFailed = k
		s.connsAtRestoreFailure = len(zzConns)
		return zzStateErr(k)
	}
	s.value = enable
	return nil
}
