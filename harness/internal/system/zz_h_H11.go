package system

import (
	"context"
)

// H11: Dial with the real dial(): connections cleaned up exactly once, before
// the next is opened and before Dial returns; autoconf restored.
func zzH11() {
	mode := Advertise
	if zzNondetChoice("mode", 2) == 1 {
		mode = Monitor
	}
	initial := zzNondetBool("autoconf.initial")
	st := &zzAutoState{value: initial}
	zzConns = nil
	zzFailBudget = zzParam("failures")
	d := NewDialer("eth0", st, mode, nil)
	rounds := 0
	maxRounds := zzParam("rounds")
	held := false
	lastTaskNil := false
	err := d.Dial(context.Background(), func(ctx context.Context, dctx *DialContext) error {
		rounds++
		// while the task runs: exactly the newest connection is open
		for i, r := range zzConns {
			if i == len(zzConns)-1 {
				zzAssert(r.closed == 0, "connection-open-while-task-runs")
			} else {
				zzAssert(r.closed == 1, "older-connections-closed")
			}
		}
		if mode == Advertise && !st.anyFailure {
			zzAssert(zzNot(st.value), "autoconf-disabled-while-connection-held")
		}
		held = true
		if rounds >= maxRounds {
			k := zzNondetChoice("task.final", 2) * zzEOpaque // nil or unrecoverable
			lastTaskNil = k == zzENone
			return zzErrOf(k)
		}
		k := zzNondetChoice("task.outcome", zzNClasses)
		lastTaskNil = k == zzENone
		return zzErrOf(k)
	})
	_ = held
	// every connection ever opened was cleaned up exactly once
	leak := false
	for _, r := range zzConns {
		if r.closed != 1 || r.left != 1 {
			leak = true
		}
	}
	zzKnownClass("setautoconf-fails-after-dial", st.anyFailure)
	zzAssert(!leak, "every-connection-cleaned-up-exactly-once")
	if mode == Monitor {
		zzAssert(st.getCalls == 0 && len(st.sets) == 0, "monitor-never-touches-autoconf")
	} else if !st.anyFailure {
		zzAssert(st.value == initial, "autoconf-restored")
	}
	// a restore failure other than permission-denied / vanished interface is
	// reported, and nothing further is opened after it
	if st.restoreFailed == 3 {
		zzAssert(err != nil, "restore-failure-reported")
		zzAssert(len(zzConns) == st.connsAtRestoreFailure, "no-new-connection-after-failed-cleanup")
	}
	if st.restoreFailed == 1 || st.restoreFailed == 2 {
		// permission denied / vanished interface on restore are tolerated:
		// Dial carries on as if cleaned up, so its result follows the task
		zzCover("tolerated-restore-failure")
		if lastTaskNil {
			zzAssert(err == nil, "tolerated-restore-failure-is-not-reported")
		}
	}
}
