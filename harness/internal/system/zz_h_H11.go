package system

import (
	"context"
)

// H11: Dial with the real dial(): connections cleaned up exactly once, before
// the next is opened and before Dial returns; autoconf restored.
func zzH11() {
	// natively, a select with two ready cases inside the code under test is
	// decided by the runtime: the scenario is repeated with the same inputs
	for trial := 0; trial < zzNativeTrials(20); trial++ {
		zzReplayRestart()
		zzH11Once()
	}
}

func zzH11Once() {
	mode := Advertise
	if zzNondetChoice("mode", 2) == 1 {
		mode = Monitor
	}
	initial := zzNondetBool("autoconf.initial")
	st := &zzAutoState{value: initial}
	zzConns = nil
	zzFailBudget = zzParam("failures")
	d := NewDialer("eth0", st, mode, nil)
	rounds := 0
	maxRounds := zzParam("rounds")
	held := false
	lastTaskNil := false
	// cancellation may come during a back-off wait or while a socket is being
	// opened (once per run)
	ctx, cancel := context.WithCancel(context.Background())
	zzCancel, zzCancelBudget, zzCancelled = cancel, 1, false
	err := d.Dial(ctx, func(ctx context.Context, dctx *DialContext) error {
		rounds++
		// while the task runs: exactly the newest connection is open
		for i, r := range zzConns {
			if i == len(zzConns)-1 {
				zzAssert(r.closed == 0, "connection-open-while-task-runs")
			} else {
				zzAssert(r.closed == 1, "older-connections-closed")
			}
		}
		if mode == Advertise && !st.anyFailure {
			zzAssert(zzNot(st.value), "autoconf-disabled-while-connection-held")
		}
		if mode == Advertise {
			// this connection's own set-up tried to disable autoconf, and a
			// write that went through is still in effect
			zzAssert(st.lastDisable != 0 && st.phase == 1, "disable-attempted-for-the-held-connection")
			if st.lastDisable == 1 {
				zzAssert(zzNot(st.value) && st.owed, "autoconf-disabled-while-connection-held")
			}
		}
		held = true
		if rounds >= maxRounds {
			k := zzNondetChoice("task.final", 2) * zzEOpaque // nil or unrecoverable
			lastTaskNil = k == zzENone
			return zzErrOf(k)
		}
		k := zzNondetChoice("task.outcome", zzNClasses)
		lastTaskNil = k == zzENone
		return zzErrOf(k)
	})
	_ = held
	zzCancel = nil
	cancel()
	// every connection ever opened was cleaned up exactly once
	leak := false
	for _, r := range zzConns {
		if r.closed != 1 || r.left != 1 {
			leak = true
		}
	}
	zzKnownClass("setautoconf-fails-after-dial", st.anyFailure)
	zzAssert(!leak, "every-connection-cleaned-up-exactly-once")
	if mode == Monitor {
		zzAssert(st.getCalls == 0 && len(st.sets) == 0, "monitor-never-touches-autoconf")
	} else {
		if !st.anyFailure {
			zzAssert(st.value == initial, "autoconf-restored")
		}
		// with failures too: every disable that was written is followed by a
		// restore attempt before Dial returns, and unless a restore write
		// itself failed the setting is back to what it was
		zzAssert(!st.owed, "restore-attempted-on-every-exit-path")
		if st.restoreFailed == 0 {
			zzAssert(st.value == initial, "autoconf-restored-despite-earlier-failures")
		}
	}
	// a restore failure other than permission-denied / vanished interface is
	// reported, and nothing further is opened after it
	if st.restoreFailed == 3 {
		zzAssert(err != nil, "restore-failure-reported")
		zzAssert(len(zzConns) == st.connsAtRestoreFailure, "no-new-connection-after-failed-cleanup")
	}
	if st.restoreFailed == 1 || st.restoreFailed == 2 {
		// permission denied / vanished interface on restore are tolerated:
		// Dial carries on as if cleaned up, so its result follows the task
		zzCover("tolerated-restore-failure")
		if lastTaskNil {
			zzAssert(err == nil, "tolerated-restore-failure-is-not-reported")
		}
	}
}
