package system

import (
	"errors"
	"os"
	"syscall"
)

func zzH04c() {
	// content of the sysctl file: up to 2 arbitrary bytes, or a read error
	n := zzNondetChoice("len", 3)
	zzReadData = make([]byte, n)
	for i := range zzReadData {
		zzReadData[i] = zzNondetUint8("byte")
	}
	zzReadErr = nil
	if zzNondetChoice("read.fail", 2) == 1 {
		zzReadErr = errors.New("zz: read failed")
	}
	which := zzNondetChoice("key", 2)
	var v bool
	var err error
	if which == 0 {
		v, err = getIPv6Forwarding("eth7")
		zzAssert(zzReadPath == "/proc/sys/net/ipv6/conf/eth7/forwarding", "reads-this-interfaces-forwarding-sysctl")
	} else {
		v, err = getIPv6Autoconf("eth7")
		zzAssert(zzReadPath == "/proc/sys/net/ipv6/conf/eth7/autoconf", "reads-this-interfaces-autoconf-sysctl")
	}
	if zzReadErr != nil {
		zzAssert(err != nil, "read-error-returned")
		return
	}
	zzAssert(err == nil, "no-error")
	want := false
	if n == 2 {
		want = zzAnd(zzReadData[0] == '1', zzReadData[1] == '\n')
	}
	zzAssert(v == want, "true-iff-content-is-1-newline")
	enable := zzNondetChoice("enable", 2) == 1
	// the kernel's answer to the write: ok, permission denied (no
	// CAP_NET_ADMIN), or no such file (the interface vanished). The dialer
	// tells these apart with errors.Is (C11: tolerated on restore), so the
	// accessor must hand them up recognisably.
	zzWriteErr = nil
	switch zzNondetChoice("write.outcome", 3) {
	case 1:
		zzWriteErr = syscall.EACCES
	case 2:
		zzWriteErr = syscall.ENOENT
	}
	werr := setIPv6Autoconf("eth7", enable)
	if zzWriteErr != nil {
		zzAssert(werr != nil, "write-error-returned")
		zzAssert(errors.Is(werr, os.ErrPermission) == (zzWriteErr == syscall.EACCES), "permission-denied-stays-recognisable")
		zzAssert(errors.Is(werr, os.ErrNotExist) == (zzWriteErr == syscall.ENOENT), "vanished-interface-stays-recognisable")
		zzWriteErr = nil
		return
	}
	zzAssert(werr == nil, "write-ok")
	zzAssert(zzWritePath == "/proc/sys/net/ipv6/conf/eth7/autoconf", "writes-this-interfaces-autoconf-sysctl")
	zzAssert(len(zzWriteData) == 1 && zzWriteData[0] == map[bool]byte{false: '0', true: '1'}[enable], "writes-0-or-1")
}
