package system

import (
	"io/fs"
	"errors"
	"net"
	"os"
)

// the interface list is environment
var zzInterfaces []net.Interface

func zzStub_net_Interfaces() ([]net.Interface, error) { return zzInterfaces, nil }

var (
	zzReadPath, zzWritePath string
	zzReadData, zzWriteData []byte
	zzReadErr               error
)

func zzStub_os_ReadFile(name string) ([]byte, error) {
	zzReadPath = name
	return zzReadData, zzReadErr
}

// zzWriteErr: what the next os.WriteFile returns (the kernel's answer).
var zzWriteErr error

func zzStub_os_WriteFile(name string, data []byte, perm os.FileMode) error {
	zzWritePath, zzWriteData = name, data
	if zzWriteErr != nil {
		return &fs.PathError{Op: "open", Path: name, Err: zzWriteErr}
	}
	return nil
}

// net.InterfaceByName is the environment: success, package net's "no such
// network interface" error (exactly as package net builds it), another
// OpError, or an opaque error.
var zzIfByNameKind int

func zzStub_net_InterfaceByName(name string) (*net.Interface, error) {
	switch zzIfByNameKind {
	case 0:
		return &net.Interface{Index: 2, Name: name}, nil
	case 1:
		return nil, &net.OpError{Op: "route", Net: "ip+net", Err: errors.New("no such network interface")}
	case 2:
		return nil, &net.OpError{Op: "route", Net: "ip+net", Err: errors.New("invalid network interface name")}
	default:
		return nil, zzErrOpaque
	}
}
