package system

import (
	"errors"
)

// H10g: lookupInterface classifies a missing interface as link-not-ready
// (recoverable: the dialer waits for it to appear) and every other lookup
// failure as an ordinary, non-recoverable error.
func zzH10g() {
	zzIfByNameKind = zzNondetChoice("lookup-outcome", 4)
	ifi, err := lookupInterface("eth0")
	switch zzIfByNameKind {
	case 0:
		zzAssert(err == nil && ifi != nil && ifi.Name == "eth0" && ifi.Index == 2, "found-interface-returned")
	case 1:
		zzAssert(ifi == nil && err != nil && errors.Is(err, ErrLinkNotReady), "missing-interface-is-link-not-ready")
	default:
		zzAssert(ifi == nil && err != nil && !errors.Is(err, ErrLinkNotReady), "other-lookup-failure-is-not-link-not-ready")
	}
}
