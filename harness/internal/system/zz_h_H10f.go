package system

import (
	"errors"
	"net"
)

func zzH10f() {
	flags := net.Flags(zzNondetUint32("flags"))
	ifi := &net.Interface{Index: 2, Name: "eth0", Flags: flags}
	n := zzNondetChoice("naddrs", 3)
	listFail := zzNondetChoice("addrs.fail", 2) == 1
	var addrs []net.Addr
	hasLL := false
	for i := 0; i < n; i++ {
		name := "a" + string(rune('0'+i))
		switch zzNondetChoice(name+".kind", 3) {
		case 0:
			a := zzNondetAddr6(name)
			b := a.As16()
			addrs = append(addrs, &net.IPNet{IP: net.IP(b[:]), Mask: net.CIDRMask(64, 128)})
			hasLL = zzOr(hasLL, zzAnd(b[0] == 0xfe, b[1]&0xc0 == 0x80))
		case 1:
			a := zzNondetAddr4(name)
			b := a.As4()
			addrs = append(addrs, &net.IPNet{IP: net.IP(b[:]), Mask: net.CIDRMask(24, 32)})
		default:
			addrs = append(addrs, &net.IPAddr{IP: net.ParseIP("fe80::1")})
		}
	}
	err := checkInterface(ifi, func() ([]net.Addr, error) {
		if listFail {
			return nil, zzErrOpaque
		}
		return addrs, nil
	})
	up := flags&net.FlagUp != 0
	if !up {
		zzAssert(err != nil && errors.Is(err, ErrLinkNotReady), "not-up-is-link-not-ready")
		return
	}
	if listFail {
		zzAssert(err != nil && !errors.Is(err, ErrLinkNotReady), "address-listing-failure-is-not-link-not-ready")
		return
	}
	if err == nil {
		zzAssert(hasLL, "ready-only-with-an-ipv6-link-local-address")
	} else {
		zzAssert(zzNot(hasLL), "not-ready-only-without-link-local")
		zzAssert(errors.Is(err, ErrLinkNotReady), "no-link-local-is-link-not-ready")
	}
}
