package crhttp

import (
	"encoding/json"
	"errors"
	"net/http"
	"time"
)

var (
	zzPatterns []string
	zzEncoded  []any
	zzErrors   []int
)

func zzStub_http_ServeMux_Handle(mux *http.ServeMux, pattern string, h http.Handler) {
	zzPatterns = append(zzPatterns, pattern)
}

func zzStub_http_ServeMux_HandleFunc(mux *http.ServeMux, pattern string, h func(http.ResponseWriter, *http.Request)) {
	zzPatterns = append(zzPatterns, pattern)
}

func zzStub_json_Encoder_Encode(e *json.Encoder, v any) error {
	zzEncoded = append(zzEncoded, v)
	return nil
}

func zzStub_http_Error(w http.ResponseWriter, msg string, code int) {
	zzErrors = append(zzErrors, code)
}

func zzStub_http_Header_Set(h http.Header, k, v string) {}

type zzWriter struct{}

func (zzWriter) Header() http.Header { return http.Header{} }

func (zzWriter) Write(b []byte) (int, error) { return len(b), nil }

func (zzWriter) WriteHeader(int) {}

type zzState struct {
	fwd  bool
	fail bool
}

var zzErrEnv = errors.New("zz: environment failure")

func (s zzState) IPv6Autoconf(string) (bool, error) { return false, nil }

func (s zzState) IPv6Forwarding(string) (bool, error) {
	if s.fail {
		return false, zzErrEnv
	}
	return s.fwd, nil
}

func (s zzState) SetIPv6Autoconf(string, bool) error { return nil }

// zzSecs: g is d in whole seconds as the JSON rendering computes it
// (int(d.Seconds()): float rounding may give one more above 2^23 s).
func zzSecs(g int, d time.Duration) bool {
	sec := int(d / time.Second)
	return zzOr(g == sec, zzAnd(d >= 8388608*time.Second, g == sec+1))
}

func zzHas(p string) bool {
	for _, x := range zzPatterns {
		if x == p {
			return true
		}
	}
	return false
}

// environment: the banner text and the mux dispatch are recorded, not executed
var zzMuxServed []string

func zzStub_build_Banner() string { return "CoreRAD banner" }

type zzRoutes struct{}

func (zzRoutes) ServeHTTP(w http.ResponseWriter, r *http.Request) {
	zzMuxServed = append(zzMuxServed, r.URL.Path)
}

type zzBodyWriter struct{ n *int }

func (zzBodyWriter) Header() http.Header { return http.Header{} }

func (w zzBodyWriter) Write(b []byte) (int, error) {
	*w.n += len(b)
	return len(b), nil
}

func (zzBodyWriter) WriteHeader(int) {}
