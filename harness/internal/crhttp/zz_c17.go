package crhttp

import (
	"encoding/json"
	"errors"
	"io"
	"log"
	"net"
	"net/http"
	"net/netip"
	"net/url"
	"time"

	"github.com/mdlayher/corerad/internal/config"
	"github.com/mdlayher/corerad/internal/plugin"
	"github.com/mdlayher/corerad/internal/system"
	"github.com/mdlayher/ndp"
)

// ---- environment: HTTP plumbing is recorded, not executed ----

var (
	zzPatterns []string
	zzEncoded  []any
	zzErrors   []int
)

func zzStub_http_ServeMux_Handle(mux *http.ServeMux, pattern string, h http.Handler) {
	zzPatterns = append(zzPatterns, pattern)
}
func zzStub_http_ServeMux_HandleFunc(mux *http.ServeMux, pattern string, h func(http.ResponseWriter, *http.Request)) {
	zzPatterns = append(zzPatterns, pattern)
}
func zzStub_json_Encoder_Encode(e *json.Encoder, v any) error {
	zzEncoded = append(zzEncoded, v)
	return nil
}
func zzStub_http_Error(w http.ResponseWriter, msg string, code int) { zzErrors = append(zzErrors, code) }
func zzStub_http_Header_Set(h http.Header, k, v string)              {}

type zzWriter struct{}

func (zzWriter) Header() http.Header         { return http.Header{} }
func (zzWriter) Write(b []byte) (int, error) { return len(b), nil }
func (zzWriter) WriteHeader(int)             {}

type zzState struct {
	fwd  bool
	fail bool
}

var zzErrEnv = errors.New("zz: environment failure")

func (s zzState) IPv6Autoconf(string) (bool, error) { return false, nil }
func (s zzState) IPv6Forwarding(string) (bool, error) {
	if s.fail {
		return false, zzErrEnv
	}
	return s.fwd, nil
}
func (s zzState) SetIPv6Autoconf(string, bool) error { return nil }

// zzSecs: g is d in whole seconds as the JSON rendering computes it
// (int(d.Seconds()): float rounding may give one more above 2^23 s).
func zzSecs(g int, d time.Duration) bool {
	sec := int(d / time.Second)
	return zzOr(g == sec, zzAnd(d >= 8388608*time.Second, g == sec+1))
}

func zzHas(p string) bool {
	for _, x := range zzPatterns {
		if x == p {
			return true
		}
	}
	return false
}

// H17c: /metrics and /debug/pprof are served only when enabled; the
// interfaces API always.
func zzH17c() {
	zzPatterns = nil
	prom, pp := zzNondetChoice("prometheus", 2) == 1, zzNondetChoice("pprof", 2) == 1
	cfg := config.Config{Debug: config.Debug{Address: "localhost:9430", Prometheus: prom, PProf: pp}}
	NewHandler(log.New(io.Discard, "", 0), zzState{}, cfg, http.NotFoundHandler())
	zzAssert(zzHas("/_/api/interfaces"), "interfaces-api-always")
	zzAssert(zzHas("/metrics") == prom, "metrics-iff-prometheus-enabled")
	for _, p := range []string{"/debug/pprof/", "/debug/pprof/cmdline", "/debug/pprof/profile", "/debug/pprof/symbol", "/debug/pprof/trace"} {
		zzAssert(zzHas(p) == pp, "pprof-iff-enabled")
	}
	n := 1
	if prom {
		n++
	}
	if pp {
		n += 5
	}
	zzAssert(len(zzPatterns) == n, "nothing-else-registered")
}

// H17b: the debug API renders every option kind CoreRAD can advertise and
// mirrors the RA that would be sent now; before initialisation an error
// response is the acceptable alternative; it never panics.
func zzH17b() {
	epoch := zzNondetInstant("epoch", false)
	now := zzNondetInstant("now", false)
	zzAssume(zzNot(now.Before(epoch)))
	adv := config.ZZFullInterface("lan0", epoch)
	prepared := zzNondetChoice("prepared", 2) == 1
	if prepared {
		addrs := []system.IP{{Address: netip.MustParsePrefix("2001:db8:a::1/64"), ValidForever: true}}
		routes := []system.Route{{Prefix: netip.MustParsePrefix("2001:db8:b::/48")}}
		for _, p := range adv.Plugins {
			switch p := p.(type) {
			case *plugin.Prefix:
				p.TimeNow = func() time.Time { return now }
				p.Addrs = func() ([]system.IP, error) { return addrs, nil }
			case *plugin.Route:
				p.TimeNow = func() time.Time { return now }
				p.Routes = func() ([]system.Route, error) { return routes, nil }
			case *plugin.RDNSS:
				p.Addrs = func() ([]system.IP, error) { return addrs, nil }
			case *plugin.LLA:
				p.Addr = net.HardwareAddr{2, 0, 0, 0, 0, 1}
			}
		}
	}
	st := zzState{fwd: zzNondetBool("forwarding"), fail: zzNondetChoice("state.fail", 2) == 1}
	h := &Handler{ll: log.New(io.Discard, "", 0), state: st, ifaces: []config.Interface{{Name: "wan0", Monitor: true}, adv}}
	zzEncoded, zzErrors = nil, nil
	zzKnownClass("pref64-in-debug-api", true)
	h.interfaces(zzWriter{}, nil) // must not panic
	if len(zzErrors) > 0 {
		zzAssert(!prepared || st.fail, "error-response-only-before-initialisation-or-on-state-failure")
		zzAssert(len(zzEncoded) == 0, "no-body-after-error")
		return
	}
	zzAssert(len(zzEncoded) == 1, "one-json-body")
	if len(zzEncoded) != 1 {
		return
	}
	body, ok := zzEncoded[0].(interfacesBody)
	zzAssert(ok && len(body.Interfaces) == 2, "both-interfaces-listed")
	if !ok || len(body.Interfaces) != 2 {
		return
	}
	zzAssert(body.Interfaces[0].Interface == "wan0" && !body.Interfaces[0].Advertising && body.Interfaces[0].Advertisement == nil, "monitor-interface-has-no-advertisement")
	got := body.Interfaces[1].Advertisement
	zzAssert(body.Interfaces[1].Interface == "lan0" && body.Interfaces[1].Advertising && got != nil, "advertising-interface-rendered")
	if got == nil {
		return
	}
	want, _, err := adv.RouterAdvertisement(st.fwd)
	zzAssert(err == nil, "ra-generates")
	if err != nil {
		return
	}
	zzAssert(got.CurrentHopLimit == int(want.CurrentHopLimit) && got.ManagedConfiguration == want.ManagedConfiguration &&
		got.OtherConfiguration == want.OtherConfiguration, "header-fields")
	zzAssert(zzSecs(got.RouterLifetimeSeconds, want.RouterLifetime), "router-lifetime-seconds")
	np, nr, nd, ns, n64 := 0, 0, 0, 0, 0
	for _, o := range want.Options {
		switch o := o.(type) {
		case *ndp.PrefixInformation:
			if np < len(got.Options.Prefixes) {
				g := got.Options.Prefixes[np]
				zzAssert(zzAnd(zzSecs(g.ValidLifetimeSeconds, o.ValidLifetime), zzSecs(g.PreferredLifetimeSeconds, o.PreferredLifetime)), "prefix-lifetimes-seconds")
				zzAssert(g.OnLink == o.OnLink && g.AutonomousAddressAutoconfiguration == o.AutonomousAddressConfiguration, "prefix-flags")
			}
			np++
		case *ndp.RouteInformation:
			if nr < len(got.Options.Routes) {
				zzAssert(zzSecs(got.Options.Routes[nr].RouteLifetimeSeconds, o.RouteLifetime), "route-lifetime-seconds")
			}
			nr++
		case *ndp.RecursiveDNSServer:
			if ns < len(got.Options.RDNSS) {
				zzAssert(zzAnd(zzSecs(got.Options.RDNSS[ns].LifetimeSeconds, o.Lifetime), len(got.Options.RDNSS[ns].Servers) == len(o.Servers)), "rdnss")
			}
			ns++
		case *ndp.DNSSearchList:
			nd++
		case *ndp.MTU:
			zzAssert(got.Options.MTU == int(o.MTU), "mtu")
		case *ndp.CaptivePortal:
			zzAssert(got.Options.CaptivePortal == o.URI, "captive-portal")
		case *ndp.PREF64:
			if n64 < len(got.Options.PREF64) {
				zzAssert(zzSecs(got.Options.PREF64[n64].LifetimeSeconds, o.Lifetime), "pref64-lifetime")
			}
			n64++
		}
	}
	zzAssert(len(got.Options.Prefixes) == np && len(got.Options.Routes) == nr && len(got.Options.RDNSS) == ns && len(got.Options.DNSSL) == nd && len(got.Options.PREF64) == n64, "one-rendering-per-option")
	zzAssert(n64 == 1 && np >= 2 && nr >= 1, "every-configured-kind-present")
}

// environment: the banner text and the mux dispatch are recorded, not executed
var zzMuxServed []string

func zzStub_build_Banner() string { return "CoreRAD banner" }

type zzRoutes struct{}

func (zzRoutes) ServeHTTP(w http.ResponseWriter, r *http.Request) {
	zzMuxServed = append(zzMuxServed, r.URL.Path)
}

type zzBodyWriter struct{ n *int }

func (zzBodyWriter) Header() http.Header { return http.Header{} }
func (w zzBodyWriter) Write(b []byte) (int, error) {
	*w.n += len(b)
	return len(b), nil
}
func (zzBodyWriter) WriteHeader(int) {}

// H17d: every request except "/" is dispatched to the routes registered by
// NewHandler (so what H17c establishes about the registered routes is what is
// served); "/" answers with the banner and nothing else.
func zzH17d() {
	zzPatterns, zzMuxServed = nil, nil
	cfg := config.Config{Debug: config.Debug{Address: "localhost:9430"}}
	h := NewHandler(log.New(io.Discard, "", 0), zzState{}, cfg, http.NotFoundHandler())
	_, isMux := h.h.(*http.ServeMux)
	zzAssert(isMux, "handler-dispatches-through-the-mux-the-routes-were-registered-on")
	h.h = zzRoutes{} // the mux itself is package net/http: recorded, not executed
	paths := []string{"/", "/metrics", "/debug/pprof/", "/_/api/interfaces", "/other"}
	p := paths[zzNondetChoice("path", len(paths))]
	n := 0
	h.ServeHTTP(zzBodyWriter{n: &n}, &http.Request{Method: "GET", URL: &url.URL{Path: p}})
	if p == "/" {
		zzAssert(len(zzMuxServed) == 0 && n > 0, "root-answers-with-the-banner-only")
	} else {
		zzAssert(len(zzMuxServed) == 1 && zzMuxServed[0] == p && n == 0, "everything-else-goes-through-the-registered-routes")
	}
}
