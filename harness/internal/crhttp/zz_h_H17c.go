package crhttp

import (
	"github.com/mdlayher/corerad/internal/config"
	"io"
	"log"
	"net/http"
)

// H17c: /metrics and /debug/pprof are served only when enabled; the
// interfaces API always.
func zzH17c() {
	zzPatterns = nil
	prom, pp := zzNondetChoice("prometheus", 2) == 1, zzNondetChoice("pprof", 2) == 1
	cfg := config.Config{Debug: config.Debug{Address: "localhost:9430", Prometheus: prom, PProf: pp}}
	NewHandler(log.New(io.Discard, "", 0), zzState{}, cfg, http.NotFoundHandler())
	zzAssert(zzHas("/_/api/interfaces"), "interfaces-api-always")
	zzAssert(zzHas("/metrics") == prom, "metrics-iff-prometheus-enabled")
	for _, p := range []string{"/debug/pprof/", "/debug/pprof/cmdline", "/debug/pprof/profile", "/debug/pprof/symbol", "/debug/pprof/trace"} {
		zzAssert(zzHas(p) == pp, "pprof-iff-enabled")
	}
	n := 1
	if prom {
		n++
	}
	if pp {
		n += 5
	}
	zzAssert(len(zzPatterns) == n, "nothing-else-registered")
}
