package crhttp

import (
	"io"
	"log"
	"time"

	"github.com/mdlayher/corerad/internal/config"
)

// H17f: the debug API before the interface was ever initialised, for an
// interface that carries the stanzas of one kind only (every kind is the
// first plugin that needs run-time state at least once): never a panic; an
// error response or a rendering.
func zzH17f() {
	epoch := time.Unix(1700000000, 0)
	kind := zzNondetChoice("stanza-kind", 9)
	adv := config.ZZKindInterface("lan0", kind, epoch)
	st := zzState{fwd: zzNondetBool("forwarding")}
	h := NewHandler(log.New(io.Discard, "", 0), st, config.Config{Interfaces: []config.Interface{adv}}, nil) // the real constructor (routes are recorded, not served)
	zzEncoded, zzErrors = nil, nil
	h.interfaces(zzWriter{}, nil) // must not panic (implicit obligation)
	zzAssert(len(zzEncoded)+len(zzErrors) == 1, "one-response-body-or-one-error")
	// only the kinds that need run-time state may fail before initialisation
	needsState := kind >= 5
	zzAssert(zzImplies(len(zzErrors) == 1, needsState), "error-only-for-stanzas-that-need-run-time-state")
}
