package crhttp

import (
	"github.com/mdlayher/corerad/internal/config"
	"io"
	"log"
	"net/http"
	"net/url"
)

// H17d: every request except "/" is dispatched to the routes registered by
// NewHandler (so what H17c establishes about the registered routes is what is
// served); "/" answers with the banner and nothing else.
func zzH17d() {
	zzPatterns, zzMuxServed = nil, nil
	cfg := config.Config{Debug: config.Debug{Address: "localhost:9430"}}
	h := NewHandler(log.New(io.Discard, "", 0), zzState{}, cfg, http.NotFoundHandler())
	_, isMux := h.h.(*http.ServeMux)
	zzAssert(isMux, "handler-dispatches-through-the-mux-the-routes-were-registered-on")
	h.h = zzRoutes{} // the mux itself is package net/http: recorded, not executed
	paths := []string{"/", "/metrics", "/debug/pprof/", "/_/api/interfaces", "/other"}
	p := paths[zzNondetChoice("path", len(paths))]
	n := 0
	h.ServeHTTP(zzBodyWriter{n: &n}, &http.Request{Method: "GET", URL: &url.URL{Path: p}})
	if p == "/" {
		zzAssert(len(zzMuxServed) == 0 && n > 0, "root-answers-with-the-banner-only")
	} else {
		zzAssert(len(zzMuxServed) == 1 && zzMuxServed[0] == p && n == 0, "everything-else-goes-through-the-registered-routes")
	}
}
