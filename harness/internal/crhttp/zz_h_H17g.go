package crhttp

import (
	"io"
	"log"
	"net"
	"net/netip"
	"time"

	"github.com/mdlayher/corerad/internal/config"
	"github.com/mdlayher/corerad/internal/plugin"
	"github.com/mdlayher/ndp"
)

// H17g: successive debug-API requests mirror the RA that would be sent *at
// that moment*: a request before the interface is initialised (no source
// link-layer address yet) followed by one after initialisation, or after a
// re-initialisation with another hardware address, or after forwarding
// flipped, never repeats an earlier answer.
func zzH17g() {
	lla := &plugin.LLA{}
	adv := config.Interface{Name: "lan0", Advertise: true, HopLimit: 64, DefaultLifetime: 1800 * time.Second,
		MinInterval: 200 * time.Second, MaxInterval: 600 * time.Second,
		Plugins: []plugin.Plugin{
			&plugin.Prefix{Prefix: netip.MustParsePrefix("2001:db8::/64"), OnLink: true, Autonomous: true, ValidLifetime: 24 * time.Hour, PreferredLifetime: 4 * time.Hour},
			lla,
		}}
	fwd := zzNondetBool("forwarding.first")
	st := &zzFlipState{fwd: fwd}
	h := NewHandler(log.New(io.Discard, "", 0), st, config.Config{Interfaces: []config.Interface{adv}}, nil) // the real constructor (routes are recorded, not served)
	ask := func() *routerAdvertisement {
		zzEncoded, zzErrors = nil, nil
		h.interfaces(zzWriter{}, nil)
		if len(zzEncoded) != 1 {
			zzAssert(false, "one-json-body")
			return nil
		}
		b, ok := zzEncoded[0].(interfacesBody)
		if !ok || len(b.Interfaces) != 1 {
			zzAssert(false, "one-interface")
			return nil
		}
		return b.Interfaces[0].Advertisement
	}
	first := ask()
	if first == nil {
		return
	}
	zzAssert(first.Options.SourceLinkLayerAddress == "", "no-source-lla-before-initialisation")
	zzAssert(first.RouterLifetimeSeconds == zzIte(fwd, 1800, 0), "first-lifetime-follows-forwarding")
	// the interface is (re)initialised, and forwarding may flip
	macs := []net.HardwareAddr{{2, 0, 0, 0, 0, 1}, {2, 0, 0, 0, 0, 2}}
	for i, mac := range macs {
		lla.Addr = mac
		st.fwd = zzNondetBool("forwarding.later")
		got := ask()
		if got == nil {
			return
		}
		zzAssert(got.Options.SourceLinkLayerAddress == (&ndp.LinkLayerAddress{Addr: mac}).Addr.String(), "source-lla-of-the-current-initialisation")
		zzAssert(got.RouterLifetimeSeconds == zzIte(st.fwd, 1800, 0), "lifetime-follows-forwarding-at-the-time-of-the-request")
		_ = i
	}
}

type zzFlipState struct{ fwd bool }

func (s *zzFlipState) IPv6Autoconf(string) (bool, error)     { return false, nil }
func (s *zzFlipState) IPv6Forwarding(string) (bool, error)   { return s.fwd, nil }
func (s *zzFlipState) SetIPv6Autoconf(string, bool) error    { return nil }
