package crhttp

import (
	"github.com/mdlayher/corerad/internal/config"
	"github.com/mdlayher/corerad/internal/plugin"
	"github.com/mdlayher/corerad/internal/system"
	"github.com/mdlayher/ndp"
	"io"
	"log"
	"net"
	"net/netip"
	"time"
)

// H17b: the debug API renders every option kind CoreRAD can advertise and
// mirrors the RA that would be sent now; before initialisation an error
// response is the acceptable alternative; it never panics.
func zzH17b() {
	epoch := zzNondetInstant("epoch", false)
	now := zzNondetInstant("now", false)
	zzAssume(zzNot(now.Before(epoch)))
	adv := config.ZZFullInterface("lan0", epoch)
	prepared := zzNondetChoice("prepared", 2) == 1
	if prepared {
		addrs := []system.IP{{Address: netip.MustParsePrefix("2001:db8:a::1/64"), ValidForever: true}}
		routes := []system.Route{{Prefix: netip.MustParsePrefix("2001:db8:b::/48")}}
		for _, p := range adv.Plugins {
			switch p := p.(type) {
			case *plugin.Prefix:
				p.TimeNow = func() time.Time { return now }
				p.Addrs = func() ([]system.IP, error) { return addrs, nil }
			case *plugin.Route:
				p.TimeNow = func() time.Time { return now }
				p.Routes = func() ([]system.Route, error) { return routes, nil }
			case *plugin.RDNSS:
				p.Addrs = func() ([]system.IP, error) { return addrs, nil }
			case *plugin.LLA:
				p.Addr = net.HardwareAddr{2, 0, 0, 0, 0, 1}
			}
		}
	}
	st := zzState{fwd: zzNondetBool("forwarding"), fail: zzNondetChoice("state.fail", 2) == 1}
	h := NewHandler(log.New(io.Discard, "", 0), st, config.Config{Interfaces: []config.Interface{{Name: "wan0", Monitor: true}, adv}}, nil) // the real constructor (routes are recorded, not served)
	zzEncoded, zzErrors = nil, nil
	zzKnownClass("pref64-in-debug-api", true)
	h.interfaces(zzWriter{}, nil) // must not panic
	if len(zzErrors) > 0 {
		zzAssert(!prepared || st.fail, "error-response-only-before-initialisation-or-on-state-failure")
		zzAssert(len(zzEncoded) == 0, "no-body-after-error")
		return
	}
	zzAssert(len(zzEncoded) == 1, "one-json-body")
	if len(zzEncoded) != 1 {
		return
	}
	body, ok := zzEncoded[0].(interfacesBody)
	zzAssert(ok && len(body.Interfaces) == 2, "both-interfaces-listed")
	if !ok || len(body.Interfaces) != 2 {
		return
	}
	zzAssert(body.Interfaces[0].Interface == "wan0" && !body.Interfaces[0].Advertising && body.Interfaces[0].Advertisement == nil, "monitor-interface-has-no-advertisement")
	got := body.Interfaces[1].Advertisement
	zzAssert(body.Interfaces[1].Interface == "lan0" && body.Interfaces[1].Advertising && got != nil, "advertising-interface-rendered")
	if got == nil {
		return
	}
	want, _, err := adv.RouterAdvertisement(st.fwd)
	zzAssert(err == nil, "ra-generates")
	if err != nil {
		return
	}
	zzAssert(got.CurrentHopLimit == int(want.CurrentHopLimit) && got.ManagedConfiguration == want.ManagedConfiguration &&
		got.OtherConfiguration == want.OtherConfiguration, "header-fields")
	zzAssert(zzSecs(got.RouterLifetimeSeconds, want.RouterLifetime), "router-lifetime-seconds")
	np, nr, nd, ns, n64 := 0, 0, 0, 0, 0
	for _, o := range want.Options {
		switch o := o.(type) {
		case *ndp.PrefixInformation:
			if np < len(got.Options.Prefixes) {
				g := got.Options.Prefixes[np]
				zzAssert(zzAnd(zzSecs(g.ValidLifetimeSeconds, o.ValidLifetime), zzSecs(g.PreferredLifetimeSeconds, o.PreferredLifetime)), "prefix-lifetimes-seconds")
				zzAssert(g.OnLink == o.OnLink && g.AutonomousAddressAutoconfiguration == o.AutonomousAddressConfiguration, "prefix-flags")
			}
			np++
		case *ndp.RouteInformation:
			if nr < len(got.Options.Routes) {
				zzAssert(zzSecs(got.Options.Routes[nr].RouteLifetimeSeconds, o.RouteLifetime), "route-lifetime-seconds")
			}
			nr++
		case *ndp.RecursiveDNSServer:
			if ns < len(got.Options.RDNSS) {
				zzAssert(zzAnd(zzSecs(got.Options.RDNSS[ns].LifetimeSeconds, o.Lifetime), len(got.Options.RDNSS[ns].Servers) == len(o.Servers)), "rdnss")
			}
			ns++
		case *ndp.DNSSearchList:
			nd++
		case *ndp.MTU:
			zzAssert(got.Options.MTU == int(o.MTU), "mtu")
		case *ndp.CaptivePortal:
			zzAssert(got.Options.CaptivePortal == o.URI, "captive-portal")
		case *ndp.PREF64:
			if n64 < len(got.Options.PREF64) {
				zzAssert(zzSecs(got.Options.PREF64[n64].LifetimeSeconds, o.Lifetime), "pref64-lifetime")
			}
			n64++
		}
	}
	zzAssert(len(got.Options.Prefixes) == np && len(got.Options.Routes) == nr && len(got.Options.RDNSS) == ns && len(got.Options.DNSSL) == nd && len(got.Options.PREF64) == n64, "one-rendering-per-option")
	zzAssert(n64 == 1 && np >= 2 && nr >= 1, "every-configured-kind-present")
}
