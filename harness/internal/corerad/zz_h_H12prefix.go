package corerad

import (
	"github.com/mdlayher/ndp"
)

// H12prefix: up to n prefix options per side (plus an unrelated option).
func zzH12prefix() {
	n := zzParam("n")
	a, b := &ndp.RouterAdvertisement{}, &ndp.RouterAdvertisement{}
	na, nb := zzNondetChoice("a.n", n+1), zzNondetChoice("b.n", n+1)
	var pa, pb []*ndp.PrefixInformation
	for i := 0; i < na; i++ {
		p := zzNondetPI("a"+string(rune('0'+i)), true)
		pa = append(pa, p)
		a.Options = append(a.Options, p)
	}
	b.Options = append(b.Options, ndp.NewMTU(1500))
	for i := 0; i < nb; i++ {
		p := zzNondetPI("b"+string(rune('0'+i)), false)
		pb = append(pb, p)
		b.Options = append(b.Options, p)
	}
	ps := verifyRAs(a, b)
	wantPref, wantValid := 0, 0
	for _, x := range pa {
		for _, y := range pb {
			match := zzAnd(x.Prefix == y.Prefix, x.PrefixLength == y.PrefixLength)
			wantPref += zzB2I(zzAnd(match, zzDiffer(x.PreferredLifetime, y.PreferredLifetime)))
			wantValid += zzB2I(zzAnd(match, zzDiffer(x.ValidLifetime, y.ValidLifetime)))
		}
	}
	zzAssert(zzCount(ps, "prefix_information_preferred_lifetime") == wantPref, "preferred-lifetime-reports")
	zzAssert(zzCount(ps, "prefix_information_valid_lifetime") == wantValid, "valid-lifetime-reports")
	zzAssert(len(ps) == zzCount(ps, "prefix_information_preferred_lifetime")+zzCount(ps, "prefix_information_valid_lifetime"), "nothing-else")
}
