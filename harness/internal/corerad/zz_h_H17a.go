package corerad

import (
	"github.com/mdlayher/corerad/internal/config"
	"github.com/mdlayher/ndp"
)

// H17a: a Prometheus scrape at any point of the daemon's life.
func zzH17a() {
	epoch := zzNondetInstant("epoch", false)
	now := zzNondetInstant("now", false)
	zzAssume(zzNot(now.Before(epoch)))
	adv := config.ZZFullInterface("lan0", epoch)
	prepared := zzNondetChoice("prepared", 2) == 1
	if prepared {
		zzPrepare(&adv, now)
	}
	mon := config.Interface{Name: "wan0", Monitor: true}
	idle := config.Interface{Name: "idle0"}
	// order of the interfaces in the configuration
	var ifis []config.Interface
	switch zzNondetChoice("order", 3) {
	case 0:
		ifis = []config.Interface{adv, mon, idle}
	case 1:
		ifis = []config.Interface{mon, adv, idle}
	default:
		ifis = []config.Interface{idle, mon, adv}
	}
	st := &zzTwoState{fwd: map[string]bool{}, auto: map[string]bool{}}
	for _, n := range []string{"lan0", "wan0", "idle0"} {
		st.fwd[n], st.auto[n] = zzNondetBool(n+".forwarding"), zzNondetBool(n+".autoconf")
	}
	rec := &zzRec{}
	m := &Metrics{state: st, ifis: ifis}
	names := []string{ifiAdvertising, ifiAutoconfiguration, ifiForwarding, ifiMonitoring, advMisconfiguration,
		advDNSSLLifetime, advPrefixAutonomous, advPrefixOnLink, advPrefixValid, advPrefixPreferred, advRDNSSLifetime, advRouteLifetime}
	metrics := map[string]func(float64, ...string){}
	for _, n := range names {
		metrics[n] = rec.fn(n)
	}
	zzKnownClass("scrape-before-prepare", !prepared)
	err := m.constScrape(metrics) // must not panic (implicit obligation)
	if err != nil {
		zzAssert(!prepared, "scrape-error-only-before-initialisation")
		return
	}
	// the RA that would be sent at this moment
	want, ms, rerr := adv.RouterAdvertisement(st.fwd["lan0"])
	zzAssert(rerr == nil, "ra-generates")
	if rerr != nil {
		return
	}
	for _, n := range []string{"lan0", "wan0", "idle0"} {
		zzAssert(rec.countL(ifiAdvertising, n) == 1 && rec.countL(ifiMonitoring, n) == 1 &&
			rec.countL(ifiForwarding, n) == 1 && rec.countL(ifiAutoconfiguration, n) == 1, "four-interface-gauges-each")
	}
	for _, s := range rec.samples {
		iface := s.labels[0]
		switch s.metric {
		case ifiAdvertising:
			zzAssert(s.value == boolFloat(iface == "lan0"), "advertising-gauge")
		case ifiMonitoring:
			zzAssert(s.value == boolFloat(iface == "wan0"), "monitoring-gauge")
		case ifiForwarding:
			zzAssert(s.value == boolFloat(st.fwd[iface]), "forwarding-gauge")
		case ifiAutoconfiguration:
			zzAssert(s.value == boolFloat(st.auto[iface]), "autoconfiguration-gauge")
		default:
			// every advertised-content sample belongs to the advertising interface
			zzAssert(iface == "lan0", "ra-samples-only-for-the-advertising-interface")
		}
	}
	np, nr, nd, ns := 0, 0, 0, 0
	for _, o := range want.Options {
		switch o := o.(type) {
		case *ndp.PrefixInformation:
			np++
			label := cidrStr(o.Prefix, o.PrefixLength)
			zzAssert(rec.countL(advPrefixValid, "lan0", label) == 1 && rec.countL(advPrefixPreferred, "lan0", label) == 1 &&
				rec.countL(advPrefixOnLink, "lan0", label) == 1 && rec.countL(advPrefixAutonomous, "lan0", label) == 1, "four-samples-per-prefix")
			for _, s := range rec.samples {
				if len(s.labels) == 2 && s.labels[1] == label {
					switch s.metric {
					case advPrefixValid:
						zzAssert(s.value == o.ValidLifetime.Seconds(), "prefix-valid-seconds")
					case advPrefixPreferred:
						zzAssert(s.value == o.PreferredLifetime.Seconds(), "prefix-preferred-seconds")
					case advPrefixOnLink:
						zzAssert(s.value == boolFloat(o.OnLink), "prefix-on-link")
					case advPrefixAutonomous:
						zzAssert(s.value == boolFloat(o.AutonomousAddressConfiguration), "prefix-autonomous")
					}
				}
			}
		case *ndp.RouteInformation:
			nr++
			label := cidrStr(o.Prefix, o.PrefixLength)
			zzAssert(rec.countL(advRouteLifetime, "lan0", label) == 1, "one-sample-per-route")
			for _, s := range rec.samples {
				if s.metric == advRouteLifetime && s.labels[1] == label {
					zzAssert(s.value == o.RouteLifetime.Seconds(), "route-lifetime-seconds")
				}
			}
		case *ndp.RecursiveDNSServer:
			ns++
			for _, s := range rec.samples {
				if s.metric == advRDNSSLifetime {
					zzAssert(s.value == o.Lifetime.Seconds(), "rdnss-lifetime-seconds")
				}
			}
		case *ndp.DNSSearchList:
			nd++
			for _, s := range rec.samples {
				if s.metric == advDNSSLLifetime {
					zzAssert(s.value == o.Lifetime.Seconds(), "dnssl-lifetime-seconds")
				}
			}
		}
	}
	zzAssert(rec.count(advPrefixValid) == np && rec.count(advRouteLifetime) == nr && rec.count(advRDNSSLifetime) == ns && rec.count(advDNSSLLifetime) == nd, "one-sample-set-per-advertised-option")
	zzAssert(rec.count(advMisconfiguration) == len(ms), "misconfiguration-gauge-iff-misconfigured")
	if len(ms) == 1 {
		zzAssert(rec.countL(advMisconfiguration, "lan0", "interface_not_forwarding") == 1, "misconfiguration-labels")
	}
}
