package corerad

import (
	"context"
	"fmt"
	"os"
)

// H20e: the link watcher task: a watcher that is not available on this
// platform (os.ErrNotExist, however wrapped) is skipped with a log line and
// does not fail the server; any other watcher error fails it; a clean return
// is success; the task is ready at once.
func zzH20e() {
	rec := &zzRec{}
	cctx := zzNewContext(rec, &zzState{})
	kind := zzNondetChoice("watch-outcome", 4)
	t := &watcherTask{ll: cctx.ll, watch: func(ctx context.Context) error {
		switch kind {
		case 0:
			return nil
		case 1:
			return os.ErrNotExist
		case 2:
			return fmt.Errorf("netstate: watching: %w", os.ErrNotExist)
		}
		return zzErrEnv
	}}
	select {
	case <-t.Ready():
	default:
		zzAssert(false, "watcher-task-ready-at-once")
	}
	err := t.Run(context.Background())
	zzAssert((err != nil) == (kind == 3), "only-a-real-watcher-error-fails-the-task")
	zzAssert(zzLogCount("cannot watch for network state changes") == zzIte(kind == 1 || kind == 2, 1, 0), "unsupported-platform-logged")
}
