package corerad

import (
	"context"
	"github.com/mdlayher/corerad/internal/config"
	"github.com/mdlayher/corerad/internal/system"
	"github.com/mdlayher/ndp"
	"net"
	"net/netip"
)

// H08e: a solicitation arrives concurrently with the stop request; every
// schedule of the advertiser's goroutines (up to the budget) is explored:
// the advertiser still stops promptly, reports success and, when
// terminating, its last packet is the zero-lifetime RA.
func zzH08e() {
	cfg := zzCfg("eth0")
	cfg.UnicastOnly = false
	cfg.Verbose = false
	term := zzNondetChoice("terminate", 2) == 1
	fwd := zzNondetBool("forwarding")
	src := zzNondetAddr6("src")
	zzAssume(zzAnd(zzNot(src.IsMulticast()), zzNot(src.IsUnspecified())))
	// natively the outcome of the race is up to the runtime: repeated
	for trial := 0; trial < zzNativeTrials(30); trial++ {
		zzReplayRestart()
		zzH08eOnce(cfg, term, fwd, src)
	}
}

func zzH08eOnce(cfg config.Interface, term, fwd bool, src netip.Addr) {
	rec, st := &zzRec{}, &zzState{fwdFixed: &fwd}
	conn := &zzConn{blockWhenIdle: true}
	dialer := system.NewDialer("eth0", st, system.Advertise, nil)
	dialer.DialFunc = func() (*system.DialContext, error) {
		return &system.DialContext{Conn: conn, Interface: &net.Interface{Index: 2, Name: "eth0"}, IP: netip.MustParseAddr("fe80::1")}, nil
	}
	a := NewAdvertiser(zzNewContext(rec, st), cfg, dialer, nil, func() bool { return term })
	zzAfterBlock = true
	ctx, cancel := context.WithCancel(context.Background())
	var ret error
	returned := false
	go func() {
		ret = a.Run(ctx)
		returned = true
	}()
	zzWaitIdle()
	// the solicitation and the stop request race
	conn.inject <- zzRead{m: &ndp.RouterSolicitation{}, hop: 255, host: src}
	cancel()
	zzWaitIdle()
	zzAssert(returned, "stops-promptly-when-a-solicitation-arrives-concurrently")
	if !returned {
		return
	}
	zzAssert(ret == nil, "reports-success")
	if term {
		// the advertiser was running (its initial RA went out before the race
		// began), so terminating means a final RA after it
		zzAssert(len(conn.writes) >= 2, "final-ra-sent-on-termination")
		if len(conn.writes) >= 2 {
			lw := conn.writes[len(conn.writes)-1]
			zzAssert(zzAnd(lw.dst == netip.IPv6LinkLocalAllNodes(), lw.ra.RouterLifetime == 0), "last-packet-is-the-final-ra")
		}
	} else {
		for i, w := range conn.writes {
			if i > 0 {
				zzAssert(!w.dst.IsMulticast(), "no-final-ra-on-reload")
			}
		}
	}
}
