package corerad

import (
	"context"
	"github.com/mdlayher/ndp"
)

// H09a / H10c: receiveRetry against a scripted connection.
func zzH09a() {
	rec := &zzRec{}
	cctx := zzNewContext(rec, &zzState{})
	k := zzParam("k")
	conn := &zzConn{}
	rs := &ndp.RouterSolicitation{}
	ninvalid := zzNondetChoice("ninvalid", k) // 0..k-1 consecutive invalid messages first
	for i := 0; i < ninvalid; i++ {
		hop := int(zzNondetUint8("hop"))
		zzAssume(hop != 255)
		conn.reads = append(conn.reads, zzRead{m: rs, hop: hop, host: zzNondetAddr6("bad")})
	}
	good := zzNondetAddr6("good")
	conn.reads = append(conn.reads, zzRead{m: rs, hop: 255, host: good})
	l := newListener(cctx, "eth0", conn)
	zzKnownClass("five-or-more-consecutive-invalid", ninvalid >= 5)
	m, host, err := l.receiveRetry(context.Background())
	zzAssert(err == nil, "valid-message-after-invalid-run-is-served")
	if err == nil {
		zzAssert(zzAnd(m == ndp.Message(rs), host == good), "returns-the-valid-message")
		zzAssert(rec.countL("invalid", "eth0", "router solicitation") == ninvalid, "each-invalid-counted-once")
		zzAssert(len(rec.samples) == ninvalid, "nothing-else-counted")
	}
	zzAssert(len(zzAfterLog) == 0, "no-backoff-for-invalid-messages")
}
