package corerad

import (
	"github.com/mdlayher/corerad/internal/config"
)

// H12wireDep: the same for deprecated prefixes and routes, whose lifetimes
// count down from the epoch (arbitrary epoch <= now).
func zzH12wireDep() {
	epoch := zzNondetInstant("epoch", true)
	now := zzNondetInstant("now", true)
	zzAssume(zzNot(now.Before(epoch)))
	zzWire(config.ZZKindInterface("lan0", 5+zzNondetChoice("stanza-kind", 2), epoch), now)
}
