package corerad

import (
	"context"
	"github.com/mdlayher/ndp"
	"time"
)

// H10c: receive timeouts are retried up to 5 times with back-off i*50ms.
func zzH10c() {
	rec := &zzRec{}
	cctx := zzNewContext(rec, &zzState{})
	conn := &zzConn{}
	nt := zzNondetChoice("ntimeouts", 7) // 0..6 timeouts, then either a message or another error
	for i := 0; i < nt; i++ {
		conn.reads = append(conn.reads, zzRead{err: zzTimeout{}})
	}
	tail := zzNondetChoice("tail", 3)
	rs := &ndp.RouterSolicitation{}
	switch tail {
	case 0:
		conn.reads = append(conn.reads, zzRead{m: rs, hop: 255, host: zzNondetAddr6("good")})
	case 1:
		conn.reads = append(conn.reads, zzRead{err: zzNetErr{}})
	default:
		conn.reads = append(conn.reads, zzRead{err: zzErrEnv})
	}
	l := newListener(cctx, "eth0", conn)
	zzAfterLog = nil
	m, _, err := l.receiveRetry(context.Background())
	if nt >= 5 {
		zzAssert(err == errRetriesExhausted, "exhausted-after-5-timeouts")
		zzAssert(conn.nread == 5, "exactly-5-reads")
	} else {
		zzAssert(conn.nread == nt+1, "reads-until-non-timeout")
		switch tail {
		case 0:
			zzAssert(zzAnd(err == nil, m == ndp.Message(rs)), "message-after-timeouts")
		case 1:
			_, isNet := err.(zzNetErr)
			zzAssert(isNet, "non-timeout-net-error-returned-at-once")
		default:
			zzAssert(err == zzErrEnv, "other-error-returned-at-once")
		}
	}
	want := nt
	if want > 5 {
		want = 5
	}
	zzAssert(len(zzAfterLog) == want, "one-wait-per-timeout")
	for i, d := range zzAfterLog {
		zzAssert(d == time.Duration(i)*50*time.Millisecond, "backoff-i-times-50ms")
	}
}
