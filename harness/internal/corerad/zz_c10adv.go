package corerad

import (
	"context"
	"net"
	"net/netip"

	"github.com/mdlayher/corerad/internal/netstate"
	"github.com/mdlayher/corerad/internal/system"
)

// H10adv: a failure anywhere in a running advertiser tears all of its
// activities down together: after a receive error, a transmit error of a
// scheduled RA or a link-state change nothing of the old task is left when
// the connection is cleaned up; recoverable causes re-establish the task,
// unrecoverable ones end it with the error.
func zzH10adv() {
	rec, st := &zzRec{}, &zzState{}
	cfg := zzCfg("eth0")
	cfg.UnicastOnly = false
	cfg.Verbose = false
	dials := 0
	fault := zzNondetChoice("fault", 4)
	var conns []*zzConn
	goroutinesAtRedial := -1
	base := 0
	watchC := make(chan netstate.Change, 8)
	dialer := system.NewDialer("eth0", st, system.Advertise, nil)
	dialer.DialFunc = func() (*system.DialContext, error) {
		dials++
		if dials == 2 {
			goroutinesAtRedial = zzGoroutines()
		}
		c := &zzConn{blockWhenIdle: true}
		if fault == 3 && dials == 1 {
			// the link changes while the task is still initialising (during the
			// initial transmission): the event is about this connection
			c.onWrite = func(n int) {
				if n == 0 {
					watchC <- netstate.LinkDown
				}
			}
		}
		conns = append(conns, c)
		return &system.DialContext{Conn: c, Interface: &net.Interface{Index: 2, Name: "eth0"}, IP: netip.MustParseAddr("fe80::1")}, nil
	}
	a := NewAdvertiser(zzNewContext(rec, st), cfg, dialer, watchC, func() bool { return false })
	zzAfterBlock = true
	ctx, cancel := context.WithCancel(context.Background())
	var ret error
	returned := false
	go func() {
		ret = a.Run(ctx)
		returned = true
	}()
	base = zzGoroutines() // the Run goroutine itself
	zzWaitIdle()
	switch fault {
	case 0: // opaque receive error: not recoverable
		conns[0].inject <- zzRead{err: zzErrEnv}
	case 1: // link state change: recoverable
		watchC <- netstate.LinkDown
	case 3: // link change during initialisation: already delivered
	default: // the pending multicast RA is sent and fails: opaque, not recoverable
		conns[0].failWrite = true
		for _, t := range zzSG.tasks {
			zzFire(t)
		}
	}
	zzWaitIdle()
	if fault == 1 || fault == 3 {
		zzAssert(dials == 2, "recoverable-cause-re-establishes-the-task")
		zzAssert(!returned, "task-keeps-running-after-recovery")
		zzAssert(goroutinesAtRedial == base, "every-activity-of-the-old-task-stopped-before-reinitialising")
		cancel()
		zzWaitIdle()
		zzAssert(returned && ret == nil, "clean-return-on-cancellation")
	} else {
		zzAssert(returned, "unrecoverable-failure-ends-the-task")
		zzAssert(ret != nil, "failure-reported")
		zzAssert(dials == 1, "no-reinitialisation-for-unrecoverable-failure")
		cancel()
	}
	zzWaitIdle()
	zzAssert(zzGoroutines() == 0, "no-activity-left-behind")
}
