package corerad

import (
	"context"
	"net"
	"net/netip"

	"github.com/mdlayher/corerad/internal/netstate"
	"github.com/mdlayher/corerad/internal/system"
	"github.com/mdlayher/ndp"
)

// H10mon: the same for a monitor: a receive error or a link-state change
// stops every activity of the task together (also with an open link-state
// subscription, as the server always provides); invalid messages never reach
// the monitor metrics (C09).
func zzH10mon() {
	rec, st := &zzRec{}, &zzState{}
	dials := 0
	var conns []*zzConn
	goroutinesAtRedial, base := -1, 0
	dialer := system.NewDialer("eth1", st, system.Monitor, nil)
	early := zzNondetChoice("link-change-during-initialisation", 2) == 1
	var watchC chan netstate.Change
	if zzNondetChoice("subscribed", 2) == 1 {
		watchC = make(chan netstate.Change, 8)
	}
	dialer.DialFunc = func() (*system.DialContext, error) {
		dials++
		if dials == 2 {
			goroutinesAtRedial = zzGoroutines()
		}
		if early && watchC != nil && dials == 1 {
			// the link changes right after the socket was opened, before the
			// monitor has started its activities: the event is about this connection
			watchC <- netstate.LinkDown
		}
		c := &zzConn{blockWhenIdle: true}
		conns = append(conns, c)
		return &system.DialContext{Conn: c, Interface: &net.Interface{Index: 3, Name: "eth1"}, IP: netip.MustParseAddr("fe80::2")}, nil
	}
	m := NewMonitor(zzNewContext(rec, st), "eth1", dialer, watchC, false)
	ctx, cancel := context.WithCancel(context.Background())
	var ret error
	returned := false
	go func() {
		ret = m.Run(ctx)
		returned = true
	}()
	base = zzGoroutines()
	zzWaitIdle()
	if early && watchC != nil {
		zzAssert(dials == 2, "link-change-during-initialisation-re-establishes-the-task")
		zzAssert(!returned, "task-keeps-running-after-recovery")
		cancel()
		zzWaitIdle()
		zzAssert(returned && ret == nil, "clean-return-on-cancellation")
		zzAssert(zzGoroutines() == 0, "no-activity-left-behind")
		return
	}
	// an invalid message first: counted invalid, no monitor metric
	badHop := int(zzNondetUint8("hop"))
	zzAssume(badHop != 255)
	conns[0].inject <- zzRead{m: &ndp.RouterAdvertisement{RouterLifetime: 1800e9}, hop: badHop, host: zzNondetAddr6("bad")}
	zzWaitIdle()
	zzAssert(rec.countL("invalid", "eth1", "router advertisement") == 1, "invalid-message-counted")
	zzAssert(rec.count("mon_received") == 0 && rec.count("mon_default_route") == 0, "invalid-message-never-reaches-monitor-metrics")
	fault := zzNondetChoice("fault", 3)
	if fault == 1 && watchC == nil {
		fault = 0
	}
	switch fault {
	case 0: // opaque receive error: not recoverable
		conns[0].inject <- zzRead{err: zzErrEnv}
	case 1: // link state change: recoverable
		watchC <- netstate.LinkDown
	default: // non-timeout network error: not recoverable
		conns[0].inject <- zzRead{err: zzNetErr{}}
	}
	zzWaitIdle()
	if fault == 1 {
		zzAssert(dials == 2, "recoverable-cause-re-establishes-the-task")
		zzAssert(!returned, "task-keeps-running-after-recovery")
		zzAssert(goroutinesAtRedial == base, "every-activity-of-the-old-task-stopped-before-reinitialising")
		cancel()
		zzWaitIdle()
		zzAssert(returned && ret == nil, "clean-return-on-cancellation")
	} else {
		zzAssert(returned, "receive-failure-ends-the-task")
		zzAssert(ret != nil, "failure-reported")
		cancel()
	}
	zzWaitIdle()
	zzAssert(zzGoroutines() == 0, "no-activity-left-behind")
}
