package corerad

import (
	"github.com/mdlayher/corerad/internal/config"
	"time"
)

// H05a: multicastDelay for every index, every (min,max) pair the real parser
// accepts (nanosecond granularity, explicit and defaulted min) and every
// random draw.
func zzH05a() {
	i := zzNondetInt("i")
	zzAssume(i >= 0)
	min, max := config.ZZAcceptedIntervals()
	zzCover("accepted-pair")
	d := multicastDelay(nil, i, min, max)

	// declarative facts from the statement
	zzAssert(d > 0, "positive")
	zzAssert(d%time.Second == 0, "whole-seconds")
	zzAssert(d <= zzRoundSec(max), "at-most-max")
	capped := zzAnd(i < 3, zzRoundSec(min) > 16*time.Second)
	zzAssert(zzOr(d >= zzRoundSec(min), capped), "at-least-min")
	zzAssert(zzImplies(i < 3, d <= 16*time.Second), "initial-cap")
	zzAssert(zzImplies(capped, d == 16*time.Second), "cap-is-16s")
	// uncapped values are never reduced: with i >= 3 the wait can exceed 16s
	zzAssert(zzImplies(zzAnd(i >= 3, min > 17*time.Second), d > 16*time.Second), "no-cap-after-initial")
}
