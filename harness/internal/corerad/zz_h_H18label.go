package corerad

import (
	"net/netip"

	"github.com/mdlayher/ndp"
)

// H18label: the label helpers the other harnesses use as given: a prefix or
// route is labelled in CIDR form (address as written by netip, "/", length),
// booleans map to 1 / 0. Concrete table (label formatting of a symbolic
// address is outside the string model).
func zzH18label() {
	cases := []struct {
		addr string
		bits uint8
		want string
	}{
		{"2001:db8::", 64, "2001:db8::/64"},
		{"2001:db8:0:1::", 64, "2001:db8:0:1::/64"},
		{"::", 0, "::/0"},
		{"fd00::", 8, "fd00::/8"},
		{"2001:db8::1", 128, "2001:db8::1/128"},
		{"fe80::", 10, "fe80::/10"},
	}
	c := cases[zzNondetChoice("case", len(cases))]
	a := netip.MustParseAddr(c.addr)
	zzAssert(cidrStr(a, c.bits) == c.want, "cidr-form")
	zzAssert(prefixStr(&ndp.PrefixInformation{Prefix: a, PrefixLength: c.bits}) == c.want, "prefix-label-is-cidr-form")
	zzAssert(routeStr(&ndp.RouteInformation{Prefix: a, PrefixLength: c.bits}) == c.want, "route-label-is-cidr-form")
	zzAssert(boolFloat(true) == 1 && boolFloat(false) == 0, "bool-gauge-values")
}
