package corerad

import (
	"github.com/mdlayher/ndp"
	"net/netip"
)

// H07a/H09b: handle for solicitations and for other message types.
func zzH07a() {
	rec, st := &zzRec{}, &zzState{}
	cfg := zzCfg("eth0")
	a := zzAdvertiser(rec, st, cfg)
	var host netip.Addr
	switch zzNondetChoice("host.kind", 2) {
	case 0:
		host = zzNondetAddr6("host")
	default:
		host = netip.IPv6Unspecified()
	}
	kind := zzNondetChoice("kind", 3)
	switch kind {
	case 0:
		rs := &ndp.RouterSolicitation{}
		if zzNondetChoice("lla", 2) == 1 {
			rs.Options = append(rs.Options, &ndp.LinkLayerAddress{Direction: ndp.Source, Addr: []byte{2, 0, 0, 0, 0, 1}})
		}
		ip, err := a.handle(rs, host)
		zzAssert(err == nil, "rs-no-error")
		unspec := host.As16() == [16]byte{}
		zzAssert(ip == zzIte(unspec, netip.IPv6LinkLocalAllNodes(), host), "rs-destination")
		zzAssert(rec.countL("adv_received", "eth0", "router solicitation") == 1, "rs-counted-received")
		zzAssert(len(rec.samples) == 1, "rs-nothing-else-counted")
		zzAssert(len(st.fwdCalls) == 0, "rs-builds-no-ra")
	default:
		var m ndp.Message
		tname := "neighbor solicitation"
		if kind == 1 {
			m = &ndp.NeighborSolicitation{TargetAddress: zzNondetAddr6("target")}
		} else {
			m = &ndp.NeighborAdvertisement{TargetAddress: zzNondetAddr6("target")}
			tname = "neighbor advertisement"
		}
		ip, err := a.handle(m, host)
		zzAssert(err == nil, "other-no-error")
		zzAssert(zzNot(ip.IsValid()), "other-triggers-no-ra")
		zzAssert(rec.countL("invalid", "eth0", tname) == 1, "other-counted-invalid")
		zzAssert(len(st.fwdCalls) == 0, "other-no-consistency-check")
	}
}
