package corerad

import (
	"github.com/mdlayher/ndp"
	"net/netip"
	"time"
)

// H12oracle: zzOnWire is what ndp's codec does to the lifetime of a prefix,
// route, RDNSS and DNSSL option (any own lifetime in [0, ndp.Infinity]).
func zzH12oracle() {
	d := zzOwnLifetime("lifetime")
	var o ndp.Option
	kind := zzNondetChoice("option-kind", 5)
	switch kind {
	case 0:
		o = &ndp.PrefixInformation{PrefixLength: 64, Prefix: netip.MustParseAddr("2001:db8::"), ValidLifetime: d, PreferredLifetime: time.Hour}
	case 1:
		o = &ndp.PrefixInformation{PrefixLength: 64, Prefix: netip.MustParseAddr("2001:db8::"), ValidLifetime: time.Hour, PreferredLifetime: d}
	case 2:
		o = &ndp.RouteInformation{PrefixLength: 48, Prefix: netip.MustParseAddr("2001:db8::"), RouteLifetime: d}
	case 3:
		o = &ndp.RecursiveDNSServer{Lifetime: d, Servers: []netip.Addr{netip.IPv6Unspecified()}}
	default:
		o = &ndp.DNSSearchList{Lifetime: d, DomainNames: []string{"example.com"}}
	}
	b, err := ndp.MarshalMessage(&ndp.RouterAdvertisement{Options: []ndp.Option{o}})
	zzAssert(err == nil, "encodes")
	if err != nil {
		return
	}
	m, err := ndp.ParseMessage(b)
	zzAssert(err == nil, "decodes")
	if err != nil {
		return
	}
	var got time.Duration
	switch p := m.(*ndp.RouterAdvertisement).Options[0].(type) {
	case *ndp.PrefixInformation:
		got = p.ValidLifetime
		if kind == 1 {
			got = p.PreferredLifetime
		}
	case *ndp.RouteInformation:
		got = p.RouteLifetime
	case *ndp.RecursiveDNSServer:
		got = p.Lifetime
	case *ndp.DNSSearchList:
		got = p.Lifetime
	}
	zzAssert(got == zzOnWire(d), "wire-lifetime-is-uint32-of-seconds")
	zzAssert(zzAnd(got <= d+time.Second, d-got < time.Second), "wire-lifetime-within-a-second")
}
