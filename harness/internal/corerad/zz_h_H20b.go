package corerad

import (
	"context"
	"errors"
	"net"
	"net/http"
	"time"
)

// H20b: the debug server retry loop.
func zzH20b() {
	http.ErrServerClosed = errors.New("http: Server closed") // the sentinel serve compares against (package net/http is not initialised in the engine)
	ctx, cancel := context.WithCancel(context.Background())
	defer cancel()
	zzAfterLog = nil
	calls := 0
	lastKind := 0
	failUntil := zzNondetChoice("opErrors", 42) // number of leading *net.OpError results; 41 = forever
	final := zzNondetChoice("final", 3)         // what follows: server closed / other error / cancellation before next attempt
	var other = errors.New("zz: other")
	err := serve(ctx, nil, 3*time.Second, func() error {
		calls++
		if calls <= failUntil || failUntil == 41 {
			lastKind = 1
			return &net.OpError{Op: "listen", Err: errors.New("address in use")}
		}
		switch final {
		case 0:
			lastKind = 2
			return http.ErrServerClosed
		case 1:
			lastKind = 3
			return other
		}
		lastKind = 4
		cancel()
		return &net.OpError{Op: "listen", Err: errors.New("address in use")}
	})
	zzAssert(calls <= 40, "at-most-40-attempts")
	zzAssert(len(zzAfterLog) == calls-1 || (lastKind == 4 && len(zzAfterLog) == calls-1), "a-delay-between-attempts-none-before-the-first")
	for _, d := range zzAfterLog {
		zzAssert(d == 3*time.Second, "configured-delay")
	}
	if failUntil >= 40 {
		zzAssert(err != nil && calls == 40, "gives-up-after-40-attempts")
		return
	}
	switch final {
	case 0:
		zzAssert(err == nil, "server-closed-is-success")
	case 1:
		zzAssert(err == other, "other-error-returned")
	default:
		// cancellation noticed before the next attempt; after the 40th attempt
		// there is no next attempt (the give-up error is acceptable there)
		if calls < 40 {
			zzAssert(err == nil, "cancellation-is-success")
		}
	}
	zzAssert(calls == failUntil+1, "stops-at-first-non-retryable-result")
}
