package corerad

import (
	"time"

	"github.com/mdlayher/corerad/internal/config"
	"github.com/mdlayher/metricslite"
)

// H17h: when a scrape fails -- also when several interfaces fail in the same
// scrape (two never-initialised advertising interfaces, or the system state
// failing for every interface) -- the error the scrape function hands back is
// one the metrics library can report: a *metricslite.ScrapeError naming a
// registered metric. (metricslite silently drops any other error value and
// answers the scrape with the failed interfaces simply missing.)
func zzH17h() {
	epoch := time.Unix(1700000000, 0)
	a := config.ZZKindInterface("lan0", 7, epoch) // wildcard prefix: needs initialisation
	b := config.ZZKindInterface("lan1", 7, epoch)
	stateFails := zzNondetChoice("state-fails", 2) == 1
	st := &zzFailState{fail: stateFails}
	rec := &zzRec{}
	m := &Metrics{state: st, ifis: []config.Interface{a, b}}
	names := []string{ifiAdvertising, ifiAutoconfiguration, ifiForwarding, ifiMonitoring, advMisconfiguration,
		advDNSSLLifetime, advPrefixAutonomous, advPrefixOnLink, advPrefixValid, advPrefixPreferred, advRDNSSLifetime, advRouteLifetime}
	metrics := map[string]func(float64, ...string){}
	for _, n := range names {
		metrics[n] = rec.fn(n)
	}
	err := m.constScrape(metrics)
	zzAssert(err != nil, "failing-interfaces-make-the-scrape-fail")
	if err == nil {
		return
	}
	serr, ok := err.(*metricslite.ScrapeError)
	zzAssert(ok, "scrape-error-is-one-the-metrics-library-reports")
	if ok {
		_, known := metrics[serr.Metric]
		zzAssert(known, "scrape-error-names-a-registered-metric")
	}
}

type zzFailState struct{ fail bool }

func (s *zzFailState) IPv6Autoconf(string) (bool, error) {
	if s.fail {
		return false, zzErrEnv
	}
	return false, nil
}
func (s *zzFailState) IPv6Forwarding(string) (bool, error) {
	if s.fail {
		return false, zzErrEnv
	}
	return true, nil
}
func (s *zzFailState) SetIPv6Autoconf(string, bool) error { return nil }
