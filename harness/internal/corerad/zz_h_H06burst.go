package corerad

import (
	"context"
	"net/netip"
	"time"
)

// H06burst: a burst -- two requests are already queued when the scheduler
// next runs (a unicast solicitation and a multicast trigger, either order).
// Each is still answered by its own RA: one unicast RA to the soliciting source
// after a delay in [0, 500ms), one multicast RA no earlier than 3 s after the
// initial one, and nothing else.
func zzH06burst() {
	rec, st := &zzRec{}, &zzState{}
	cfg := zzCfg("eth0")
	cfg.UnicastOnly = false
	cfg.Verbose = false
	a := zzAdvertiser(rec, st, cfg)
	conn := &zzConn{}
	ipC := make(chan netip.Addr, 16)
	ctx, cancel := context.WithCancel(context.Background())
	src := zzNondetAddr6("src")
	zzAssume(zzAnd(zzNot(src.IsMulticast()), zzNot(src.IsUnspecified())))
	all := netip.IPv6LinkLocalAllNodes()
	// both requests are queued before the scheduler gets to run
	if zzNondetChoice("unicast-first", 2) == 1 {
		ipC <- src
		ipC <- all
	} else {
		ipC <- all
		ipC <- src
	}
	start := zzStub_time_Now()
	go func() { _ = a.schedule(ctx, conn, ipC) }()
	zzWaitIdle()
	zzAssert(len(zzSG.tasks) == 2, "one-task-per-request")
	for _, t := range zzSG.tasks {
		zzClock = t.registered.Add(t.delay)
		zzFire(t)
		zzWaitIdle()
	}
	nu, nm := 0, 0
	for i, w := range conn.writes {
		if w.dst == src {
			nu++
			if i < len(zzSG.tasks) {
				d := zzSG.tasks[i].delay
				zzAssert(zzAnd(d >= 0, d < 500*time.Millisecond), "unicast-delay-in-0-500ms")
			}
		} else if w.dst == all {
			nm++
			if i < len(zzSG.tasks) {
				due := zzSG.tasks[i].registered.Add(zzSG.tasks[i].delay)
				zzAssert(due.Sub(start) >= 3*time.Second, "multicast-ra-3s-after-initial")
			}
		}
	}
	zzAssert(len(conn.writes) == 2, "two-ras-sent")
	zzAssert(nu == 1, "one-unicast-ra-to-the-soliciting-source")
	zzAssert(nm == 1, "one-multicast-ra")
	cancel()
	zzWaitIdle()
}
