package corerad

import (
	"context"
	"os"
	"syscall"
)

// H20d: the terminate/reload decision is read by other tasks while the signal
// task records it. Lock discipline on terminator.term (guarded-by), and a
// concurrent reader sees either the initial value or the recorded decision.
func zzH20d() {
	rec := &zzRec{}
	cctx := zzNewContext(rec, &zzState{})
	term := &terminator{}
	zzGuardedIn(&term.term, term, "terminator.term")
	var sig os.Signal
	kind := zzNondetChoice("signal", 3)
	switch kind {
	case 0:
		sig = os.Interrupt
	case 1:
		sig = syscall.SIGTERM
	default:
		sig = syscall.SIGHUP
	}
	sigC := make(chan os.Signal, 1)
	sigC <- sig
	resC := make(chan bool, 1)
	go func() {
		zzYield("reader")
		resC <- term.terminate()
	}()
	st := &signalTask{sigC: sigC, ll: cctx.ll, t: term, cancel: func() {}}
	err := st.Run(context.Background())
	zzAssert(err == nil, "signal-task-succeeds")
	v := <-resC
	zzAssert(zzOr(!v, kind != 2), "concurrent-reader-sees-initial-or-recorded-decision")
	zzAssert(term.terminate() == (kind != 2), "decision-value")
}
