package corerad

import (
	"github.com/mdlayher/ndp"
	"time"
)

// H12ra: header fields (a is ours, b is decoded from a packet).
func zzH12ra() {
	a := &ndp.RouterAdvertisement{
		CurrentHopLimit: zzNondetUint8("a.hop"), ManagedConfiguration: zzNondetBool("a.m"), OtherConfiguration: zzNondetBool("a.o"),
		ReachableTime: zzOwnTimer("a.reach"), RetransmitTimer: zzOwnTimer("a.retrans"),
		RouterLifetime: zzNondetDuration("a.life"), RouterSelectionPreference: ndp.Preference(zzNondetChoice("a.pref", 2)),
	}
	b := &ndp.RouterAdvertisement{
		CurrentHopLimit: zzNondetUint8("b.hop"), ManagedConfiguration: zzNondetBool("b.m"), OtherConfiguration: zzNondetBool("b.o"),
		ReachableTime: time.Duration(zzNondetUint32("b.reach")) * time.Millisecond, RetransmitTimer: time.Duration(zzNondetUint32("b.retrans")) * time.Millisecond,
		RouterLifetime: zzNondetDuration("b.life"), RouterSelectionPreference: ndp.Preference(zzNondetChoice("b.pref", 2)),
	}
	ps := verifyRAs(a, b)
	zzAssert(zzCount(ps, "hop_limit") == zzB2I(a.CurrentHopLimit != b.CurrentHopLimit), "hop-limit-iff-differs")
	zzAssert(zzCount(ps, "managed_configuration") == zzB2I(a.ManagedConfiguration != b.ManagedConfiguration), "managed-iff-differs")
	zzAssert(zzCount(ps, "other_configuration") == zzB2I(a.OtherConfiguration != b.OtherConfiguration), "other-iff-differs")
	// ours are compared as they appear on the wire (whole milliseconds)
	reachA, retransA := a.ReachableTime/time.Millisecond*time.Millisecond, a.RetransmitTimer/time.Millisecond*time.Millisecond
	zzAssert(zzCount(ps, "reachable_time") == zzB2I(zzAnd(zzAnd(reachA != 0, b.ReachableTime != 0), reachA != b.ReachableTime)), "reachable-iff-both-set-and-differ")
	zzAssert(zzCount(ps, "retransmit_timer") == zzB2I(zzAnd(zzAnd(retransA != 0, b.RetransmitTimer != 0), retransA != b.RetransmitTimer)), "retransmit-iff-both-set-and-differ")
	zzAssert(len(ps) == zzCount(ps, "hop_limit")+zzCount(ps, "managed_configuration")+zzCount(ps, "other_configuration")+zzCount(ps, "reachable_time")+zzCount(ps, "retransmit_timer"), "nothing-else")
}
