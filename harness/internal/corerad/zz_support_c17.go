package corerad

import (
	"github.com/mdlayher/corerad/internal/config"
	"github.com/mdlayher/corerad/internal/plugin"
	"github.com/mdlayher/corerad/internal/system"
	"net"
	"net/netip"
	"time"
)

// zzPrepare stands for Plugin.Prepare (which talks to rtnetlink): the runtime
// fields are set to environment stubs.
func zzPrepare(ifi *config.Interface, now time.Time) {
	addrs := []system.IP{
		{Address: netip.MustParsePrefix("2001:db8:a::1/64"), ValidForever: true},
		{Address: netip.MustParsePrefix("fe80::1/64")},
	}
	routes := []system.Route{{Prefix: netip.MustParsePrefix("2001:db8:b::/48")}}
	for _, p := range ifi.Plugins {
		switch p := p.(type) {
		case *plugin.Prefix:
			p.TimeNow = func() time.Time { return now }
			p.Addrs = func() ([]system.IP, error) { return addrs, nil }
		case *plugin.Route:
			p.TimeNow = func() time.Time { return now }
			p.Routes = func() ([]system.Route, error) { return routes, nil }
		case *plugin.RDNSS:
			p.Addrs = func() ([]system.IP, error) { return addrs, nil }
		case *plugin.LLA:
			p.Addr = net.HardwareAddr{2, 0, 0, 0, 0, 1}
		}
	}
}

type zzTwoState struct {
	fwd   map[string]bool
	auto  map[string]bool
	calls []string
}

func (s *zzTwoState) IPv6Autoconf(iface string) (bool, error) { return s.auto[iface], nil }

func (s *zzTwoState) IPv6Forwarding(iface string) (bool, error) {
	s.calls = append(s.calls, iface)
	return s.fwd[iface], nil
}

func (s *zzTwoState) SetIPv6Autoconf(iface string, enable bool) error { return nil }
