package corerad

import "time"

// H05a: multicastDelay for every index, every accepted (min,max) pair and
// every random draw.
func zzH05a() {
	i := zzNondetInt("i")
	zzAssume(i >= 0)
	min := zzNondetDuration("min")
	max := zzNondetDuration("max")
	// accepted pairs (C02): 4s <= max <= 1800s; min == max (only < 9s by default) or 3s <= min <= 0.75*max
	zzAssume(zzAnd(max >= 4*time.Second, max <= 1800*time.Second))
	zzAssume(zzAnd(min >= 3*time.Second, min <= max))
	d := multicastDelay(nil, i, min, max)
	zzAssert(d > 0, "positive")
	zzAssert(d%time.Second == 0, "whole-seconds")
	zzAssert(zzAnd(d > min-500*time.Millisecond, d <= max+500*time.Millisecond), "within-min-max")
	zzAssert(zzImplies(i < 3, d <= 16*time.Second), "initial-cap")
}
