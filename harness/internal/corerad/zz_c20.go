package corerad

import (
	"context"
	"errors"
	"net"
	"net/http"
	"os"
	"syscall"
	"time"

	"github.com/mdlayher/corerad/internal/config"
	"github.com/mdlayher/corerad/internal/netstate"
	"github.com/mdlayher/sdnotify"
)

// sd_notify is environment: record what is announced.
var zzNotified []string

func zzStub_sdnotify_Notifier_Notify(n *sdnotify.Notifier, s ...string) error {
	for _, x := range s {
		if x == sdnotify.Ready {
			zzNotified = append(zzNotified, "READY")
		}
	}
	return nil
}

// H20a: one task per advertising or monitoring interface, in order; the debug
// HTTP server iff an address is configured; the link watcher last.
func zzH20a() {
	rec := &zzRec{}
	s := &Server{cctx: zzNewContext(rec, &zzState{}), t: &terminator{}, w: netstate.NewWatcher()}
	n := zzParam("interfaces")
	var cfg config.Config
	kinds := make([]int, n)
	for i := 0; i < n; i++ {
		name := "eth" + string(rune('0'+i))
		kinds[i] = zzNondetChoice(name+".mode", 3)
		ifi := config.Interface{Name: name, Verbose: zzNondetBool(name + ".verbose"), HopLimit: uint8(i + 1)}
		switch kinds[i] {
		case 0:
			ifi.Advertise = true
		case 1:
			ifi.Monitor = true
		}
		cfg.Interfaces = append(cfg.Interfaces, ifi)
	}
	debugOn := zzNondetChoice("debug", 2) == 1
	if debugOn {
		cfg.Debug = config.Debug{Address: "localhost:9430", Prometheus: zzNondetBool("prometheus"), PProf: zzNondetBool("pprof")}
	}
	tasks := s.BuildTasks(cfg, http.NewServeMux())
	k := 0
	for i := 0; i < n; i++ {
		if kinds[i] == 2 {
			continue
		}
		if k >= len(tasks) {
			zzAssert(false, "task-for-every-served-interface")
			return
		}
		switch t := tasks[k].(type) {
		case *Advertiser:
			zzAssert(kinds[i] == 0, "advertiser-for-advertising-interface")
			zzAssert(t.cfg.Name == cfg.Interfaces[i].Name && t.cfg.HopLimit == cfg.Interfaces[i].HopLimit, "advertiser-gets-its-own-configuration")
			zzAssert(t.watchC != nil, "advertiser-subscribed-to-link-state")
		case *Monitor:
			zzAssert(kinds[i] == 1, "monitor-for-monitoring-interface")
			zzAssert(t.iface == cfg.Interfaces[i].Name, "monitor-gets-its-own-interface")
			zzAssert(t.verbose == cfg.Interfaces[i].Verbose, "monitor-verbosity")
			zzAssert(t.watchC != nil, "monitor-subscribed-to-link-state")
		default:
			zzAssert(false, "interface-task-kind")
		}
		k++
	}
	if debugOn {
		if k >= len(tasks) {
			zzAssert(false, "debug-task-present")
			return
		}
		h, ok := tasks[k].(*httpTask)
		zzAssert(ok, "debug-http-task-when-address-configured")
		if ok {
			zzAssert(h.addr == "localhost:9430", "debug-address")
		}
		k++
	}
	zzAssert(len(tasks) == k+1, "no-other-tasks-but-the-watcher")
	if len(tasks) == k+1 {
		_, ok := tasks[k].(*watcherTask)
		zzAssert(ok, "link-watcher-last")
	}
}

// H20b: the debug server retry loop.
func zzH20b() {
	http.ErrServerClosed = errors.New("http: Server closed") // the sentinel serve compares against (package net/http is not initialised in the engine)
	ctx, cancel := context.WithCancel(context.Background())
	defer cancel()
	zzAfterLog = nil
	calls := 0
	lastKind := 0
	failUntil := zzNondetChoice("opErrors", 42) // number of leading *net.OpError results; 41 = forever
	final := zzNondetChoice("final", 3)           // what follows: server closed / other error / cancellation before next attempt
	var other = errors.New("zz: other")
	err := serve(ctx, nil, 3*time.Second, func() error {
		calls++
		if calls <= failUntil || failUntil == 41 {
			lastKind = 1
			return &net.OpError{Op: "listen", Err: errors.New("address in use")}
		}
		switch final {
		case 0:
			lastKind = 2
			return http.ErrServerClosed
		case 1:
			lastKind = 3
			return other
		}
		lastKind = 4
		cancel()
		return &net.OpError{Op: "listen", Err: errors.New("address in use")}
	})
	zzAssert(calls <= 40, "at-most-40-attempts")
	zzAssert(len(zzAfterLog) == calls-1 || (lastKind == 4 && len(zzAfterLog) == calls-1), "a-delay-between-attempts-none-before-the-first")
	for _, d := range zzAfterLog {
		zzAssert(d == 3*time.Second, "configured-delay")
	}
	if failUntil >= 40 {
		zzAssert(err != nil && calls == 40, "gives-up-after-40-attempts")
		return
	}
	switch final {
	case 0:
		zzAssert(err == nil, "server-closed-is-success")
	case 1:
		zzAssert(err == other, "other-error-returned")
	default:
		// cancellation noticed before the next attempt; after the 40th attempt
		// there is no next attempt (the give-up error is acceptable there)
		if calls < 40 {
			zzAssert(err == nil, "cancellation-is-success")
		}
	}
	zzAssert(calls == failUntil+1, "stops-at-first-non-retryable-result")
}

// ---- H20c: Serve with stub tasks ----

type zzStubTask struct {
	name      string
	behaviour int // 0 runs until cancelled, 1 fails at once, 2 returns nil early, 3 fails after the signal/cancel (slow to stop, with error), 4 never ready
	readyC    chan struct{}
	started   bool
	returned  bool
	sawCancel bool
	termSeen  bool
	termVal   bool
	term      func() bool
}

var zzTaskErr = errors.New("zz: task failed")

func (t *zzStubTask) Run(ctx context.Context) error {
	t.started = true
	if t.behaviour != 4 {
		close(t.readyC)
	}
	defer func() { t.returned = true }()
	switch t.behaviour {
	case 1:
		return zzTaskErr
	case 2:
		return nil
	}
	<-ctx.Done()
	t.sawCancel = true
	t.termSeen, t.termVal = true, t.term()
	if t.behaviour == 3 {
		zzYield("slow-stop")
	}
	return nil
}
func (t *zzStubTask) Ready() <-chan struct{} { return t.readyC }
func (t *zzStubTask) String() string         { return t.name }

func zzH20c() {
	rec := &zzRec{}
	s := &Server{cctx: zzNewContext(rec, &zzState{}), t: &terminator{}}
	n := zzParam("tasks")
	zzNotified = nil
	var stubs []*zzStubTask
	var tasks []Task
	anyFail := false
	for i := 0; i < n; i++ {
		b := zzNondetChoice("task"+string(rune('0'+i))+".behaviour", 5)
		st := &zzStubTask{name: "task" + string(rune('0'+i)), behaviour: b, readyC: make(chan struct{}), term: s.t.terminate}
		if b == 1 {
			anyFail = true
		}
		stubs = append(stubs, st)
		tasks = append(tasks, st)
	}
	sigKind := zzNondetChoice("signal", 4) // SIGINT, SIGTERM, SIGHUP, none
	if sigKind == 3 {
		zzAssume(anyFail) // without a signal only a failure ends serving
	}
	sigC := make(chan os.Signal, 1)
	var ret error
	returned := false
	go func() {
		ret = s.Serve(sigC, nil, tasks)
		returned = true
		for _, st := range stubs {
			zzAssert(st.returned, "serve-returns-only-after-every-task-returned")
		}
	}()
	zzWaitIdle()
	var sig os.Signal
	switch sigKind {
	case 0:
		sig = os.Interrupt
	case 1:
		sig = syscall.SIGTERM
	case 2:
		sig = syscall.SIGHUP
	}
	if sig != nil && !returned {
		sigC <- sig
		zzWaitIdle()
	}
	zzAssert(returned, "serve-returns")
	if !returned {
		return
	}
	zzAssert((ret != nil) == anyFail, "error-iff-a-task-failed")
	for _, st := range stubs {
		zzAssert(st.started && st.returned, "every-task-ran-and-returned")
		if st.behaviour == 0 || st.behaviour == 3 || st.behaviour == 4 {
			zzAssert(st.sawCancel, "every-running-task-was-cancelled")
			if sig != nil && !anyFail {
				zzAssert(st.termVal == (sigKind != 2), "terminate-decision-recorded-before-cancellation-is-observed")
			}
		}
	}
	// readiness is announced only when every task reported ready
	allReady := true
	for _, st := range stubs {
		if st.behaviour == 4 {
			allReady = false
		}
	}
	if !allReady {
		zzAssert(len(zzNotified) == 0, "ready-not-announced-while-a-task-is-not-ready")
	}
}

// Recording the terminate/reload decision is a visible step: other tasks may
// run right before it (this is what makes a "cancel before set" reordering
// observable, in the engine and natively).
func zzStub_corerad_terminator_set(t *terminator, s os.Signal) {
	zzYield("terminator.set")
	t.set(s)
}

// H08b: the signal task records terminate (anything but SIGHUP) before it
// cancels the other tasks.
func zzH08b() {
	rec := &zzRec{}
	cctx := zzNewContext(rec, &zzState{})
	term := &terminator{}
	var sig os.Signal
	kind := zzNondetChoice("signal", 3)
	switch kind {
	case 0:
		sig = os.Interrupt
	case 1:
		sig = syscall.SIGTERM
	default:
		sig = syscall.SIGHUP
	}
	zzAssert(isTerminal(sig) == (kind != 2), "terminal-iff-not-sighup")
	seen, cancelled := false, false
	sigC := make(chan os.Signal, 1)
	sigC <- sig
	st := &signalTask{sigC: sigC, ll: cctx.ll, t: term, cancel: func() {
		cancelled = true
		seen = term.terminate()
	}}
	err := st.Run(context.Background())
	zzAssert(err == nil, "signal-task-succeeds")
	zzAssert(cancelled, "signal-cancels-the-other-tasks")
	zzAssert(seen == (kind != 2), "decision-recorded-before-cancellation")
	zzAssert(term.terminate() == (kind != 2), "decision-value")
}

// H20d: the terminate/reload decision is read by other tasks while the signal
// task records it. Lock discipline on terminator.term (guarded-by), and a
// concurrent reader sees either the initial value or the recorded decision.
func zzH20d() {
	rec := &zzRec{}
	cctx := zzNewContext(rec, &zzState{})
	term := &terminator{}
	zzGuardedIn(&term.term, term, "terminator.term")
	var sig os.Signal
	kind := zzNondetChoice("signal", 3)
	switch kind {
	case 0:
		sig = os.Interrupt
	case 1:
		sig = syscall.SIGTERM
	default:
		sig = syscall.SIGHUP
	}
	sigC := make(chan os.Signal, 1)
	sigC <- sig
	resC := make(chan bool, 1)
	go func() {
		zzYield("reader")
		resC <- term.terminate()
	}()
	st := &signalTask{sigC: sigC, ll: cctx.ll, t: term, cancel: func() {}}
	err := st.Run(context.Background())
	zzAssert(err == nil, "signal-task-succeeds")
	v := <-resC
	zzAssert(zzOr(!v, kind != 2), "concurrent-reader-sees-initial-or-recorded-decision")
	zzAssert(term.terminate() == (kind != 2), "decision-value")
}
