package corerad

import (
	"net/netip"
	"time"

	"github.com/mdlayher/corerad/internal/plugin"
	"github.com/mdlayher/ndp"
)

// H12handle (also C04: the consistency-check path): an RA from another router
// is compared with the RA this interface would send *now* (forwarding read
// afresh); every inconsistency is counted once under (interface, details,
// field), the hook fires iff there is at least one, with (ours, theirs).
func zzH12handle() {
	rec, st := &zzRec{}, &zzState{}
	cfg := zzCfg("eth0")
	pfx := netip.MustParsePrefix("2001:db8::/64")
	valid := zzOwnLifetime("our.valid")
	cfg.Plugins = []plugin.Plugin{
		&plugin.Prefix{Prefix: pfx, OnLink: true, Autonomous: true, ValidLifetime: valid, PreferredLifetime: 4 * time.Hour},
		&plugin.Route{Prefix: netip.MustParsePrefix("2001:db8:ffff::/48"), Preference: ndp.High, Lifetime: 24 * time.Hour},
	}
	a := zzAdvertiser(rec, st, cfg)
	var hookOurs, hookTheirs *ndp.RouterAdvertisement
	hooks := 0
	a.OnInconsistentRA = func(ours, theirs *ndp.RouterAdvertisement) {
		hooks++
		hookOurs, hookTheirs = ours, theirs
	}
	theirValid := zzRecvLifetime("their.valid")
	theirRoute := zzRecvLifetime("their.route")
	theirs := &ndp.RouterAdvertisement{
		CurrentHopLimit: zzNondetUint8("their.hop"), ManagedConfiguration: cfg.Managed, OtherConfiguration: cfg.OtherConfig,
		RouterLifetime: zzNondetDuration("their.lifetime"),
		Options: []ndp.Option{
			&ndp.PrefixInformation{PrefixLength: 64, Prefix: pfx.Addr(), ValidLifetime: theirValid, PreferredLifetime: 4 * time.Hour, OnLink: true, AutonomousAddressConfiguration: true},
			&ndp.RouteInformation{PrefixLength: 48, Prefix: netip.MustParseAddr("2001:db8:ffff::"), Preference: ndp.High, RouteLifetime: theirRoute},
		},
	}
	ip, err := a.handle(theirs, zzNondetAddr6("router"))
	zzAssert(err == nil, "no-error")
	zzAssert(zzNot(ip.IsValid()), "an-ra-triggers-no-ra")
	// C04: our side of the comparison is the RA we would send now
	zzAssert(len(st.fwdCalls) == 1 && len(st.fwdValues) == 1, "forwarding-read-once-for-the-consistency-check")
	hopDiff := theirs.CurrentHopLimit != cfg.HopLimit
	validDiff := zzDiffer(valid, theirValid)
	routeDiff := theirRoute != 24*time.Hour
	n := zzIte(hopDiff, 1, 0) + zzIte(validDiff, 1, 0) + zzIte(routeDiff, 1, 0)
	zzAssert(rec.count("adv_inconsistencies") == n, "one-counter-increment-per-inconsistency")
	zzAssert(rec.countL("adv_inconsistencies", "eth0", "", "hop_limit") == zzIte(hopDiff, 1, 0), "hop-limit-counted-under-its-labels")
	zzAssert(rec.countL("adv_inconsistencies", "eth0", "2001:db8::/64", "prefix_information_valid_lifetime") == zzIte(validDiff, 1, 0), "prefix-lifetime-counted-under-the-prefix-label")
	zzAssert(rec.countL("adv_inconsistencies", "eth0", "2001:db8:ffff::/48", "route_information_lifetime") == zzIte(routeDiff, 1, 0), "route-lifetime-counted-under-the-route-label")
	zzAssert(rec.countL("adv_received", "eth0", "router advertisement") == 1, "received-counted")
	// each inconsistency is logged once, under one header line iff there is any
	zzAssert(zzLogCount(": inconsistency ") == n, "one-log-line-per-inconsistency")
	zzAssert(zzLogCount("inconsistencies detected") == zzIte(n > 0, 1, 0), "log-header-iff-some-inconsistency")
	zzAssert(hooks == zzIte(n > 0, 1, 0), "hook-fires-iff-some-inconsistency")
	if hooks == 1 && len(st.fwdValues) == 1 {
		zzAssert(hookTheirs == theirs, "hook-gets-the-received-ra")
		zzCheckRA(hookOurs, cfg, zzIte(st.fwdValues[0], cfg.DefaultLifetime, 0), "hook-ours")
	}
}
