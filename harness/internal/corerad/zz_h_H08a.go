package corerad

import (
	"net/netip"
)

// H08a: shutdown sends exactly one zero-lifetime multicast RA iff terminating.
func zzH08a() {
	rec, st := &zzRec{}, &zzState{}
	cfg := zzCfg("eth0")
	term := zzNondetChoice("terminate", 2) == 1
	a := zzAdvertiser(rec, st, cfg)
	a.terminate = func() bool { return term }
	conn := &zzConn{failWrite: zzNondetChoice("write.fail", 2) == 1}
	before := a.cfg
	a.shutdown(conn)
	want := zzIte(zzAnd(term, zzNot(cfg.UnicastOnly)), 1, 0)
	zzAssert(len(conn.writes) == want, "one-final-ra-iff-terminating")
	if len(conn.writes) == 1 {
		w := conn.writes[0]
		zzAssert(w.dst == netip.IPv6LinkLocalAllNodes(), "final-ra-to-all-nodes")
		zzCheckRA(w.ra, cfg, 0, "final-ra")
	}
	zzAssert(zzAnd(a.cfg.DefaultLifetime == before.DefaultLifetime, a.cfg.HopLimit == before.HopLimit), "configuration-unchanged")
	if !term {
		zzAssert(len(st.fwdCalls) == 0, "reload-does-nothing")
	}
	// C04 on the final path: the final RA's own zero lifetime is not a
	// misconfiguration: with forwarding enabled nothing is reported
	if len(conn.writes) == 1 && len(st.fwdValues) == 1 {
		zzAssert(zzImplies(st.fwdValues[0], zzLogCount("not configured for IPv6 forwarding") == 0), "no-misconfiguration-reported-for-the-final-ra-while-forwarding")
	}
}
