package corerad

import (
	"os"
	"syscall"
)

func zzH20c() {
	rec := &zzRec{}
	s := NewServer(zzNewContext(rec, &zzState{}))
	n := zzParam("tasks")
	zzNotified = nil
	var stubs []*zzStubTask
	var tasks []Task
	anyFail := false
	for i := 0; i < n; i++ {
		b := zzNondetChoice("task"+string(rune('0'+i))+".behaviour", 5)
		st := &zzStubTask{name: "task" + string(rune('0'+i)), behaviour: b, readyC: make(chan struct{}), term: s.t.terminate}
		if b == 1 {
			anyFail = true
		}
		stubs = append(stubs, st)
		tasks = append(tasks, st)
	}
	sigKind := zzNondetChoice("signal", 4) // SIGINT, SIGTERM, SIGHUP, none
	if sigKind == 3 {
		zzAssume(anyFail) // without a signal only a failure ends serving
	}
	sigC := make(chan os.Signal, 1)
	var ret error
	returned := false
	go func() {
		ret = s.Serve(sigC, nil, tasks)
		returned = true
		for _, st := range stubs {
			zzAssert(st.returned, "serve-returns-only-after-every-task-returned")
		}
	}()
	zzWaitIdle()
	var sig os.Signal
	switch sigKind {
	case 0:
		sig = os.Interrupt
	case 1:
		sig = syscall.SIGTERM
	case 2:
		sig = syscall.SIGHUP
	}
	if sig != nil && !returned {
		sigC <- sig
		zzWaitIdle()
	}
	zzAssert(returned, "serve-returns")
	if !returned {
		return
	}
	zzAssert((ret != nil) == anyFail, "error-iff-a-task-failed")
	for _, st := range stubs {
		zzAssert(st.started && st.returned, "every-task-ran-and-returned")
		if st.behaviour == 0 || st.behaviour == 3 || st.behaviour == 4 {
			zzAssert(st.sawCancel, "every-running-task-was-cancelled")
			if sig != nil && !anyFail {
				zzAssert(st.termVal == (sigKind != 2), "terminate-decision-recorded-before-cancellation-is-observed")
			}
		}
	}
	// readiness is announced only when every task reported ready
	allReady := true
	for _, st := range stubs {
		if st.behaviour == 4 {
			allReady = false
		}
	}
	if !allReady {
		zzAssert(len(zzNotified) == 0, "ready-not-announced-while-a-task-is-not-ready")
	}
}
