package corerad

import "math/rand"

// math/rand: an opaque generator; Int63n returns any value in [0, n) and
// requires n > 0 (the real function panics otherwise).
func zzStub_rand_NewSource(seed int64) rand.Source { return nil }
func zzStub_rand_New(src rand.Source) *rand.Rand   { return nil }
func zzStub_rand_Rand_Int63n(r *rand.Rand, n int64) int64 {
	zzAssert(n > 0, "int63n-positive")
	v := zzNondetInt64("rand")
	zzAssume(zzAnd(v >= 0, v < n))
	return v
}
