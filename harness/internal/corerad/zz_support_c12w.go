package corerad

import (
	"github.com/mdlayher/corerad/internal/config"
	"github.com/mdlayher/ndp"
	"time"
)

func zzWire(cfg config.Interface, now time.Time) {
	zzPrepare(&cfg, now)
	fwd := zzNondetBool("forwarding")
	own, _, err := cfg.RouterAdvertisement(fwd)
	zzAssert(err == nil, "ra-generates")
	if err != nil {
		return
	}
	b, err := ndp.MarshalMessage(own)
	zzAssert(err == nil, "ra-encodes")
	if err != nil {
		return
	}
	m, err := ndp.ParseMessage(b)
	zzAssert(err == nil, "ra-decodes")
	if err != nil {
		return
	}
	got, ok := m.(*ndp.RouterAdvertisement)
	zzAssert(ok, "decodes-as-ra")
	if !ok {
		return
	}
	ps := verifyRAs(own, got)
	for _, p := range ps {
		zzAssert(false, "no-report/"+p.Field)
	}
	zzAssert(len(ps) == 0, "own-ra-after-wire-round-trip-is-consistent")
}
