package corerad

import (
	"context"
	"net/netip"
	"time"
)

func zzH06() {
	rec, st := &zzRec{}, &zzState{}
	cfg := zzCfg("eth0")
	cfg.UnicastOnly = false
	cfg.Verbose = false
	a := zzAdvertiser(rec, st, cfg)
	conn := &zzConn{}
	ipC := make(chan netip.Addr, 16)
	ctx, cancel := context.WithCancel(context.Background())
	// the initial RA was sent at or before the first clock reading of schedule
	start := zzStub_time_Now()
	var ret error
	returned := false
	go func() {
		ret = a.schedule(ctx, conn, ipC)
		returned = true
	}()
	zzWaitIdle()

	k := zzParam("events")
	events := make([]zzEvent, k)
	for j := 0; j < k; j++ {
		name := "e" + string(rune('0'+j))
		ev := zzEvent{multicast: zzNondetChoice(name+".multicast", 2) == 1}
		if ev.multicast {
			ev.addr = netip.IPv6LinkLocalAllNodes()
		} else {
			ev.addr = zzNondetAddr6(name + ".src")
			zzAssume(zzNot(ev.addr.IsMulticast()))
		}
		ev.at = zzAdvance(name + ".at")
		events[j] = ev
		ipC <- ev.addr
		zzWaitIdle() // the scheduler consumes the request
	}

	// one task per request that is not coalesced; run each at its due time
	type send struct {
		at  time.Time
		dst netip.Addr
	}
	var sends []send
	for _, t := range zzSG.tasks {
		due := t.registered.Add(t.delay)
		zzAssert(t.delay >= 0, "delay-non-negative")
		before := len(conn.writes)
		zzClock = due
		t.started = true
		t.fn()
		t.done = true
		close(t.fin)
		zzAssert(len(conn.writes) == before+1, "each-task-sends-exactly-one-ra")
		if len(conn.writes) == before+1 {
			sends = append(sends, send{at: due, dst: conn.writes[before].dst})
		}
	}
	minGap := 3 * time.Second

	// C07: every unicast solicitation is answered exactly once, to its source, within [0, 500ms)
	ti := 0
	_ = ti
	for j, ev := range events {
		if ev.multicast {
			continue
		}
		n := 0
		for i, t := range zzSG.tasks {
			if i < len(sends) && t.registered.Equal(ev.at) {
				isMine := zzAnd(sends[i].dst == ev.addr, zzNot(sends[i].dst.IsMulticast()))
				n += zzIte(isMine, 1, 0)
				zzAssert(zzImplies(isMine, zzAnd(t.delay >= 0, t.delay < 500*time.Millisecond)), "unicast-delay-in-0-500ms")
			}
		}
		// repeated sources: count answers to this address registered at this instant against solicitations from it at this instant
		m := 0
		for j2, ev2 := range events {
			_ = j2
			if !ev2.multicast {
				m += zzIte(zzAnd(ev2.addr == ev.addr, ev2.at.Equal(ev.at)), 1, 0)
			}
		}
		_ = j
		zzAssert(n == m, "each-solicitation-answered-exactly-once-to-its-source")
	}

	// C06: multicast RAs (and the initial one at `start`) at least 3s apart
	zzKnownClass("multicast-trigger-while-delayed-ra-pending", true)
	for i := range sends {
		if !sends[i].dst.IsMulticast() {
			continue
		}
		zzAssert(sends[i].at.Sub(start) >= minGap, "multicast-ra-3s-after-initial")
		for i2 := range sends {
			if i2 <= i || !sends[i2].dst.IsMulticast() {
				continue
			}
			d := sends[i2].at.Sub(sends[i].at)
			zzAssert(zzOr(d >= minGap, d <= -minGap), "multicast-ras-3s-apart")
		}
	}
	// every multicast trigger is satisfied by a multicast RA no later than 3s after it
	for _, ev := range events {
		if !ev.multicast {
			continue
		}
		sat := false
		for i := range sends {
			if sends[i].dst.IsMulticast() {
				d := sends[i].at.Sub(ev.at)
				sat = zzOr(sat, zzAnd(d >= 0, d <= minGap))
			}
		}
		zzAssert(sat, "multicast-trigger-satisfied-within-3s")
	}

	cancel()
	zzWaitIdle()
	zzAssert(returned, "scheduler-returns-on-cancellation")
	zzAssert(ret == nil, "cancellation-is-not-an-error")
}
