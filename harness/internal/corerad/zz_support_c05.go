package corerad

import (
	"time"
)

// zzRoundSec: d rounded half-up to a whole second (d >= 0), in plain integer
// arithmetic -- the reference for Duration.Round(time.Second).
func zzRoundSec(d time.Duration) time.Duration {
	return (d + 500*time.Millisecond) / time.Second * time.Second
}
