package corerad

import (
	"context"
	"errors"
	"github.com/mdlayher/sdnotify"
)

// sd_notify is environment: record what is announced.
var zzNotified []string

func zzStub_sdnotify_Notifier_Notify(n *sdnotify.Notifier, s ...string) error {
	for _, x := range s {
		if x == sdnotify.Ready {
			zzNotified = append(zzNotified, "READY")
		}
	}
	return nil
}

type zzStubTask struct {
	name      string
	behaviour int // 0 runs until cancelled, 1 fails at once, 2 returns nil early, 3 fails after the signal/cancel (slow to stop, with error), 4 never ready
	readyC    chan struct{}
	started   bool
	returned  bool
	sawCancel bool
	termSeen  bool
	termVal   bool
	term      func() bool
}

var zzTaskErr = errors.New("zz: task failed")

func (t *zzStubTask) Run(ctx context.Context) error {
	t.started = true
	if t.behaviour != 4 {
		close(t.readyC)
	}
	defer func() { t.returned = true }()
	switch t.behaviour {
	case 1:
		return zzTaskErr
	case 2:
		return nil
	}
	<-ctx.Done()
	t.sawCancel = true
	t.termSeen, t.termVal = true, t.term()
	if t.behaviour == 3 {
		zzYield("slow-stop")
	}
	return nil
}

func (t *zzStubTask) Ready() <-chan struct{} { return t.readyC }

func (t *zzStubTask) String() string { return t.name }
