package corerad

import (
	"context"
	"net/netip"
)

// H10s: a transmit error in a scheduled RA stops the scheduler promptly with
// that error even when other RAs are pending or fail too.
func zzH10s() {
	rec, st := &zzRec{}, &zzState{}
	cfg := zzCfg("eth0")
	cfg.UnicastOnly = false
	a := zzAdvertiser(rec, st, cfg)
	conn := &zzConn{failWrite: true}
	ipC := make(chan netip.Addr, 16)
	ctx, cancel := context.WithCancel(context.Background())
	defer cancel()
	var ret error
	returned := false
	go func() {
		ret = a.schedule(ctx, conn, ipC)
		returned = true
	}()
	zzWaitIdle()
	n := zzParam("pending")
	for j := 0; j < n; j++ {
		if zzNondetChoice("multicast", 2) == 1 {
			ipC <- netip.IPv6LinkLocalAllNodes()
		} else {
			ipC <- zzNondetAddr6("src")
		}
		zzWaitIdle()
	}
	// the timers fire: every pending RA is attempted and fails
	for _, t := range zzSG.tasks {
		zzFire(t)
	}
	zzWaitIdle()
	zzAssert(returned, "scheduler-stops-after-transmit-error")
	zzAssert(ret != nil, "transmit-error-reported")
}
