package corerad

import (
	"context"
	"github.com/mdlayher/ndp"
)

// H10e: a read or callback failure tears the listener down promptly: Listen
// returns the error and leaves no goroutine behind.
func zzH10e() {
	rec, st := &zzRec{}, &zzState{}
	a := zzAdvertiser(rec, st, zzCfg("eth0"))
	conn := &zzConn{blockWhenIdle: true}
	rs := &ndp.RouterSolicitation{}
	fault := zzNondetChoice("fault", 3)
	switch fault {
	case 0:
		conn.reads = []zzRead{{err: zzNetErr{}}} // non-timeout network error
	case 1:
		conn.reads = []zzRead{{err: zzErrEnv}} // opaque read error
	default:
		conn.reads = []zzRead{{m: rs, hop: 255, host: zzNondetAddr6("src")}} // callback fails
	}
	zzKnownClass("non-timeout-read-error", fault != 2)
	l := newListener(a.cctx, "eth0", conn)
	ctx, cancel := context.WithCancel(context.Background())
	defer cancel()
	var ret error
	returned := false
	go func() {
		ret = l.Listen(ctx, func(msg message) error { return zzErrEnv })
		returned = true
	}()
	zzWaitIdle()
	zzAssert(returned, "listener-stops-promptly-after-failure")
	zzAssert(ret != nil, "failure-reported")
	zzAssert(zzGoroutines() == 0, "no-goroutine-left-behind")
}
