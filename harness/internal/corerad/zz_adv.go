package corerad

import (
	"context"
	"net/netip"
	"time"

	"github.com/mdlayher/corerad/internal/config"
	"github.com/mdlayher/corerad/internal/plugin"
	"github.com/mdlayher/ndp"
)

// time.After / time.Sleep are owned by the harness: requested durations are
// logged; the returned channel is ready at once unless zzAfterBlock is set.
var (
	zzAfterLog   []time.Duration
	zzAfterBlock bool
	zzAfterChans []chan time.Time
)

func zzStub_time_After(d time.Duration) <-chan time.Time {
	zzAfterLog = append(zzAfterLog, d)
	ch := make(chan time.Time, 1)
	if zzAfterBlock {
		zzAfterChans = append(zzAfterChans, ch)
	} else {
		ch <- time.Time{}
	}
	return ch
}

// zzCfg: an advertising interface configuration with symbolic header fields
// and two static plugins.
func zzCfg(name string) config.Interface {
	return config.Interface{
		Name: name, Advertise: true,
		MinInterval: 200 * time.Second, MaxInterval: 600 * time.Second,
		Managed: zzNondetBool(name + ".managed"), OtherConfig: zzNondetBool(name + ".other"),
		ReachableTime: time.Duration(zzNondetUint32(name+".reach")) * time.Millisecond,
		HopLimit:      zzNondetUint8(name + ".hop"),
		DefaultLifetime: time.Duration(zzNondetUint16(name+".lifetime")) * time.Second,
		UnicastOnly:   zzNondetBool(name + ".unicast_only"),
		Verbose:       zzNondetBool(name + ".verbose"),
		Preference:    []ndp.Preference{ndp.Medium, ndp.High, ndp.Low}[zzNondetChoice(name+".preference", 3)],
		Plugins: []plugin.Plugin{
			&plugin.Prefix{Prefix: netip.MustParsePrefix("2001:db8::/64"), OnLink: true, Autonomous: true,
				ValidLifetime: 24 * time.Hour, PreferredLifetime: 4 * time.Hour},
			plugin.NewMTU(1500),
		},
	}
}

func zzAdvertiser(rec *zzRec, st *zzState, cfg config.Interface) *Advertiser {
	return &Advertiser{cctx: zzNewContext(rec, st), cfg: cfg, terminate: func() bool { return true }, minDelayBetweenRAs: 3 * time.Second}
}

// zzSameExceptLifetime: ra equals the RA the configuration describes, with the
// given router lifetime.
func zzCheckRA(ra *ndp.RouterAdvertisement, cfg config.Interface, lifetime time.Duration, id string) {
	if ra == nil {
		zzAssert(false, id+"/ra-present")
		return
	}
	zzAssert(ra.RouterLifetime == lifetime, id+"/router-lifetime")
	zzAssert(zzAnd(zzAnd(ra.CurrentHopLimit == cfg.HopLimit, ra.ManagedConfiguration == cfg.Managed),
		zzAnd(ra.OtherConfiguration == cfg.OtherConfig, zzAnd(ra.ReachableTime == cfg.ReachableTime, ra.RetransmitTimer == cfg.RetransmitTimer))), id+"/header")
	zzAssert(ra.RouterSelectionPreference == cfg.Preference, id+"/preference")
	zzAssert(len(ra.Options) == 2, id+"/options")
}

// H04b/H07c/H07d: sendWorker, for every destination, unicast-only setting,
// forwarding state and transmit outcome.
func zzH07send() {
	rec, st := &zzRec{}, &zzState{}
	cfg := zzCfg("eth0")
	a := zzAdvertiser(rec, st, cfg)
	conn := &zzConn{failWrite: zzNondetChoice("write.fail", 2) == 1}
	var dst netip.Addr
	switch zzNondetChoice("dst.kind", 3) {
	case 0:
		dst = netip.IPv6LinkLocalAllNodes()
	case 1:
		dst = zzNondetAddr6("dst")
	default:
		dst = zzNondetAddr6("dst").WithZone("eth0")
	}
	multicast := dst.IsMulticast()
	zzKnownClass("unicast-only-multicast-destination", zzAnd(cfg.UnicastOnly, multicast))
	err := a.sendWorker(conn, dst)

	suppressed := zzAnd(cfg.UnicastOnly, multicast)
	// C07: unicast-only never transmits to a multicast destination; otherwise exactly one write to dst
	zzAssert(len(conn.writes) == zzIte(suppressed, 0, 1), "one-write-unless-unicast-only-multicast")
	if len(conn.writes) == 1 {
		w := conn.writes[0]
		zzAssert(w.dst == dst, "destination")
		// C04: forwarding read afresh, exactly once, for this interface; lifetime follows it
		zzAssert(zzAnd(len(st.fwdCalls) == 1, len(st.fwdValues) == 1), "forwarding-read-once-per-ra")
		if len(st.fwdValues) == 1 && len(st.fwdCalls) == 1 {
			zzAssert(st.fwdCalls[0] == "eth0", "forwarding-read-for-this-interface")
			zzCheckRA(w.ra, cfg, zzIte(st.fwdValues[0], cfg.DefaultLifetime, 0), "sent-ra")
		}
	}
	transmitted := zzAnd(zzNot(suppressed), !conn.failWrite)
	zzAssert((err != nil) == (conn.failWrite && len(conn.writes) == 1), "error-iff-write-failed")
	// counters: sent-by-type counts transmissions actually made
	typ := zzIte(multicast, 1, 0)
	_ = typ
	zzAssert(rec.countL("adv_ras", "eth0", "multicast") == zzIte(zzAnd(transmitted, multicast), 1, 0), "multicast-counter-iff-multicast-transmitted")
	zzAssert(rec.countL("adv_ras", "eth0", "unicast") == zzIte(zzAnd(transmitted, zzNot(multicast)), 1, 0), "unicast-counter-iff-unicast-transmitted")
	zzAssert(rec.count("adv_last_multicast") == zzIte(zzAnd(transmitted, multicast), 1, 0), "last-multicast-gauge-iff-multicast-transmitted")
	zzAssert(rec.countL("adv_errors", "eth0", "transmit") == zzIte(conn.failWrite && len(conn.writes) == 1, 1, 0), "transmit-error-counter-iff-failed")
}

// H04b: two consecutive sends track forwarding flips.
func zzH04seq() {
	rec, st := &zzRec{}, &zzState{}
	cfg := zzCfg("eth0")
	cfg.UnicastOnly = false
	a := zzAdvertiser(rec, st, cfg)
	conn := &zzConn{}
	dst := netip.IPv6LinkLocalAllNodes()
	zzAssert(a.send(conn, dst, a.cfg) == nil, "first-send-ok")
	zzAssert(a.send(conn, dst, a.cfg) == nil, "second-send-ok")
	if len(conn.writes) != 2 || len(st.fwdValues) != 2 {
		zzAssert(false, "two-writes-two-reads")
		return
	}
	zzCheckRA(conn.writes[0].ra, cfg, zzIte(st.fwdValues[0], cfg.DefaultLifetime, 0), "first")
	zzCheckRA(conn.writes[1].ra, cfg, zzIte(st.fwdValues[1], cfg.DefaultLifetime, 0), "second")
	// C04: the condition is surfaced as a log line, once per RA built while
	// not forwarding with a non-zero configured lifetime
	want := zzIte(zzAnd(zzNot(st.fwdValues[0]), cfg.DefaultLifetime != 0), 1, 0) + zzIte(zzAnd(zzNot(st.fwdValues[1]), cfg.DefaultLifetime != 0), 1, 0)
	zzAssert(zzLogCount("not configured for IPv6 forwarding") == want, "misconfiguration-logged-once-per-affected-ra")
}

// H08a: shutdown sends exactly one zero-lifetime multicast RA iff terminating.
func zzH08a() {
	rec, st := &zzRec{}, &zzState{}
	cfg := zzCfg("eth0")
	term := zzNondetChoice("terminate", 2) == 1
	a := zzAdvertiser(rec, st, cfg)
	a.terminate = func() bool { return term }
	conn := &zzConn{failWrite: zzNondetChoice("write.fail", 2) == 1}
	before := a.cfg
	a.shutdown(conn)
	want := zzIte(zzAnd(term, zzNot(cfg.UnicastOnly)), 1, 0)
	zzAssert(len(conn.writes) == want, "one-final-ra-iff-terminating")
	if len(conn.writes) == 1 {
		w := conn.writes[0]
		zzAssert(w.dst == netip.IPv6LinkLocalAllNodes(), "final-ra-to-all-nodes")
		zzCheckRA(w.ra, cfg, 0, "final-ra")
	}
	zzAssert(zzAnd(a.cfg.DefaultLifetime == before.DefaultLifetime, a.cfg.HopLimit == before.HopLimit), "configuration-unchanged")
	if !term {
		zzAssert(len(st.fwdCalls) == 0, "reload-does-nothing")
	}
}

// H07a/H09b: handle for solicitations and for other message types.
func zzH07a() {
	rec, st := &zzRec{}, &zzState{}
	cfg := zzCfg("eth0")
	a := zzAdvertiser(rec, st, cfg)
	var host netip.Addr
	switch zzNondetChoice("host.kind", 2) {
	case 0:
		host = zzNondetAddr6("host")
	default:
		host = netip.IPv6Unspecified()
	}
	kind := zzNondetChoice("kind", 3)
	switch kind {
	case 0:
		rs := &ndp.RouterSolicitation{}
		if zzNondetChoice("lla", 2) == 1 {
			rs.Options = append(rs.Options, &ndp.LinkLayerAddress{Direction: ndp.Source, Addr: []byte{2, 0, 0, 0, 0, 1}})
		}
		ip, err := a.handle(rs, host)
		zzAssert(err == nil, "rs-no-error")
		unspec := host.As16() == [16]byte{}
		zzAssert(ip == zzIte(unspec, netip.IPv6LinkLocalAllNodes(), host), "rs-destination")
		zzAssert(rec.countL("adv_received", "eth0", "router solicitation") == 1, "rs-counted-received")
		zzAssert(len(rec.samples) == 1, "rs-nothing-else-counted")
		zzAssert(len(st.fwdCalls) == 0, "rs-builds-no-ra")
	default:
		var m ndp.Message
		tname := "neighbor solicitation"
		if kind == 1 {
			m = &ndp.NeighborSolicitation{TargetAddress: zzNondetAddr6("target")}
		} else {
			m = &ndp.NeighborAdvertisement{TargetAddress: zzNondetAddr6("target")}
			tname = "neighbor advertisement"
		}
		ip, err := a.handle(m, host)
		zzAssert(err == nil, "other-no-error")
		zzAssert(zzNot(ip.IsValid()), "other-triggers-no-ra")
		zzAssert(rec.countL("invalid", "eth0", tname) == 1, "other-counted-invalid")
		zzAssert(len(st.fwdCalls) == 0, "other-no-consistency-check")
	}
}

// H09a / H10c: receiveRetry against a scripted connection.
func zzH09a() {
	rec := &zzRec{}
	cctx := zzNewContext(rec, &zzState{})
	k := zzParam("k")
	conn := &zzConn{}
	rs := &ndp.RouterSolicitation{}
	ninvalid := zzNondetChoice("ninvalid", k) // 0..k-1 consecutive invalid messages first
	for i := 0; i < ninvalid; i++ {
		hop := int(zzNondetUint8("hop"))
		zzAssume(hop != 255)
		conn.reads = append(conn.reads, zzRead{m: rs, hop: hop, host: zzNondetAddr6("bad")})
	}
	good := zzNondetAddr6("good")
	conn.reads = append(conn.reads, zzRead{m: rs, hop: 255, host: good})
	l := newListener(cctx, "eth0", conn)
	zzKnownClass("five-or-more-consecutive-invalid", ninvalid >= 5)
	m, host, err := l.receiveRetry(context.Background())
	zzAssert(err == nil, "valid-message-after-invalid-run-is-served")
	if err == nil {
		zzAssert(zzAnd(m == ndp.Message(rs), host == good), "returns-the-valid-message")
		zzAssert(rec.countL("invalid", "eth0", "router solicitation") == ninvalid, "each-invalid-counted-once")
		zzAssert(len(rec.samples) == ninvalid, "nothing-else-counted")
	}
	zzAssert(len(zzAfterLog) == 0, "no-backoff-for-invalid-messages")
}

// H10c: receive timeouts are retried up to 5 times with back-off i*50ms.
func zzH10c() {
	rec := &zzRec{}
	cctx := zzNewContext(rec, &zzState{})
	conn := &zzConn{}
	nt := zzNondetChoice("ntimeouts", 7) // 0..6 timeouts, then either a message or another error
	for i := 0; i < nt; i++ {
		conn.reads = append(conn.reads, zzRead{err: zzTimeout{}})
	}
	tail := zzNondetChoice("tail", 3)
	rs := &ndp.RouterSolicitation{}
	switch tail {
	case 0:
		conn.reads = append(conn.reads, zzRead{m: rs, hop: 255, host: zzNondetAddr6("good")})
	case 1:
		conn.reads = append(conn.reads, zzRead{err: zzNetErr{}})
	default:
		conn.reads = append(conn.reads, zzRead{err: zzErrEnv})
	}
	l := newListener(cctx, "eth0", conn)
	zzAfterLog = nil
	m, _, err := l.receiveRetry(context.Background())
	if nt >= 5 {
		zzAssert(err == errRetriesExhausted, "exhausted-after-5-timeouts")
		zzAssert(conn.nread == 5, "exactly-5-reads")
	} else {
		zzAssert(conn.nread == nt+1, "reads-until-non-timeout")
		switch tail {
		case 0:
			zzAssert(zzAnd(err == nil, m == ndp.Message(rs)), "message-after-timeouts")
		case 1:
			_, isNet := err.(zzNetErr)
			zzAssert(isNet, "non-timeout-net-error-returned-at-once")
		default:
			zzAssert(err == zzErrEnv, "other-error-returned-at-once")
		}
	}
	want := nt
	if want > 5 {
		want = 5
	}
	zzAssert(len(zzAfterLog) == want, "one-wait-per-timeout")
	for i, d := range zzAfterLog {
		zzAssert(d == time.Duration(i)*50*time.Millisecond, "backoff-i-times-50ms")
	}
}
