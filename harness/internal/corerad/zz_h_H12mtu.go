package corerad

import (
	"github.com/mdlayher/ndp"
)

// H12mtu: MTU option present / absent on either side, always distinct
// objects (a received RA never shares memory with our own).
func zzH12mtu() {
	a, b := &ndp.RouterAdvertisement{}, &ndp.RouterAdvertisement{}
	hasA, hasB := zzNondetChoice("a.has", 2) == 1, zzNondetChoice("b.has", 2) == 1
	va, vb := zzNondetUint32("a.mtu"), zzNondetUint32("b.mtu")
	// an unrelated option first: it must not matter
	a.Options = append(a.Options, &ndp.LinkLayerAddress{Direction: ndp.Source})
	if hasA {
		a.Options = append(a.Options, ndp.NewMTU(va))
	}
	if hasB {
		b.Options = append(b.Options, ndp.NewMTU(vb))
	}
	ps := verifyRAs(a, b)
	want := zzB2I(zzAnd(hasA && hasB, va != vb))
	zzAssert(zzCount(ps, "mtu") == want, "mtu-iff-both-present-and-values-differ")
	zzAssert(len(ps) == zzCount(ps, "mtu"), "nothing-else")
}
