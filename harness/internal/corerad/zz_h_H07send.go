package corerad

import (
	"net/netip"
)

// H04b/H07c/H07d: sendWorker, for every destination, unicast-only setting,
// forwarding state and transmit outcome.
func zzH07send() {
	rec, st := &zzRec{}, &zzState{}
	cfg := zzCfg("eth0")
	a := zzAdvertiser(rec, st, cfg)
	conn := &zzConn{failWrite: zzNondetChoice("write.fail", 2) == 1}
	var dst netip.Addr
	switch zzNondetChoice("dst.kind", 3) {
	case 0:
		dst = netip.IPv6LinkLocalAllNodes()
	case 1:
		dst = zzNondetAddr6("dst")
	default:
		dst = zzNondetAddr6("dst").WithZone("eth0")
	}
	multicast := dst.IsMulticast()
	zzKnownClass("unicast-only-multicast-destination", zzAnd(cfg.UnicastOnly, multicast))
	err := a.sendWorker(conn, dst)

	suppressed := zzAnd(cfg.UnicastOnly, multicast)
	// C07: unicast-only never transmits to a multicast destination; otherwise exactly one write to dst
	zzAssert(len(conn.writes) == zzIte(suppressed, 0, 1), "one-write-unless-unicast-only-multicast")
	if len(conn.writes) == 1 {
		w := conn.writes[0]
		zzAssert(w.dst == dst, "destination")
		// C04: forwarding read afresh, exactly once, for this interface; lifetime follows it
		zzAssert(zzAnd(len(st.fwdCalls) == 1, len(st.fwdValues) == 1), "forwarding-read-once-per-ra")
		if len(st.fwdValues) == 1 && len(st.fwdCalls) == 1 {
			zzAssert(st.fwdCalls[0] == "eth0", "forwarding-read-for-this-interface")
			zzCheckRA(w.ra, cfg, zzIte(st.fwdValues[0], cfg.DefaultLifetime, 0), "sent-ra")
		}
	}
	transmitted := zzAnd(zzNot(suppressed), !conn.failWrite)
	zzAssert((err != nil) == (conn.failWrite && len(conn.writes) == 1), "error-iff-write-failed")
	// counters: sent-by-type counts transmissions actually made
	typ := zzIte(multicast, 1, 0)
	_ = typ
	zzAssert(rec.countL("adv_ras", "eth0", "multicast") == zzIte(zzAnd(transmitted, multicast), 1, 0), "multicast-counter-iff-multicast-transmitted")
	zzAssert(rec.countL("adv_ras", "eth0", "unicast") == zzIte(zzAnd(transmitted, zzNot(multicast)), 1, 0), "unicast-counter-iff-unicast-transmitted")
	zzAssert(rec.count("adv_last_multicast") == zzIte(zzAnd(transmitted, multicast), 1, 0), "last-multicast-gauge-iff-multicast-transmitted")
	zzAssert(rec.countL("adv_errors", "eth0", "transmit") == zzIte(conn.failWrite && len(conn.writes) == 1, 1, 0), "transmit-error-counter-iff-failed")
}
