package corerad

import (
	"github.com/mdlayher/ndp"
)

// H12route: route lifetime only for equal prefix and equal preference.
func zzH12route() {
	n := zzParam("n")
	a, b := &ndp.RouterAdvertisement{}, &ndp.RouterAdvertisement{}
	na, nb := zzNondetChoice("a.n", n+1), zzNondetChoice("b.n", n+1)
	var ra, rb []*ndp.RouteInformation
	for i := 0; i < na; i++ {
		r := zzNondetRI("a"+string(rune('0'+i)), true)
		ra = append(ra, r)
		a.Options = append(a.Options, r)
	}
	for i := 0; i < nb; i++ {
		r := zzNondetRI("b"+string(rune('0'+i)), false)
		rb = append(rb, r)
		b.Options = append(b.Options, r)
	}
	ps := verifyRAs(a, b)
	want := 0
	for _, x := range ra {
		for _, y := range rb {
			match := zzAnd(zzAnd(x.Prefix == y.Prefix, x.PrefixLength == y.PrefixLength), x.Preference == y.Preference)
			want += zzB2I(zzAnd(match, zzDiffer(x.RouteLifetime, y.RouteLifetime)))
		}
	}
	zzAssert(zzCount(ps, "route_information_lifetime") == want, "route-lifetime-reports")
	zzAssert(len(ps) == zzCount(ps, "route_information_lifetime"), "nothing-else")
}
