package corerad

import (
	"errors"
	"log"
	"net/netip"
	"time"

	"golang.org/x/net/ipv6"

	"github.com/mdlayher/corerad/internal/system"
	"github.com/mdlayher/ndp"
)

var zzErrEnv = errors.New("zz: environment failure")

// ---- recording metrics ----

type zzSample struct {
	metric string
	value  float64
	labels []string
}

type zzRec struct{ samples []zzSample }

func (r *zzRec) fn(metric string) func(float64, ...string) {
	return func(v float64, l ...string) {
		r.samples = append(r.samples, zzSample{metric, v, append([]string(nil), l...)})
	}
}

func (r *zzRec) count(metric string) int {
	n := 0
	for _, s := range r.samples {
		if s.metric == metric {
			n++
		}
	}
	return n
}

// countL: samples of metric whose labels equal want exactly (strings may be symbolic)
func (r *zzRec) countL(metric string, want ...string) int {
	n := 0
	for _, s := range r.samples {
		if s.metric != metric || len(s.labels) != len(want) {
			continue
		}
		eq := true
		for i := range want {
			eq = zzAnd(eq, zzStrEq(s.labels[i], want[i]))
		}
		n += zzIte(eq, 1, 0)
	}
	return n
}

func (r *zzRec) first(metric string) (zzSample, bool) {
	for _, s := range r.samples {
		if s.metric == metric {
			return s, true
		}
	}
	return zzSample{}, false
}

func (r *zzRec) last(metric string) (zzSample, bool) {
	for i := len(r.samples) - 1; i >= 0; i-- {
		if r.samples[i].metric == metric {
			return r.samples[i], true
		}
	}
	return zzSample{}, false
}

func zzNewMetrics(r *zzRec) *Metrics {
	return &Metrics{
		Info:                         r.fn("info"),
		Time:                         r.fn("time"),
		MessagesReceivedInvalidTotal: r.fn("invalid"),
		AdvLastMulticastTime:         r.fn("adv_last_multicast"),
		AdvMessagesReceivedTotal:     r.fn("adv_received"),
		AdvRouterAdvertisementInconsistenciesTotal: r.fn("adv_inconsistencies"),
		AdvRouterAdvertisementsTotal:               r.fn("adv_ras"),
		AdvErrorsTotal:                             r.fn("adv_errors"),
		MonMessagesReceivedTotal:                   r.fn("mon_received"),
		MonFlagManaged:                             r.fn("mon_managed"),
		MonFlagOther:                               r.fn("mon_other"),
		MonDefaultRouteExpirationTime:              r.fn("mon_default_route"),
		MonPrefixAutonomous:                        r.fn("mon_prefix_autonomous"),
		MonPrefixOnLink:                            r.fn("mon_prefix_on_link"),
		MonPrefixPreferredLifetimeExpirationTime:   r.fn("mon_prefix_preferred"),
		MonPrefixValidLifetimeExpirationTime:       r.fn("mon_prefix_valid"),
	}
}

// ---- system state stub ----

type zzState struct {
	fwdCalls   []string // interface names asked
	fwdValues  []bool   // answers given (fresh per call)
	fwdFail    bool
	autoconf   bool
	autoCalls  int
	fwdFixed   *bool // when set: the answer to every forwarding query
}

func (s *zzState) IPv6Autoconf(iface string) (bool, error) { s.autoCalls++; return s.autoconf, nil }
func (s *zzState) IPv6Forwarding(iface string) (bool, error) {
	s.fwdCalls = append(s.fwdCalls, iface)
	if s.fwdFail {
		return false, zzErrEnv
	}
	var v bool
	if s.fwdFixed != nil {
		v = *s.fwdFixed
	} else {
		v = zzNondetBool("forwarding")
	}
	s.fwdValues = append(s.fwdValues, v)
	return v, nil
}
func (s *zzState) SetIPv6Autoconf(iface string, enable bool) error { s.autoconf = enable; return nil }

var _ system.State = (*zzState)(nil)

func zzNewContext(r *zzRec, st system.State) *Context {
	// the real constructor, so that state it sets up is there
	return NewContext(log.New(zzLogW{}, "", 0), zzNewMetrics(r), st)
}

// ---- connection stub ----

type zzWrite struct {
	ra  *ndp.RouterAdvertisement
	dst netip.Addr
}

type zzConn struct {
	writes    []zzWrite
	failWrite bool // every write fails
	reads     []zzRead
	nread     int
	deadlines int

	blockWhenIdle bool
	wake          chan struct{}
	woken         bool
	inject        chan zzRead

	// gateUnicast: a unicast transmission blocks inside the socket until released
	gateUnicast bool
	release     chan struct{}
	inFlight    int
	events      []string // order of visible events: "write:<n>", "run-returned"

	onWrite func(n int) // called with the number of writes made before this one
}

type zzRead struct {
	m    ndp.Message
	hop  int
	host netip.Addr
	err  error
}

func (c *zzConn) ReadFrom() (ndp.Message, *ipv6.ControlMessage, netip.Addr, error) {
	if c.nread >= len(c.reads) {
		if c.blockWhenIdle {
			// a real socket blocks until a message arrives or the read deadline is moved into the past
			if c.wake == nil {
				c.wake = make(chan struct{})
			}
			if c.inject == nil {
				c.inject = make(chan zzRead)
			}
			select {
			case r := <-c.inject:
				if r.err != nil {
					return nil, nil, netip.Addr{}, r.err
				}
				return r.m, &ipv6.ControlMessage{HopLimit: r.hop}, r.host, nil
			case <-c.wake:
				return nil, nil, netip.Addr{}, zzTimeout{}
			}
		}
		return nil, nil, netip.Addr{}, zzErrEnv
	}
	r := c.reads[c.nread]
	c.nread++
	if r.err != nil {
		return nil, nil, netip.Addr{}, r.err
	}
	return r.m, &ipv6.ControlMessage{HopLimit: r.hop}, r.host, nil
}

func (c *zzConn) SetReadDeadline(t time.Time) error {
	c.deadlines++
	if c.blockWhenIdle {
		if c.wake == nil {
			c.wake = make(chan struct{})
		}
		if !c.woken {
			c.woken = true
			close(c.wake)
		}
	}
	return nil
}

func (c *zzConn) WriteTo(m ndp.Message, cm *ipv6.ControlMessage, dst netip.Addr) error {
	ra, _ := m.(*ndp.RouterAdvertisement)
	if c.onWrite != nil {
		c.onWrite(len(c.writes))
	}
	if c.gateUnicast && !dst.IsMulticast() {
		if c.release == nil {
			c.release = make(chan struct{})
		}
		c.inFlight++
		<-c.release // the packet leaves the machine only now
		c.inFlight--
	}
	c.writes = append(c.writes, zzWrite{ra: ra, dst: dst})
	c.events = append(c.events, "write")
	if c.failWrite {
		return zzErrEnv
	}
	return nil
}

var _ system.Conn = (*zzConn)(nil)

// zzTimeout is a net.Error that reports a timeout (read deadline).
type zzTimeout struct{}

func (zzTimeout) Error() string   { return "zz: i/o timeout" }
func (zzTimeout) Timeout() bool   { return true }
func (zzTimeout) Temporary() bool { return true }

// zzNetErr is a net.Error that is not a timeout.
type zzNetErr struct{}

func (zzNetErr) Error() string   { return "zz: network error" }
func (zzNetErr) Timeout() bool   { return false }
func (zzNetErr) Temporary() bool { return false }
