package corerad

import (
	"context"
	"net/netip"
)

// H04sched: a scheduled RA (solicited unicast with its random delay, or a
// multicast RA deferred by the rate limit) is generated when it is sent, not
// when it is queued: forwarding may flip in between and the RA that goes out
// carries the lifetime that fits the forwarding state at that moment (C04:
// "at the moment an RA is generated ... tracks forwarding changes").
// Driven through the scheduler only, not through its helpers.
func zzH04sched() {
	rec := &zzRec{}
	fwd := zzNondetBool("forwarding.when-queued")
	st := &zzState{fwdFixed: &fwd}
	cfg := zzCfg("eth0")
	cfg.UnicastOnly = false
	cfg.Verbose = false
	a := zzAdvertiser(rec, st, cfg)
	conn := &zzConn{}
	ipC := make(chan netip.Addr, 16)
	ctx, cancel := context.WithCancel(context.Background())
	go func() { _ = a.schedule(ctx, conn, ipC) }()
	zzWaitIdle()

	dst := netip.IPv6LinkLocalAllNodes()
	if zzNondetChoice("unicast", 2) == 1 {
		dst = zzNondetAddr6("src")
		zzAssume(zzNot(dst.IsMulticast()))
	}
	zzAdvance("request.at")
	ipC <- dst
	zzWaitIdle() // the scheduler queues the RA
	zzAssert(len(zzSG.tasks) == 1, "one-ra-queued")
	if len(zzSG.tasks) != 1 {
		cancel()
		return
	}
	// forwarding changes (or not) while the RA waits
	fwd = zzNondetBool("forwarding.when-sent")
	t := zzSG.tasks[0]
	zzClock = t.registered.Add(t.delay)
	zzFire(t)
	zzWaitIdle()
	zzAssert(len(conn.writes) == 1, "the-queued-ra-is-sent")
	if len(conn.writes) == 1 {
		zzAssert(conn.writes[0].ra.RouterLifetime == zzIte(fwd, cfg.DefaultLifetime, 0), "lifetime-follows-forwarding-at-the-time-of-sending")
	}
	cancel()
	zzWaitIdle()
}
