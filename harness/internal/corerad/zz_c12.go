package corerad

import (
	"net/netip"
	"time"

	"github.com/mdlayher/ndp"
)

func zzB2I(b bool) int { return zzIte(b, 1, 0) }

// zzOwnLifetime: a lifetime as CoreRAD's own RA may carry it: any nanosecond
// value in [0, ndp.Infinity] (what the configuration parser accepts, C02, and
// what a deprecated lifetime counts down through).
func zzOwnLifetime(name string) time.Duration {
	d := zzNondetDuration(name)
	zzAssume(zzAnd(d >= 0, d <= ndp.Infinity))
	return d
}

// zzRecvLifetime: a lifetime as decoded from a received packet: 32 bits of
// whole seconds.
func zzRecvLifetime(name string) time.Duration {
	return time.Duration(zzNondetUint32(name)) * time.Second
}

// zzOnWire: the lifetime an identically configured peer's packet carries:
// ndp encodes a lifetime as uint32(d.Seconds()) and decodes whole seconds.
// H12oracle checks this definition against ndp's real encoder and decoder for
// every option kind that carries a lifetime.
func zzOnWire(d time.Duration) time.Duration {
	return time.Duration(uint32(d.Seconds())) * time.Second
}

// H12oracle: zzOnWire is what ndp's codec does to the lifetime of a prefix,
// route, RDNSS and DNSSL option (any own lifetime in [0, ndp.Infinity]).
func zzH12oracle() {
	d := zzOwnLifetime("lifetime")
	var o ndp.Option
	kind := zzNondetChoice("option-kind", 5)
	switch kind {
	case 0:
		o = &ndp.PrefixInformation{PrefixLength: 64, Prefix: netip.MustParseAddr("2001:db8::"), ValidLifetime: d, PreferredLifetime: time.Hour}
	case 1:
		o = &ndp.PrefixInformation{PrefixLength: 64, Prefix: netip.MustParseAddr("2001:db8::"), ValidLifetime: time.Hour, PreferredLifetime: d}
	case 2:
		o = &ndp.RouteInformation{PrefixLength: 48, Prefix: netip.MustParseAddr("2001:db8::"), RouteLifetime: d}
	case 3:
		o = &ndp.RecursiveDNSServer{Lifetime: d, Servers: []netip.Addr{netip.IPv6Unspecified()}}
	default:
		o = &ndp.DNSSearchList{Lifetime: d, DomainNames: []string{"example.com"}}
	}
	b, err := ndp.MarshalMessage(&ndp.RouterAdvertisement{Options: []ndp.Option{o}})
	zzAssert(err == nil, "encodes")
	if err != nil {
		return
	}
	m, err := ndp.ParseMessage(b)
	zzAssert(err == nil, "decodes")
	if err != nil {
		return
	}
	var got time.Duration
	switch p := m.(*ndp.RouterAdvertisement).Options[0].(type) {
	case *ndp.PrefixInformation:
		got = p.ValidLifetime
		if kind == 1 {
			got = p.PreferredLifetime
		}
	case *ndp.RouteInformation:
		got = p.RouteLifetime
	case *ndp.RecursiveDNSServer:
		got = p.Lifetime
	case *ndp.DNSSearchList:
		got = p.Lifetime
	}
	zzAssert(got == zzOnWire(d), "wire-lifetime-is-uint32-of-seconds")
	zzAssert(zzAnd(got <= d+time.Second, d-got < time.Second), "wire-lifetime-within-a-second")
}

// zzDiffer: our lifetime and a received one are different on the wire.
func zzDiffer(ours, theirs time.Duration) bool { return zzOnWire(ours) != theirs }

// zzCount: how many problems carry this field label.
func zzCount(ps []problem, field string) int {
	n := 0
	for _, p := range ps {
		if p.Field == field {
			n++
		}
	}
	return n
}

// zzOwnTimer: a reachable time / retransmit timer as configured: any
// nanosecond value in [0, 1h] (what the configuration parser accepts).
func zzOwnTimer(name string) time.Duration {
	d := zzNondetDuration(name)
	zzAssume(zzAnd(d >= 0, d <= time.Hour))
	return d
}

// H12ra: header fields (a is ours, b is decoded from a packet).
func zzH12ra() {
	a := &ndp.RouterAdvertisement{
		CurrentHopLimit: zzNondetUint8("a.hop"), ManagedConfiguration: zzNondetBool("a.m"), OtherConfiguration: zzNondetBool("a.o"),
		ReachableTime: zzOwnTimer("a.reach"), RetransmitTimer: zzOwnTimer("a.retrans"),
		RouterLifetime: zzNondetDuration("a.life"), RouterSelectionPreference: ndp.Preference(zzNondetChoice("a.pref", 2)),
	}
	b := &ndp.RouterAdvertisement{
		CurrentHopLimit: zzNondetUint8("b.hop"), ManagedConfiguration: zzNondetBool("b.m"), OtherConfiguration: zzNondetBool("b.o"),
		ReachableTime: time.Duration(zzNondetUint32("b.reach")) * time.Millisecond, RetransmitTimer: time.Duration(zzNondetUint32("b.retrans")) * time.Millisecond,
		RouterLifetime: zzNondetDuration("b.life"), RouterSelectionPreference: ndp.Preference(zzNondetChoice("b.pref", 2)),
	}
	ps := verifyRAs(a, b)
	zzAssert(zzCount(ps, "hop_limit") == zzB2I(a.CurrentHopLimit != b.CurrentHopLimit), "hop-limit-iff-differs")
	zzAssert(zzCount(ps, "managed_configuration") == zzB2I(a.ManagedConfiguration != b.ManagedConfiguration), "managed-iff-differs")
	zzAssert(zzCount(ps, "other_configuration") == zzB2I(a.OtherConfiguration != b.OtherConfiguration), "other-iff-differs")
	// ours are compared as they appear on the wire (whole milliseconds)
	reachA, retransA := a.ReachableTime/time.Millisecond*time.Millisecond, a.RetransmitTimer/time.Millisecond*time.Millisecond
	zzAssert(zzCount(ps, "reachable_time") == zzB2I(zzAnd(zzAnd(reachA != 0, b.ReachableTime != 0), reachA != b.ReachableTime)), "reachable-iff-both-set-and-differ")
	zzAssert(zzCount(ps, "retransmit_timer") == zzB2I(zzAnd(zzAnd(retransA != 0, b.RetransmitTimer != 0), retransA != b.RetransmitTimer)), "retransmit-iff-both-set-and-differ")
	zzAssert(len(ps) == zzCount(ps, "hop_limit")+zzCount(ps, "managed_configuration")+zzCount(ps, "other_configuration")+zzCount(ps, "reachable_time")+zzCount(ps, "retransmit_timer"), "nothing-else")
}

// H12mtu: MTU option present / absent on either side, always distinct
// objects (a received RA never shares memory with our own).
func zzH12mtu() {
	a, b := &ndp.RouterAdvertisement{}, &ndp.RouterAdvertisement{}
	hasA, hasB := zzNondetChoice("a.has", 2) == 1, zzNondetChoice("b.has", 2) == 1
	va, vb := zzNondetUint32("a.mtu"), zzNondetUint32("b.mtu")
	// an unrelated option first: it must not matter
	a.Options = append(a.Options, &ndp.LinkLayerAddress{Direction: ndp.Source})
	if hasA {
		a.Options = append(a.Options, ndp.NewMTU(va))
	}
	if hasB {
		b.Options = append(b.Options, ndp.NewMTU(vb))
	}
	ps := verifyRAs(a, b)
	want := zzB2I(zzAnd(hasA && hasB, va != vb))
	zzAssert(zzCount(ps, "mtu") == want, "mtu-iff-both-present-and-values-differ")
	zzAssert(len(ps) == zzCount(ps, "mtu"), "nothing-else")
}

// H12captive: captive-portal URI.
func zzH12captive() {
	a, b := &ndp.RouterAdvertisement{}, &ndp.RouterAdvertisement{}
	hasA, hasB := zzNondetChoice("a.has", 2) == 1, zzNondetChoice("b.has", 2) == 1
	same := zzNondetChoice("same-uri", 2) == 1
	ua, ub := "https://a.example/portal", "https://b.example/portal"
	if same {
		ub = ua
	}
	if hasA {
		a.Options = append(a.Options, &ndp.CaptivePortal{URI: ua})
	}
	if hasB {
		b.Options = append(b.Options, &ndp.CaptivePortal{URI: ub})
	}
	ps := verifyRAs(a, b)
	want := 0
	if hasA && hasB && !same {
		want = 1
	}
	zzAssert(zzCount(ps, "captive_portal") == want, "captive-portal-iff-both-present-and-uris-differ")
	zzAssert(len(ps) == zzCount(ps, "captive_portal"), "nothing-else")
}

func zzNondetPI(name string, ours bool) *ndp.PrefixInformation {
	life := zzRecvLifetime
	if ours {
		life = zzOwnLifetime
	}
	return &ndp.PrefixInformation{
		PrefixLength: zzNondetUint8(name + ".len"), OnLink: zzNondetBool(name + ".l"), AutonomousAddressConfiguration: zzNondetBool(name + ".a"),
		ValidLifetime: life(name + ".valid"), PreferredLifetime: life(name + ".pref"),
		Prefix: zzNondetAddr6(name + ".prefix"),
	}
}

// H12prefix: up to n prefix options per side (plus an unrelated option).
func zzH12prefix() {
	n := zzParam("n")
	a, b := &ndp.RouterAdvertisement{}, &ndp.RouterAdvertisement{}
	na, nb := zzNondetChoice("a.n", n+1), zzNondetChoice("b.n", n+1)
	var pa, pb []*ndp.PrefixInformation
	for i := 0; i < na; i++ {
		p := zzNondetPI("a"+string(rune('0'+i)), true)
		pa = append(pa, p)
		a.Options = append(a.Options, p)
	}
	b.Options = append(b.Options, ndp.NewMTU(1500))
	for i := 0; i < nb; i++ {
		p := zzNondetPI("b"+string(rune('0'+i)), false)
		pb = append(pb, p)
		b.Options = append(b.Options, p)
	}
	ps := verifyRAs(a, b)
	wantPref, wantValid := 0, 0
	for _, x := range pa {
		for _, y := range pb {
			match := zzAnd(x.Prefix == y.Prefix, x.PrefixLength == y.PrefixLength)
			wantPref += zzB2I(zzAnd(match, zzDiffer(x.PreferredLifetime, y.PreferredLifetime)))
			wantValid += zzB2I(zzAnd(match, zzDiffer(x.ValidLifetime, y.ValidLifetime)))
		}
	}
	zzAssert(zzCount(ps, "prefix_information_preferred_lifetime") == wantPref, "preferred-lifetime-reports")
	zzAssert(zzCount(ps, "prefix_information_valid_lifetime") == wantValid, "valid-lifetime-reports")
	zzAssert(len(ps) == zzCount(ps, "prefix_information_preferred_lifetime")+zzCount(ps, "prefix_information_valid_lifetime"), "nothing-else")
}

func zzNondetRI(name string, ours bool) *ndp.RouteInformation {
	life := zzRecvLifetime
	if ours {
		life = zzOwnLifetime
	}
	return &ndp.RouteInformation{
		PrefixLength: zzNondetUint8(name + ".len"), Preference: ndp.Preference(zzNondetUint8(name+".pref") & 3),
		RouteLifetime: life(name + ".life"), Prefix: zzNondetAddr6(name + ".prefix"),
	}
}

// H12route: route lifetime only for equal prefix and equal preference.
func zzH12route() {
	n := zzParam("n")
	a, b := &ndp.RouterAdvertisement{}, &ndp.RouterAdvertisement{}
	na, nb := zzNondetChoice("a.n", n+1), zzNondetChoice("b.n", n+1)
	var ra, rb []*ndp.RouteInformation
	for i := 0; i < na; i++ {
		r := zzNondetRI("a"+string(rune('0'+i)), true)
		ra = append(ra, r)
		a.Options = append(a.Options, r)
	}
	for i := 0; i < nb; i++ {
		r := zzNondetRI("b"+string(rune('0'+i)), false)
		rb = append(rb, r)
		b.Options = append(b.Options, r)
	}
	ps := verifyRAs(a, b)
	want := 0
	for _, x := range ra {
		for _, y := range rb {
			match := zzAnd(zzAnd(x.Prefix == y.Prefix, x.PrefixLength == y.PrefixLength), x.Preference == y.Preference)
			want += zzB2I(zzAnd(match, zzDiffer(x.RouteLifetime, y.RouteLifetime)))
		}
	}
	zzAssert(zzCount(ps, "route_information_lifetime") == want, "route-lifetime-reports")
	zzAssert(len(ps) == zzCount(ps, "route_information_lifetime"), "nothing-else")
}

func zzNondetRDNSS(name string, maxServers int, ours bool) *ndp.RecursiveDNSServer {
	life := zzRecvLifetime
	if ours {
		life = zzOwnLifetime
	}
	r := &ndp.RecursiveDNSServer{Lifetime: life(name + ".life")}
	ns := zzNondetChoice(name+".nservers", maxServers) + 1
	for j := 0; j < ns; j++ {
		r.Servers = append(r.Servers, zzNondetAddr6(name+".s"+string(rune('0'+j))))
	}
	return r
}

func zzAddrsEqual(x, y []netip.Addr) bool {
	if len(x) != len(y) {
		return false
	}
	eq := true
	for i := range x {
		eq = zzAnd(eq, x[i] == y[i])
	}
	return eq
}

// H12rdnss: option count, else per-index lifetime and server list.
func zzH12rdnss() {
	n := zzParam("n")
	a, b := &ndp.RouterAdvertisement{}, &ndp.RouterAdvertisement{}
	na, nb := zzNondetChoice("a.n", n+1), zzNondetChoice("b.n", n+1)
	var da, db []*ndp.RecursiveDNSServer
	for i := 0; i < na; i++ {
		r := zzNondetRDNSS("a"+string(rune('0'+i)), 2, true)
		da = append(da, r)
		a.Options = append(a.Options, r)
	}
	for i := 0; i < nb; i++ {
		r := zzNondetRDNSS("b"+string(rune('0'+i)), 2, false)
		db = append(db, r)
		b.Options = append(b.Options, r)
	}
	ps := verifyRAs(a, b)
	wantCount, wantLife, wantServers := 0, 0, 0
	if na > 0 && nb > 0 {
		if na != nb {
			wantCount = 1
		} else {
			for i := range da {
				wantLife += zzB2I(zzDiffer(da[i].Lifetime, db[i].Lifetime))
				wantServers += zzB2I(zzNot(zzAddrsEqual(da[i].Servers, db[i].Servers)))
			}
		}
	}
	zzAssert(zzCount(ps, "rdnss_count") == wantCount, "rdnss-count")
	zzAssert(zzCount(ps, "rdnss_lifetime") == wantLife, "rdnss-lifetime")
	zzAssert(zzCount(ps, "rdnss_servers") == wantServers, "rdnss-servers")
	zzAssert(len(ps) == zzCount(ps, "rdnss_count")+zzCount(ps, "rdnss_lifetime")+zzCount(ps, "rdnss_servers"), "nothing-else")
}

// H12dnssl: option count, else per-index lifetime and names (names drawn from
// two distinct tokens; the first option of a side has one or two names).
func zzH12dnssl() {
	n := zzParam("n")
	names := []string{"a.example", "b.example"}
	mk := func(name string, first, ours bool) *ndp.DNSSearchList {
		life := zzRecvLifetime
		if ours {
			life = zzOwnLifetime
		}
		d := &ndp.DNSSearchList{Lifetime: life(name + ".life")}
		nn := 1
		if first {
			nn = zzNondetChoice(name+".nnames", 2) + 1
		}
		for j := 0; j < nn; j++ {
			d.DomainNames = append(d.DomainNames, names[zzNondetChoice(name+".name"+string(rune('0'+j)), 2)])
		}
		return d
	}
	a, b := &ndp.RouterAdvertisement{}, &ndp.RouterAdvertisement{}
	na, nb := zzNondetChoice("a.n", n+1), zzNondetChoice("b.n", n+1)
	var da, db []*ndp.DNSSearchList
	for i := 0; i < na; i++ {
		d := mk("a"+string(rune('0'+i)), i == 0, true)
		da = append(da, d)
		a.Options = append(a.Options, d)
	}
	for i := 0; i < nb; i++ {
		d := mk("b"+string(rune('0'+i)), i == 0, false)
		db = append(db, d)
		b.Options = append(b.Options, d)
	}
	ps := verifyRAs(a, b)
	wantCount, wantLife, wantNames := 0, 0, 0
	if na > 0 && nb > 0 {
		if na != nb {
			wantCount = 1
		} else {
			for i := range da {
				wantLife += zzB2I(zzDiffer(da[i].Lifetime, db[i].Lifetime))
				same := len(da[i].DomainNames) == len(db[i].DomainNames)
				if same {
					for j := range da[i].DomainNames {
						if da[i].DomainNames[j] != db[i].DomainNames[j] {
							same = false
						}
					}
				}
				if !same {
					wantNames++
				}
			}
		}
	}
	zzAssert(zzCount(ps, "dnssl_count") == wantCount, "dnssl-count")
	zzAssert(zzCount(ps, "dnssl_lifetime") == wantLife, "dnssl-lifetime")
	zzAssert(zzCount(ps, "dnssl_domain_names") == wantNames, "dnssl-names")
	zzAssert(len(ps) == zzCount(ps, "dnssl_count")+zzCount(ps, "dnssl_lifetime")+zzCount(ps, "dnssl_domain_names"), "nothing-else")
}

var _ = time.Second
