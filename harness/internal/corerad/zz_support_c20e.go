package corerad
