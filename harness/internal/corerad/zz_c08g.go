package corerad

import (
	"context"
	"net"
	"net/netip"

	"github.com/mdlayher/corerad/internal/netstate"
	"github.com/mdlayher/corerad/internal/system"
)

// H08g: the advertiser holds an open link-state subscription, as the server
// always provides. On every stop the server cancels the context and the
// watcher, ending, closes every subscription channel. The stop may come at any
// moment of the advertiser's start-up (every schedule of its goroutines up to
// the budget is explored): a link-state goroutine that has not parked yet sees
// the cancellation and the closed channel at once and select picks either.
// The stop must still be a stop: prompt, success, the task is not
// re-established, and once the initial RA went out, exactly one zero-lifetime
// final RA is the last packet when terminating, none when reloading.
// Natively the interleaving is up to the runtime, so the scenario is repeated.
func zzH08g() {
	term := zzNondetChoice("terminate", 2) == 1
	fwd := zzNondetBool("forwarding")
	cfg := zzCfg("eth0")
	cfg.UnicastOnly = false
	cfg.Verbose = false
	for trial := 0; trial < zzNativeTrials(40); trial++ {
		rec, st := &zzRec{}, &zzState{fwdFixed: &fwd}
		conn := &zzConn{blockWhenIdle: true}
		dialer := system.NewDialer("eth0", st, system.Advertise, nil)
		dials := 0
		dialer.DialFunc = func() (*system.DialContext, error) {
			dials++
			if dials > 1 {
				// re-establishing the task means the stop was taken for a link change
				zzAssert(false, "a-stop-is-not-mistaken-for-a-link-change")
				return nil, zzErrEnv
			}
			return &system.DialContext{Conn: conn, Interface: &net.Interface{Index: 2, Name: "eth0"}, IP: netip.MustParseAddr("fe80::1")}, nil
		}
		watchC := make(chan netstate.Change, 8)
		a := NewAdvertiser(zzNewContext(rec, st), cfg, dialer, watchC, func() bool { return term })
		zzAfterBlock = true
		ctx, cancel := context.WithCancel(context.Background())
		var ret error
		returned := false
		stop := func() {
			cancel()
			close(watchC) // netstate.Watcher.Watch closes every subscription when it ends
		}
		native := zzNativeTrials(40) > 1
		if native {
			// natively the start-up window is hit by stopping from inside the
			// initial transmission (before advertise starts its goroutines)
			zzReplayRestart()
			conn.onWrite = func(n int) {
				if n == 0 {
					stop()
				}
			}
		}
		go func() {
			ret = a.Run(ctx)
			returned = true
		}()
		if !native {
			zzYield("start-up") // the stop arrives at any point of the start-up
			stop()
		}
		zzWaitIdle()
		zzAssert(returned, "stops-promptly")
		if !returned {
			return
		}
		zzAssert(ret == nil, "reports-success")
		n := len(conn.writes)
		if term {
			zzAssert(n == 0 || n == 2, "one-final-ra-once-the-initial-ra-went-out")
			if n == 2 {
				lw := conn.writes[1]
				zzAssert(zzAnd(lw.dst == netip.IPv6LinkLocalAllNodes(), lw.ra.RouterLifetime == 0), "final-zero-lifetime-ra-is-the-last-packet")
			}
		} else {
			zzAssert(n <= 1, "no-final-ra-on-reload")
		}
	}
}
