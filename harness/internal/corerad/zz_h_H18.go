package corerad

import (
	"github.com/mdlayher/ndp"
	"time"
)

// H18: Monitor.handle for every message kind.
func zzH18() {
	rec := &zzRec{}
	now := zzNondetInstant("now", false)
	m := NewMonitor(zzNewContext(rec, &zzState{}), "eth0", nil, nil, zzNondetChoice("verbose", 2) == 1)
	m.now = func() time.Time { return now }
	host := zzAtom("host")

	kind := zzNondetChoice("kind", 4)
	if kind != 0 {
		var msg ndp.Message
		var tname string
		switch kind {
		case 1:
			msg, tname = &ndp.RouterSolicitation{}, "router solicitation"
		case 2:
			msg, tname = &ndp.NeighborSolicitation{TargetAddress: zzNondetAddr6("target")}, "neighbor solicitation"
		default:
			msg, tname = &ndp.NeighborAdvertisement{TargetAddress: zzNondetAddr6("target")}, "neighbor advertisement"
		}
		m.handle(msg, host)
		zzAssert(rec.countL("mon_received", "eth0", host, tname) == 1, "counted-once-by-iface-host-type")
		zzAssert(len(rec.samples) == 1, "nothing-else-for-non-ra")
		return
	}

	// router advertisement: symbolic header, 0..2 prefix options, one unrelated option
	np := zzNondetChoice("nprefix", zzParam("prefixes")+1)
	ra := &ndp.RouterAdvertisement{
		ManagedConfiguration: zzNondetBool("m"), OtherConfiguration: zzNondetBool("o"),
		CurrentHopLimit: zzNondetUint8("hop"),
	}
	// lifetimes as they come off the wire: whole seconds
	life := time.Duration(zzNondetUint16("router_lifetime")) * time.Second
	ra.RouterLifetime = life
	ra.Options = append(ra.Options, &ndp.RawOption{Type: 200, Length: 1, Value: []byte{1, 2, 3, 4, 5, 6}})
	var pis []*ndp.PrefixInformation
	for i := 0; i < np; i++ {
		n := "p" + string(rune('0'+i))
		pi := &ndp.PrefixInformation{
			PrefixLength: zzNondetUint8(n + ".len"), OnLink: zzNondetBool(n + ".l"), AutonomousAddressConfiguration: zzNondetBool(n + ".a"),
			ValidLifetime:     time.Duration(zzNondetUint32(n+".valid")) * time.Second,
			PreferredLifetime: time.Duration(zzNondetUint32(n+".pref")) * time.Second,
			Prefix:            zzNondetAddr6(n + ".prefix"),
		}
		zzAssume(pi.PrefixLength <= 128)
		pis = append(pis, pi)
		ra.Options = append(ra.Options, pi)
	}
	m.handle(ra, host)

	zzAssert(rec.countL("mon_received", "eth0", host, "router advertisement") == 1, "counted-once-by-iface-host-type")
	zzAssert(zzAnd(rec.countL("mon_managed", "eth0", host) == 1, rec.countL("mon_other", "eth0", host) == 1), "flag-gauges-once")
	if s, ok := rec.first("mon_managed"); ok {
		zzAssert(s.value == boolFloat(ra.ManagedConfiguration), "managed-value")
	}
	if s, ok := rec.first("mon_other"); ok {
		zzAssert(s.value == boolFloat(ra.OtherConfiguration), "other-value")
	}
	zzAssert(rec.count("mon_default_route") == zzIte(life != 0, 1, 0), "default-route-iff-nonzero-lifetime")
	if s, ok := rec.first("mon_default_route"); ok {
		zzAssert(s.value == float64(zzUnixAfter(now, life)), "default-route-expiry")
		zzAssert(zzAnd(zzStrEq(s.labels[0], "eth0"), zzStrEq(s.labels[1], host)), "default-route-labels")
	}
	zzAssert(zzAnd(rec.count("mon_prefix_autonomous") == np, rec.count("mon_prefix_on_link") == np), "per-prefix-flag-gauges")
	zzAssert(zzAnd(rec.count("mon_prefix_preferred") == np, rec.count("mon_prefix_valid") == np), "per-prefix-expiry-gauges")
	k := 0
	for _, s := range rec.samples {
		if s.metric != "mon_prefix_valid" {
			continue
		}
		pi := pis[k]
		k++
		zzAssert(s.value == float64(zzUnixAfter(now, pi.ValidLifetime)), "valid-expiry")
		zzAssert(zzStrEq(s.labels[1], cidrStr(pi.Prefix, pi.PrefixLength)), "prefix-label-cidr")
		zzAssert(zzAnd(zzStrEq(s.labels[0], "eth0"), zzStrEq(s.labels[2], host)), "prefix-labels")
	}
	k = 0
	for _, s := range rec.samples {
		switch s.metric {
		case "mon_prefix_preferred":
			zzAssert(s.value == float64(zzUnixAfter(now, pis[k].PreferredLifetime)), "preferred-expiry")
		case "mon_prefix_autonomous":
			zzAssert(s.value == boolFloat(pis[k].AutonomousAddressConfiguration), "autonomous-value")
		case "mon_prefix_on_link":
			zzAssert(s.value == boolFloat(pis[k].OnLink), "on-link-value")
		case "mon_prefix_valid":
			k++
		}
	}
	zzAssert(len(rec.samples) == 3+zzIte(life != 0, 1, 0)+4*np, "nothing-else")
}
