package corerad
