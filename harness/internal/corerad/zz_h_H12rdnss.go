package corerad

import (
	"github.com/mdlayher/ndp"
)

// H12rdnss: option count, else per-index lifetime and server list.
func zzH12rdnss() {
	n := zzParam("n")
	a, b := &ndp.RouterAdvertisement{}, &ndp.RouterAdvertisement{}
	na, nb := zzNondetChoice("a.n", n+1), zzNondetChoice("b.n", n+1)
	var da, db []*ndp.RecursiveDNSServer
	for i := 0; i < na; i++ {
		r := zzNondetRDNSS("a"+string(rune('0'+i)), 2, true)
		da = append(da, r)
		a.Options = append(a.Options, r)
	}
	for i := 0; i < nb; i++ {
		r := zzNondetRDNSS("b"+string(rune('0'+i)), 2, false)
		db = append(db, r)
		b.Options = append(b.Options, r)
	}
	ps := verifyRAs(a, b)
	wantCount, wantLife, wantServers := 0, 0, 0
	if na > 0 && nb > 0 {
		if na != nb {
			wantCount = 1
		} else {
			for i := range da {
				wantLife += zzB2I(zzDiffer(da[i].Lifetime, db[i].Lifetime))
				wantServers += zzB2I(zzNot(zzAddrsEqual(da[i].Servers, db[i].Servers)))
			}
		}
	}
	zzAssert(zzCount(ps, "rdnss_count") == wantCount, "rdnss-count")
	zzAssert(zzCount(ps, "rdnss_lifetime") == wantLife, "rdnss-lifetime")
	zzAssert(zzCount(ps, "rdnss_servers") == wantServers, "rdnss-servers")
	zzAssert(len(ps) == zzCount(ps, "rdnss_count")+zzCount(ps, "rdnss_lifetime")+zzCount(ps, "rdnss_servers"), "nothing-else")
}
