package corerad

import (
	"github.com/mdlayher/corerad/internal/config"
)

// H17e: a scrape before the interface was ever initialised, for an interface
// that carries the stanzas of one kind only (so that every kind is the *first*
// plugin that needs run-time state at least once: a deprecated explicit
// prefix, a deprecated route, a wildcard ...): it never panics; an error for
// that scrape is acceptable only before initialisation.
func zzH17e() {
	epoch := zzNondetInstant("epoch", false)
	now := zzNondetInstant("now", false)
	zzAssume(zzNot(now.Before(epoch)))
	kind := zzNondetChoice("stanza-kind", 9)
	adv := config.ZZKindInterface("lan0", kind, epoch)
	prepared := zzNondetChoice("prepared", 2) == 1
	if prepared {
		zzPrepare(&adv, now)
	}
	st := &zzTwoState{fwd: map[string]bool{"lan0": zzNondetBool("lan0.forwarding")}, auto: map[string]bool{}}
	rec := &zzRec{}
	m := &Metrics{state: st, ifis: []config.Interface{adv}}
	names := []string{ifiAdvertising, ifiAutoconfiguration, ifiForwarding, ifiMonitoring, advMisconfiguration,
		advDNSSLLifetime, advPrefixAutonomous, advPrefixOnLink, advPrefixValid, advPrefixPreferred, advRDNSSLifetime, advRouteLifetime}
	metrics := map[string]func(float64, ...string){}
	for _, n := range names {
		metrics[n] = rec.fn(n)
	}
	err := m.constScrape(metrics) // must not panic (implicit obligation)
	zzAssert(zzImplies(err != nil, !prepared), "scrape-error-only-before-initialisation")
	if err == nil {
		zzAssert(rec.countL(ifiAdvertising, "lan0") == 1, "advertising-gauge-present")
	}
}
