package corerad

import (
	"github.com/mdlayher/ndp"
)

// H12dnssl: option count, else per-index lifetime and names (names drawn from
// two distinct tokens; the first option of a side has one or two names).
func zzH12dnssl() {
	n := zzParam("n")
	names := []string{"a.example", "b.example"}
	mk := func(name string, first, ours bool) *ndp.DNSSearchList {
		life := zzRecvLifetime
		if ours {
			life = zzOwnLifetime
		}
		d := &ndp.DNSSearchList{Lifetime: life(name + ".life")}
		nn := 1
		if first {
			nn = zzNondetChoice(name+".nnames", 2) + 1
		}
		for j := 0; j < nn; j++ {
			d.DomainNames = append(d.DomainNames, names[zzNondetChoice(name+".name"+string(rune('0'+j)), 2)])
		}
		return d
	}
	a, b := &ndp.RouterAdvertisement{}, &ndp.RouterAdvertisement{}
	na, nb := zzNondetChoice("a.n", n+1), zzNondetChoice("b.n", n+1)
	var da, db []*ndp.DNSSearchList
	for i := 0; i < na; i++ {
		d := mk("a"+string(rune('0'+i)), i == 0, true)
		da = append(da, d)
		a.Options = append(a.Options, d)
	}
	for i := 0; i < nb; i++ {
		d := mk("b"+string(rune('0'+i)), i == 0, false)
		db = append(db, d)
		b.Options = append(b.Options, d)
	}
	ps := verifyRAs(a, b)
	wantCount, wantLife, wantNames := 0, 0, 0
	if na > 0 && nb > 0 {
		if na != nb {
			wantCount = 1
		} else {
			for i := range da {
				wantLife += zzB2I(zzDiffer(da[i].Lifetime, db[i].Lifetime))
				same := len(da[i].DomainNames) == len(db[i].DomainNames)
				if same {
					for j := range da[i].DomainNames {
						if da[i].DomainNames[j] != db[i].DomainNames[j] {
							same = false
						}
					}
				}
				if !same {
					wantNames++
				}
			}
		}
	}
	zzAssert(zzCount(ps, "dnssl_count") == wantCount, "dnssl-count")
	zzAssert(zzCount(ps, "dnssl_lifetime") == wantLife, "dnssl-lifetime")
	zzAssert(zzCount(ps, "dnssl_domain_names") == wantNames, "dnssl-names")
	zzAssert(len(ps) == zzCount(ps, "dnssl_count")+zzCount(ps, "dnssl_lifetime")+zzCount(ps, "dnssl_domain_names"), "nothing-else")
}
