package corerad

import (
	"net/netip"
	"time"

	"github.com/mdlayher/corerad/internal/plugin"
	"github.com/mdlayher/ndp"
)

// H04handle2: two RAs from another router arrive back to back (same clock
// reading) while forwarding flips in between: each consistency check reads
// forwarding afresh and compares against the RA this interface would send at
// that moment.
func zzH04handle2() {
	rec, st := &zzRec{}, &zzState{}
	cfg := zzCfg("eth0")
	pfx := netip.MustParsePrefix("2001:db8::/64")
	cfg.Plugins = []plugin.Plugin{&plugin.Prefix{Prefix: pfx, OnLink: true, Autonomous: true, ValidLifetime: 24 * time.Hour, PreferredLifetime: 4 * time.Hour}}
	a := zzAdvertiser(rec, st, cfg)
	var ours []*ndp.RouterAdvertisement
	a.OnInconsistentRA = func(o, _ *ndp.RouterAdvertisement) { ours = append(ours, o) }
	// an RA that always differs from ours in the hop limit
	theirs := &ndp.RouterAdvertisement{CurrentHopLimit: cfg.HopLimit + 1, ManagedConfiguration: cfg.Managed, OtherConfiguration: cfg.OtherConfig}
	router := zzNondetAddr6("router")
	for i := 0; i < 2; i++ {
		_, err := a.handle(theirs, router)
		zzAssert(err == nil, "no-error")
	}
	zzAssert(len(st.fwdValues) == 2, "forwarding-read-afresh-for-every-consistency-check")
	zzAssert(len(ours) == 2, "hook-fires-for-both")
	if len(ours) == 2 && len(st.fwdValues) == 2 {
		for i := 0; i < 2; i++ {
			zzAssert(ours[i].RouterLifetime == zzIte(st.fwdValues[i], cfg.DefaultLifetime, 0), "our-side-follows-forwarding-at-that-moment")
		}
	}
}
