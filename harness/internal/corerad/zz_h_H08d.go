package corerad

import (
	"context"
	"github.com/mdlayher/corerad/internal/system"
	"github.com/mdlayher/ndp"
	"net"
	"net/netip"
	"time"
)

// H08c / H08d: the whole advertiser (Run -> advertise with its scheduler,
// multicast generator, listener and watcher goroutines) is stopped while idle,
// with a solicited response waiting in its random delay, or with a solicited
// response in flight inside the socket. On termination exactly one
// zero-lifetime RA is sent and it is the last packet; nothing is transmitted
// after Run returned.
func zzH08d() {
	rec, st := &zzRec{}, &zzState{}
	cfg := zzCfg("eth0")
	cfg.UnicastOnly = false
	cfg.Verbose = false
	term := zzNondetChoice("terminate", 2) == 1
	conn := &zzConn{blockWhenIdle: true, gateUnicast: true}
	dialer := system.NewDialer("eth0", st, system.Advertise, nil)
	dialer.DialFunc = func() (*system.DialContext, error) {
		return &system.DialContext{Conn: conn, Interface: &net.Interface{Index: 2, Name: "eth0"}, IP: netip.MustParseAddr("fe80::1")}, nil
	}
	a := NewAdvertiser(zzNewContext(rec, st), cfg, dialer, nil, func() bool { return term })
	zzAfterBlock = true // periodic timers never fire within the scenario
	ctx, cancel := context.WithCancel(context.Background())
	var ret error
	returned := false
	writesAtReturn := 0
	go func() {
		ret = a.Run(ctx)
		returned = true
		writesAtReturn = len(conn.writes)
	}()
	zzWaitIdle()
	zzAssert(len(conn.writes) == 1 && conn.writes[0].dst == netip.IPv6LinkLocalAllNodes(), "initial-multicast-ra")

	// stop instant relative to a solicited response
	stage := zzNondetChoice("stop.at", 3) // 0 idle, 1 response pending in its delay, 2 response in flight
	src := zzNondetAddr6("src")
	zzAssume(zzAnd(zzNot(src.IsMulticast()), zzNot(src.IsUnspecified())))
	if stage >= 1 {
		conn.inject <- zzRead{m: &ndp.RouterSolicitation{}, hop: 255, host: src}
		zzWaitIdle()
	}
	if stage == 2 {
		for _, t := range zzSG.tasks {
			if t.delay < 500*time.Millisecond { // the solicited response
				zzFire(t)
			}
		}
		zzWaitIdle()
		zzAssert(conn.inFlight == 1, "response-in-flight")
	}
	zzKnownClass("unicast-send-in-flight-at-cancellation", stage == 2)
	cancel()
	zzWaitIdle()
	zzAssert(returned, "stops-promptly")
	zzAssert(ret == nil, "reports-success")
	// let whatever is still inside the socket out
	if conn.release != nil {
		close(conn.release)
	} else {
		conn.gateUnicast = false
	}
	zzFireAfterFuncs() // runtime timers the advertiser left armed fire now
	zzWaitIdle()
	zzAssert(len(conn.writes) == writesAtReturn, "nothing-transmitted-after-run-returned")
	finals := 0
	last := -1
	for i, w := range conn.writes {
		if w.ra != nil && w.ra.RouterLifetime == 0 && w.dst.IsMulticast() && i > 0 {
			finals++
			last = i
		}
	}
	_ = last
	if term {
		// forwarding is symbolic: a normal RA may also carry lifetime 0; count by position instead
		zzAssert(len(conn.writes) >= 2, "final-ra-sent-on-termination")
		if len(conn.writes) >= 2 {
			lw := conn.writes[len(conn.writes)-1]
			zzAssert(zzAnd(lw.dst == netip.IPv6LinkLocalAllNodes(), lw.ra.RouterLifetime == 0), "final-zero-lifetime-ra-is-the-last-packet")
		}
	} else {
		for i, w := range conn.writes {
			if i > 0 {
				zzAssert(!w.dst.IsMulticast(), "no-final-ra-on-reload")
			}
		}
	}
}
