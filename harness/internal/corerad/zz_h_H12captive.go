package corerad

import (
	"github.com/mdlayher/ndp"
)

// H12captive: captive-portal URI.
func zzH12captive() {
	a, b := &ndp.RouterAdvertisement{}, &ndp.RouterAdvertisement{}
	hasA, hasB := zzNondetChoice("a.has", 2) == 1, zzNondetChoice("b.has", 2) == 1
	same := zzNondetChoice("same-uri", 2) == 1
	ua, ub := "https://a.example/portal", "https://b.example/portal"
	if same {
		ub = ua
	}
	if hasA {
		a.Options = append(a.Options, &ndp.CaptivePortal{URI: ua})
	}
	if hasB {
		b.Options = append(b.Options, &ndp.CaptivePortal{URI: ub})
	}
	ps := verifyRAs(a, b)
	want := 0
	if hasA && hasB && !same {
		want = 1
	}
	zzAssert(zzCount(ps, "captive_portal") == want, "captive-portal-iff-both-present-and-uris-differ")
	zzAssert(len(ps) == zzCount(ps, "captive_portal"), "nothing-else")
}
