package corerad
