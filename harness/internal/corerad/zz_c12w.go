package corerad

import (
	"time"

	"github.com/mdlayher/corerad/internal/config"
	"github.com/mdlayher/ndp"
)

// H12wire: the RA this router would send, encoded and decoded again (what an
// identically configured peer puts on the wire), is consistent with our own:
// verifyRAs reports nothing. The configuration is an arbitrary accepted
// interface with the stanzas of one kind at a time (real parser), the instant is
// arbitrary (deprecated prefix lifetimes count down).
func zzH12wire() {
	epoch := time.Unix(1700000000, 0)
	zzWire(config.ZZKindInterface("lan0", zzNondetChoice("stanza-kind", 5), epoch), epoch)
}

// H12wireDep: the same for deprecated prefixes and routes, whose lifetimes
// count down from the epoch (arbitrary epoch <= now).
func zzH12wireDep() {
	epoch := zzNondetInstant("epoch", true)
	now := zzNondetInstant("now", true)
	zzAssume(zzNot(now.Before(epoch)))
	zzWire(config.ZZKindInterface("lan0", 5+zzNondetChoice("stanza-kind", 2), epoch), now)
}

func zzWire(cfg config.Interface, now time.Time) {
	zzPrepare(&cfg, now)
	fwd := zzNondetBool("forwarding")
	own, _, err := cfg.RouterAdvertisement(fwd)
	zzAssert(err == nil, "ra-generates")
	if err != nil {
		return
	}
	b, err := ndp.MarshalMessage(own)
	zzAssert(err == nil, "ra-encodes")
	if err != nil {
		return
	}
	m, err := ndp.ParseMessage(b)
	zzAssert(err == nil, "ra-decodes")
	if err != nil {
		return
	}
	got, ok := m.(*ndp.RouterAdvertisement)
	zzAssert(ok, "decodes-as-ra")
	if !ok {
		return
	}
	ps := verifyRAs(own, got)
	for _, p := range ps {
		zzAssert(false, "no-report/"+p.Field)
	}
	zzAssert(len(ps) == 0, "own-ra-after-wire-round-trip-is-consistent")
}
