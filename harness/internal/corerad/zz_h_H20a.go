package corerad

import (
	"github.com/mdlayher/corerad/internal/config"
	"net/http"
)

// H20a: one task per advertising or monitoring interface, in order; the debug
// HTTP server iff an address is configured; the link watcher last.
func zzH20a() {
	rec := &zzRec{}
	s := NewServer(zzNewContext(rec, &zzState{}))
	n := zzParam("interfaces")
	var cfg config.Config
	kinds := make([]int, n)
	for i := 0; i < n; i++ {
		name := "eth" + string(rune('0'+i))
		kinds[i] = zzNondetChoice(name+".mode", 3)
		ifi := config.Interface{Name: name, Verbose: zzNondetBool(name + ".verbose"), HopLimit: uint8(i + 1)}
		switch kinds[i] {
		case 0:
			ifi.Advertise = true
		case 1:
			ifi.Monitor = true
		}
		cfg.Interfaces = append(cfg.Interfaces, ifi)
	}
	debugOn := zzNondetChoice("debug", 2) == 1
	if debugOn {
		cfg.Debug = config.Debug{Address: "localhost:9430", Prometheus: zzNondetBool("prometheus"), PProf: zzNondetBool("pprof")}
	}
	tasks := s.BuildTasks(cfg, http.NewServeMux())
	k := 0
	for i := 0; i < n; i++ {
		if kinds[i] == 2 {
			continue
		}
		if k >= len(tasks) {
			zzAssert(false, "task-for-every-served-interface")
			return
		}
		switch t := tasks[k].(type) {
		case *Advertiser:
			zzAssert(kinds[i] == 0, "advertiser-for-advertising-interface")
			zzAssert(t.cfg.Name == cfg.Interfaces[i].Name && t.cfg.HopLimit == cfg.Interfaces[i].HopLimit, "advertiser-gets-its-own-configuration")
			zzAssert(t.watchC != nil, "advertiser-subscribed-to-link-state")
		case *Monitor:
			zzAssert(kinds[i] == 1, "monitor-for-monitoring-interface")
			zzAssert(t.iface == cfg.Interfaces[i].Name, "monitor-gets-its-own-interface")
			zzAssert(t.verbose == cfg.Interfaces[i].Verbose, "monitor-verbosity")
			zzAssert(t.watchC != nil, "monitor-subscribed-to-link-state")
		default:
			zzAssert(false, "interface-task-kind")
		}
		k++
	}
	if debugOn {
		if k >= len(tasks) {
			zzAssert(false, "debug-task-present")
			return
		}
		h, ok := tasks[k].(*httpTask)
		zzAssert(ok, "debug-http-task-when-address-configured")
		if ok {
			zzAssert(h.addr == "localhost:9430", "debug-address")
		}
		k++
	}
	zzAssert(len(tasks) == k+1, "no-other-tasks-but-the-watcher")
	if len(tasks) == k+1 {
		_, ok := tasks[k].(*watcherTask)
		zzAssert(ok, "link-watcher-last")
	}
}
