package corerad

import (
	"github.com/mdlayher/corerad/internal/config"
	"time"
)

// H12wire: the RA this router would send, encoded and decoded again (what an
// identically configured peer puts on the wire), is consistent with our own:
// verifyRAs reports nothing. The configuration is an arbitrary accepted
// interface with the stanzas of one kind at a time (real parser), the instant is
// arbitrary (deprecated prefix lifetimes count down).
func zzH12wire() {
	epoch := time.Unix(1700000000, 0)
	zzWire(config.ZZKindInterface("lan0", zzNondetChoice("stanza-kind", 5), epoch), epoch)
}
