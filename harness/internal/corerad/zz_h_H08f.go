package corerad

import (
	"os"
	"syscall"
)

// H08f: the signals the daemon subscribes to are exactly SIGINT, SIGTERM and
// SIGHUP (an unhandled SIGHUP would kill the process instead of reloading
// it), and only SIGHUP means reload.
func zzH08f() {
	sigs := Signals()
	zzAssert(len(sigs) == 3, "three-signals")
	seen := map[os.Signal]bool{}
	for _, s := range sigs {
		seen[s] = true
	}
	zzAssert(seen[os.Interrupt] && seen[syscall.SIGTERM] && seen[syscall.SIGHUP], "sigint-sigterm-sighup-handled")
	for _, s := range sigs {
		zzAssert(isTerminal(s) == (s != syscall.SIGHUP), "only-sighup-reloads")
	}
}
