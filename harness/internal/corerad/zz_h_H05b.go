package corerad

import (
	"context"
	"net/netip"
	"time"
)

// H05b: the multicast loop keeps requesting unsolicited RAs, one per wait,
// each wait chosen as H05a describes (index 0,1,2,.. crossing the initial-
// advertisement boundary), never spins, and stops on cancellation.
func zzH05b() {
	rec, st := &zzRec{}, &zzState{}
	cfg := zzCfg("eth0")
	min, max := zzNondetDuration("min"), zzNondetDuration("max")
	zzAssume(zzAnd(max >= 4*time.Second, max <= 1800*time.Second))
	zzAssume(zzAnd(min >= 3*time.Second, min <= max))
	cfg.MinInterval, cfg.MaxInterval = min, max
	a := zzAdvertiser(rec, st, cfg)
	ipC := make(chan netip.Addr, 16)
	ctx, cancel := context.WithCancel(context.Background())
	zzAfterBlock, zzAfterLog, zzWaits, zzAfterChans, zzAfterZero = true, nil, nil, nil, 0
	zeroAtFirst := 0
	returned := false
	go func() {
		a.multicast(ctx, ipC)
		returned = true
	}()
	k := zzParam("iterations")
	for j := 0; j < k; j++ {
		zzWaitIdle()
		zzAssert(len(ipC) == 1, "one-request-per-wait")
		if len(ipC) != 1 {
			return
		}
		zzAssert(<-ipC == netip.IPv6LinkLocalAllNodes(), "requests-go-to-all-nodes")
		// a timer that is due immediately before the first request is not a
		// wait between advertisements; afterwards there must be none
		if j == 0 {
			zeroAtFirst = zzAfterZero
		}
		zzAssert(zzAfterZero == zeroAtFirst, "no-non-positive-wait")
		zzAssert(len(zzWaits) == j+1, "one-wait-per-iteration")
		if len(zzWaits) != j+1 {
			return
		}
		d := zzWaits[j]
		zzAssert(zzAnd(d >= time.Second, d%time.Second == 0), "wait-positive-whole-seconds")
		zzAssert(d <= zzRoundSec(max), "wait-at-most-max")
		capped := zzAnd(j < 3, zzRoundSec(min) > 16*time.Second)
		zzAssert(zzOr(d >= zzRoundSec(min), capped), "wait-at-least-min")
		if j < 3 {
			zzAssert(d <= 16*time.Second, "initial-waits-capped-at-16s")
		}
		zzAssert(!returned, "keeps-running")
		zzAfterChans[j] <- time.Time{} // the timer fires
	}
	zzWaitIdle()
	cancel()
	zzWaitIdle()
	zzAssert(returned, "stops-on-cancellation")
}
