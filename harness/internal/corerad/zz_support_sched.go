package corerad

import (
	"context"
	"github.com/mdlayher/schedgroup"
	"net/netip"
	"time"
)

var (
	zzClock    time.Time // what time.Now returns
	zzClockSet bool
)

func zzStub_time_Now() time.Time {
	if !zzClockSet {
		zzClock, zzClockSet = zzNondetInstant("t0", true), true
	}
	return zzClock
}

func zzStub_time_Since(t time.Time) time.Duration { return zzStub_time_Now().Sub(t) }

// zzAdvance moves the clock to an arbitrary later (or equal) instant.
func zzAdvance(name string) time.Time {
	t := zzNondetInstant(name, true)
	zzAssume(zzNot(t.Before(zzStub_time_Now())))
	zzClock = t
	return t
}

type zzTask struct {
	registered time.Time
	delay      time.Duration
	fn         func()
	started    bool
	done       bool
	fin        chan struct{}
}

type zzSGT struct {
	ctx    context.Context
	tasks  []*zzTask
	doneC  chan struct{}
	waited bool
}

var zzSG *zzSGT

func zzStub_schedgroup_New(ctx context.Context) *schedgroup.Group {
	zzSG = &zzSGT{ctx: ctx, doneC: make(chan struct{}, 64)}
	return new(schedgroup.Group)
}

func zzStub_schedgroup_Group_Delay(g *schedgroup.Group, delay time.Duration, fn func()) {
	zzAssert(!zzSG.waited, "no-task-scheduled-after-wait")
	zzSG.tasks = append(zzSG.tasks, &zzTask{registered: zzStub_time_Now(), delay: delay, fn: fn, fin: make(chan struct{})})
}

func zzFire(t *zzTask) {
	if t.started {
		return
	}
	t.started = true
	go func() {
		t.fn()
		t.done = true
		close(t.fin)
	}()
}

func zzStub_schedgroup_Group_Wait(g *schedgroup.Group) error {
	zzSG.waited = true
	if err := zzSG.ctx.Err(); err != nil {
		return err
	}
	for _, t := range zzSG.tasks {
		zzFire(t)
	}
	for _, t := range zzSG.tasks {
		if t.done {
			continue
		}
		select {
		case <-zzSG.ctx.Done():
			return zzSG.ctx.Err()
		case <-t.fin:
		}
	}
	return nil
}

type zzEvent struct {
	at        time.Time
	multicast bool
	addr      netip.Addr
}
