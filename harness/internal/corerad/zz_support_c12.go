package corerad

import (
	"github.com/mdlayher/ndp"
	"net/netip"
	"time"
)

func zzB2I(b bool) int { return zzIte(b, 1, 0) }

// zzOwnLifetime: a lifetime as CoreRAD's own RA may carry it: any nanosecond
// value in [0, ndp.Infinity] (what the configuration parser accepts, C02, and
// what a deprecated lifetime counts down through).
func zzOwnLifetime(name string) time.Duration {
	d := zzNondetDuration(name)
	zzAssume(zzAnd(d >= 0, d <= ndp.Infinity))
	return d
}

// zzRecvLifetime: a lifetime as decoded from a received packet: 32 bits of
// whole seconds.
func zzRecvLifetime(name string) time.Duration {
	return time.Duration(zzNondetUint32(name)) * time.Second
}

// zzOnWire: the lifetime an identically configured peer's packet carries:
// ndp encodes a lifetime as uint32(d.Seconds()) and decodes whole seconds.
// H12oracle checks this definition against ndp's real encoder and decoder for
// every option kind that carries a lifetime.
func zzOnWire(d time.Duration) time.Duration {
	return time.Duration(uint32(d.Seconds())) * time.Second
}

// zzDiffer: our lifetime and a received one are different on the wire.
func zzDiffer(ours, theirs time.Duration) bool { return zzOnWire(ours) != theirs }

// zzCount: how many problems carry this field label.
func zzCount(ps []problem, field string) int {
	n := 0
	for _, p := range ps {
		if p.Field == field {
			n++
		}
	}
	return n
}

// zzOwnTimer: a reachable time / retransmit timer as configured: any
// nanosecond value in [0, 1h] (what the configuration parser accepts).
func zzOwnTimer(name string) time.Duration {
	d := zzNondetDuration(name)
	zzAssume(zzAnd(d >= 0, d <= time.Hour))
	return d
}

func zzNondetPI(name string, ours bool) *ndp.PrefixInformation {
	life := zzRecvLifetime
	if ours {
		life = zzOwnLifetime
	}
	return &ndp.PrefixInformation{
		PrefixLength: zzNondetUint8(name + ".len"), OnLink: zzNondetBool(name + ".l"), AutonomousAddressConfiguration: zzNondetBool(name + ".a"),
		ValidLifetime: life(name + ".valid"), PreferredLifetime: life(name + ".pref"),
		Prefix: zzNondetAddr6(name + ".prefix"),
	}
}

func zzNondetRI(name string, ours bool) *ndp.RouteInformation {
	life := zzRecvLifetime
	if ours {
		life = zzOwnLifetime
	}
	return &ndp.RouteInformation{
		PrefixLength: zzNondetUint8(name + ".len"), Preference: ndp.Preference(zzNondetUint8(name+".pref") & 3),
		RouteLifetime: life(name + ".life"), Prefix: zzNondetAddr6(name + ".prefix"),
	}
}

func zzNondetRDNSS(name string, maxServers int, ours bool) *ndp.RecursiveDNSServer {
	life := zzRecvLifetime
	if ours {
		life = zzOwnLifetime
	}
	r := &ndp.RecursiveDNSServer{Lifetime: life(name + ".life")}
	ns := zzNondetChoice(name+".nservers", maxServers) + 1
	for j := 0; j < ns; j++ {
		r.Servers = append(r.Servers, zzNondetAddr6(name+".s"+string(rune('0'+j))))
	}
	return r
}

func zzAddrsEqual(x, y []netip.Addr) bool {
	if len(x) != len(y) {
		return false
	}
	eq := true
	for i := range x {
		eq = zzAnd(eq, x[i] == y[i])
	}
	return eq
}

var _ = time.Second
