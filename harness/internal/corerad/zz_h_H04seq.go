package corerad

import (
	"net/netip"
)

// H04b: two consecutive sends track forwarding flips.
func zzH04seq() {
	rec, st := &zzRec{}, &zzState{}
	cfg := zzCfg("eth0")
	cfg.UnicastOnly = false
	a := zzAdvertiser(rec, st, cfg)
	conn := &zzConn{}
	dst := netip.IPv6LinkLocalAllNodes()
	zzAssert(a.send(conn, dst, a.cfg) == nil, "first-send-ok")
	zzAssert(a.send(conn, dst, a.cfg) == nil, "second-send-ok")
	if len(conn.writes) != 2 || len(st.fwdValues) != 2 {
		zzAssert(false, "two-writes-two-reads")
		return
	}
	zzCheckRA(conn.writes[0].ra, cfg, zzIte(st.fwdValues[0], cfg.DefaultLifetime, 0), "first")
	zzCheckRA(conn.writes[1].ra, cfg, zzIte(st.fwdValues[1], cfg.DefaultLifetime, 0), "second")
	// C04: the condition is surfaced as a log line, once per RA built while
	// not forwarding with a non-zero configured lifetime
	want := zzIte(zzAnd(zzNot(st.fwdValues[0]), cfg.DefaultLifetime != 0), 1, 0) + zzIte(zzAnd(zzNot(st.fwdValues[1]), cfg.DefaultLifetime != 0), 1, 0)
	zzAssert(zzLogCount("not configured for IPv6 forwarding") == want, "misconfiguration-logged-once-per-affected-ra")
}
