package corerad

import (
	"context"
	"os"
	"syscall"
)

// H08b: the signal task records terminate (anything but SIGHUP) before it
// cancels the other tasks.
func zzH08b() {
	rec := &zzRec{}
	cctx := zzNewContext(rec, &zzState{})
	term := &terminator{}
	var sig os.Signal
	kind := zzNondetChoice("signal", 3)
	switch kind {
	case 0:
		sig = os.Interrupt
	case 1:
		sig = syscall.SIGTERM
	default:
		sig = syscall.SIGHUP
	}
	zzAssert(isTerminal(sig) == (kind != 2), "terminal-iff-not-sighup")
	seen, cancelled := false, false
	sigC := make(chan os.Signal, 1)
	sigC <- sig
	st := &signalTask{sigC: sigC, ll: cctx.ll, t: term, cancel: func() {
		cancelled = true
		seen = term.terminate()
	}}
	err := st.Run(context.Background())
	zzAssert(err == nil, "signal-task-succeeds")
	zzAssert(cancelled, "signal-cancels-the-other-tasks")
	zzAssert(seen == (kind != 2), "decision-recorded-before-cancellation")
	zzAssert(term.terminate() == (kind != 2), "decision-value")
}
