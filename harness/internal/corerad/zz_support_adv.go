package corerad

import (
	"github.com/mdlayher/corerad/internal/config"
	"github.com/mdlayher/corerad/internal/plugin"
	"github.com/mdlayher/ndp"
	"net/netip"
	"time"
)

// time.After / time.Sleep are owned by the harness: requested durations are
// logged; the returned channel is ready at once unless zzAfterBlock is set. A
// timer armed with a non-positive duration ("due immediately") is not a wait:
// it fires at once in either mode and is counted in zzAfterZero; zzWaits has
// the positive ones only (aligned with zzAfterChans when timers are held back).
var (
	zzAfterZero  int
	zzWaits      []time.Duration
	zzAfterLog   []time.Duration
	zzAfterBlock bool
	zzAfterChans []chan time.Time
)

func zzStub_time_After(d time.Duration) <-chan time.Time {
	ch := make(chan time.Time, 1)
	zzAfterLog = append(zzAfterLog, d)
	if zzConcrete(d) && d <= 0 {
		zzAfterZero++
		ch <- time.Time{}
		return ch
	}
	zzWaits = append(zzWaits, d)
	if zzAfterBlock {
		zzAfterChans = append(zzAfterChans, ch)
	} else {
		ch <- time.Time{}
	}
	return ch
}

// time.NewTimer (with Stop / Reset) is the same environment as time.After: the
// harness owns the channel; Stop and Reset report "was still pending".
func zzStub_time_NewTimer(d time.Duration) *time.Timer {
	ch := make(chan time.Time, 1)
	zzAfterLog = append(zzAfterLog, d)
	if zzConcrete(d) && d <= 0 {
		zzAfterZero++
		ch <- time.Time{}
	} else {
		zzWaits = append(zzWaits, d)
		if zzAfterBlock {
			zzAfterChans = append(zzAfterChans, ch)
		} else {
			ch <- time.Time{}
		}
	}
	t := &time.Timer{C: ch}
	if zzTimerChans == nil {
		zzTimerChans = map[*time.Timer]chan time.Time{}
	}
	zzTimerChans[t] = ch
	return t
}

// zzTimerChans: the send side of every harness-owned timer (for Reset).
var zzTimerChans map[*time.Timer]chan time.Time

func zzStub_time_Timer_Stop(t *time.Timer) bool {
	for _, af := range zzAfterFuncs {
		if af.t == t {
			was := !af.fired && !af.stopped
			af.stopped = true
			return was
		}
	}
	return true
}

// time.AfterFunc is harness-owned too: the callback runs (in its own
// goroutine, as the runtime does) at once, or, when timers are held back, when
// the harness fires it -- in particular after the code under test believes it
// has stopped (zzFireAfterFuncs).
type zzAF struct {
	d              time.Duration
	f              func()
	t              *time.Timer
	fired, stopped bool
}

var zzAfterFuncs []*zzAF

func zzStub_time_AfterFunc(d time.Duration, f func()) *time.Timer {
	zzAfterLog = append(zzAfterLog, d)
	af := &zzAF{d: d, f: f, t: &time.Timer{}}
	zzAfterFuncs = append(zzAfterFuncs, af)
	if !zzAfterBlock {
		af.fired = true
		go f()
	}
	return af.t
}

// zzFireAfterFuncs lets every pending, unstopped AfterFunc timer fire.
func zzFireAfterFuncs() {
	for _, af := range zzAfterFuncs {
		if !af.fired && !af.stopped {
			af.fired = true
			go af.f()
		}
	}
}

// Reset re-arms the timer: the new duration is logged and, unless timers are
// held back by the harness, the timer fires again at once.
func zzStub_time_Timer_Reset(t *time.Timer, d time.Duration) bool {
	zzAfterLog = append(zzAfterLog, d)
	if zzConcrete(d) && d <= 0 {
		zzAfterZero++
	} else {
		zzWaits = append(zzWaits, d)
	}
	if ch := zzTimerChans[t]; ch != nil {
		if zzAfterBlock && !(zzConcrete(d) && d <= 0) {
			// held back: the harness releases it like a fresh timer
			zzAfterChans = append(zzAfterChans, ch)
		} else {
			select {
			case ch <- time.Time{}:
			default:
			}
		}
	}
	return true
}

// time.Sleep is a wait on the same harness-owned timer.
func zzStub_time_Sleep(d time.Duration) { <-zzStub_time_After(d) }

// zzCfg: an advertising interface configuration with symbolic header fields
// and two static plugins.
func zzCfg(name string) config.Interface {
	return config.Interface{
		Name: name, Advertise: true,
		MinInterval: 200 * time.Second, MaxInterval: 600 * time.Second,
		Managed: zzNondetBool(name + ".managed"), OtherConfig: zzNondetBool(name + ".other"),
		ReachableTime:   time.Duration(zzNondetUint32(name+".reach")) * time.Millisecond,
		HopLimit:        zzNondetUint8(name + ".hop"),
		DefaultLifetime: time.Duration(zzNondetUint16(name+".lifetime")) * time.Second,
		UnicastOnly:     zzNondetBool(name + ".unicast_only"),
		Verbose:         zzNondetBool(name + ".verbose"),
		Preference:      []ndp.Preference{ndp.Medium, ndp.High, ndp.Low}[zzNondetChoice(name+".preference", 3)],
		Plugins: []plugin.Plugin{
			&plugin.Prefix{Prefix: netip.MustParsePrefix("2001:db8::/64"), OnLink: true, Autonomous: true,
				ValidLifetime: 24 * time.Hour, PreferredLifetime: 4 * time.Hour},
			plugin.NewMTU(1500),
		},
	}
}

func zzAdvertiser(rec *zzRec, st *zzState, cfg config.Interface) *Advertiser {
	return NewAdvertiser(zzNewContext(rec, st), cfg, nil, nil, func() bool { return true })
}

// zzSameExceptLifetime: ra equals the RA the configuration describes, with the
// given router lifetime.
func zzCheckRA(ra *ndp.RouterAdvertisement, cfg config.Interface, lifetime time.Duration, id string) {
	if ra == nil {
		zzAssert(false, id+"/ra-present")
		return
	}
	zzAssert(ra.RouterLifetime == lifetime, id+"/router-lifetime")
	zzAssert(zzAnd(zzAnd(ra.CurrentHopLimit == cfg.HopLimit, ra.ManagedConfiguration == cfg.Managed),
		zzAnd(ra.OtherConfiguration == cfg.OtherConfig, zzAnd(ra.ReachableTime == cfg.ReachableTime, ra.RetransmitTimer == cfg.RetransmitTimer))), id+"/header")
	zzAssert(ra.RouterSelectionPreference == cfg.Preference, id+"/preference")
	zzAssert(len(ra.Options) == 2, id+"/options")
}
