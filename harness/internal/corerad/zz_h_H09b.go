package corerad

import (
	"context"
	"github.com/mdlayher/ndp"
	"net/netip"
)

// H09b: Listen delivers exactly the valid messages, in order, zone stripped;
// a solicitation from the unspecified address (with the zone the socket layer
// always attaches) is answered by an all-nodes multicast RA; cancellation
// stops it promptly and cleanly.
func zzH09b() {
	rec, st := &zzRec{}, &zzState{}
	cfg := zzCfg("eth0")
	a := zzAdvertiser(rec, st, cfg)
	conn := &zzConn{blockWhenIdle: true}
	rs := &ndp.RouterSolicitation{}
	src := zzNondetAddr6("src")
	withZone := zzNondetChoice("zone", 2) == 1
	unspec := zzNondetChoice("unspecified", 2) == 1
	h := src
	if unspec {
		h = netip.IPv6Unspecified()
	}
	wire := h
	if withZone {
		wire = h.WithZone("eth0")
	}
	badHop := int(zzNondetUint8("hop"))
	zzAssume(badHop != 255)
	conn.reads = []zzRead{
		{m: rs, hop: badHop, host: zzNondetAddr6("bad")}, // invalid: must not reach the callback
		{m: rs, hop: 255, host: wire},
	}
	l := newListener(a.cctx, "eth0", conn)
	ctx, cancel := context.WithCancel(context.Background())
	var hosts, dsts []netip.Addr
	var ret error
	returned := false
	go func() {
		ret = l.Listen(ctx, func(msg message) error {
			hosts = append(hosts, msg.Host)
			ip, err := a.handle(msg.Message, msg.Host)
			if err != nil {
				return err
			}
			if ip.IsValid() {
				dsts = append(dsts, ip)
			}
			return nil
		})
		returned = true
	}()
	zzWaitIdle()
	zzAssert(len(hosts) == 1, "callback-for-valid-messages-only")
	if len(hosts) == 1 {
		zzAssert(hosts[0] == h, "sender-zone-stripped")
	}
	zzAssert(len(dsts) == 1, "one-ra-requested")
	if len(dsts) == 1 {
		isUnspec := h.As16() == [16]byte{}
		zzAssert(dsts[0] == zzIte(isUnspec, netip.IPv6LinkLocalAllNodes(), h), "destination-source-or-all-nodes-for-unspecified")
	}
	zzAssert(rec.countL("invalid", "eth0", "router solicitation") == 1, "invalid-counted")
	zzAssert(!returned, "keeps-listening")
	cancel()
	zzWaitIdle()
	zzAssert(returned, "stops-promptly-on-cancellation")
	zzAssert(ret == nil, "clean-return-on-cancellation")
	zzAssert(zzGoroutines() == 0, "no-goroutine-left-behind")
}
