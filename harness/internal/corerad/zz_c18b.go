package corerad

import (
	"context"
	"net/netip"
	"time"

	"github.com/mdlayher/ndp"
)

// H18seq: a sequence of two messages through the monitor's real receive path
// (Listen -> callback -> handle) from a sender whose address carries a zone:
// the monitor never fails, each message is counted once under the sender
// address *without* the zone, and a second RA from the same router moves the
// gauges to its own values (same label sets, new values).
func zzH18seq() {
	rec, st := &zzRec{}, &zzState{}
	now := zzNondetInstant("now", false)
	m := NewMonitor(zzNewContext(rec, st), "eth1", nil, nil, false)
	m.now = func() time.Time { return now }
	zoned := zzNondetChoice("zoned", 2) == 1
	// link-local, global and unique-local senders (the socket layer attaches
	// the interface zone to every sender)
	hosts := []string{"fe80::1", "2001:db8::1", "fd00::2"}
	host := hosts[zzNondetChoice("sender", 3)]
	src := netip.MustParseAddr(host)
	if zoned {
		src = src.WithZone("eth1")
	}
	l1 := time.Duration(zzNondetUint16("ra1.lifetime")) * time.Second
	l2 := time.Duration(zzNondetUint16("ra2.lifetime")) * time.Second
	m1, m2 := zzNondetBool("ra1.managed"), zzNondetBool("ra2.managed")
	pfx := netip.MustParseAddr("2001:db8::")
	v1 := time.Duration(zzNondetUint32("ra1.valid")) * time.Second
	v2 := time.Duration(zzNondetUint32("ra2.valid")) * time.Second
	ra1 := &ndp.RouterAdvertisement{RouterLifetime: l1, ManagedConfiguration: m1, Options: []ndp.Option{
		&ndp.PrefixInformation{PrefixLength: 64, Prefix: pfx, ValidLifetime: v1, PreferredLifetime: v1}}}
	ra2 := &ndp.RouterAdvertisement{RouterLifetime: l2, ManagedConfiguration: m2, Options: []ndp.Option{
		&ndp.PrefixInformation{PrefixLength: 64, Prefix: pfx, ValidLifetime: v2, PreferredLifetime: v2}}}
	var second ndp.Message = ra2
	secondKind := zzNondetChoice("second", 3)
	switch secondKind {
	case 1:
		second = &ndp.RouterSolicitation{}
	case 2:
		second = &ndp.NeighborAdvertisement{TargetAddress: src.WithZone("")}
	}
	conn := &zzConn{blockWhenIdle: true, reads: []zzRead{{m: ra1, hop: 255, host: src}, {m: second, hop: 255, host: src}}}
	seen := 0
	m.OnMessage = func(ndp.Message) { seen++ }
	ctx, cancel := context.WithCancel(context.Background())
	var ret error
	returned := false
	go func() {
		ret = m.monitor(ctx, conn)
		returned = true
	}()
	zzWaitIdle()
	zzAssert(!returned, "monitor-never-fails-on-valid-messages")
	zzAssert(seen == 2, "both-messages-handled")
	zzAssert(rec.count("mon_received") == 2, "each-message-counted-once")
	types := []string{"router advertisement", "router solicitation", "neighbor advertisement"}
	if secondKind == 0 {
		zzAssert(rec.countL("mon_received", "eth1", host, types[0]) == 2, "counted-under-sender-without-zone")
	} else {
		zzAssert(rec.countL("mon_received", "eth1", host, types[0]) == 1 && rec.countL("mon_received", "eth1", host, types[secondKind]) == 1, "counted-under-sender-without-zone")
	}
	for _, s := range rec.samples {
		switch s.metric {
		case "mon_managed", "mon_other", "mon_default_route":
			zzAssert(s.labels[1] == host, "gauge-host-label-without-zone")
		case "mon_prefix_valid", "mon_prefix_preferred", "mon_prefix_autonomous", "mon_prefix_on_link":
			zzAssert(s.labels[2] == host && s.labels[1] == "2001:db8::/64", "prefix-gauge-labels")
		}
	}
	// the last sample of a gauge is its value: after a second RA it is the second RA's
	nra := 1
	lastL, lastM, lastV := l1, m1, v1
	if secondKind == 0 {
		nra, lastL, lastM, lastV = 2, l2, m2, v2
	}
	zzAssert(rec.count("mon_managed") == nra && rec.count("mon_prefix_valid") == nra, "one-gauge-update-per-ra")
	if s, ok := rec.last("mon_managed"); ok {
		zzAssert(s.value == boolFloat(lastM), "managed-gauge-follows-the-latest-ra")
	}
	if s, ok := rec.last("mon_prefix_valid"); ok {
		zzAssert(s.value == float64(zzUnixAfter(now, lastV)), "prefix-expiry-follows-the-latest-ra")
	}
	zzAssert(rec.count("mon_default_route") == zzIte(l1 != 0, 1, 0)+zzIte(zzAnd(secondKind == 0, l2 != 0), 1, 0), "default-route-gauge-only-for-nonzero-lifetimes")
	if s, ok := rec.last("mon_default_route"); ok && secondKind == 0 {
		zzAssert(zzImplies(l2 != 0, s.value == float64(zzUnixAfter(now, lastL))), "default-route-expiry-follows-the-latest-ra")
	}
	cancel()
	zzWaitIdle()
	zzAssert(returned && ret != nil, "monitor-returns-the-cancellation")
	zzAssert(zzGoroutines() == 0, "no-activity-left-behind")
}
