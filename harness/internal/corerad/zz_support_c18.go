package corerad

import (
	"time"
)

// zzUnixAfter: floor((unixnano(now) + d) / 1e9) in plain integer arithmetic on
// the instant's fields (d >= 0).
func zzUnixAfter(now time.Time, d time.Duration) int64 {
	return now.Unix() + (int64(now.Nanosecond())+int64(d))/1000000000
}
