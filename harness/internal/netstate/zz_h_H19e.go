package netstate

import (
	"github.com/jsimonetti/rtnetlink"
)

// H19e: every kernel operational state maps to the documented change.
func zzH19e() {
	s := rtnetlink.OperationalState(zzNondetUint8("operstate"))
	c, ok := operStateChange(s)
	// numeric values from linux/if.h: IF_OPER_UNKNOWN 0, NOTPRESENT 1, DOWN 2, LOWERLAYERDOWN 3, TESTING 4, DORMANT 5, UP 6
	zzAssert(ok == (uint8(s) <= 6), "known-states")
	want := zzIte(s == 0, LinkUnknown, zzIte(s == 1, LinkNotPresent, zzIte(s == 2, LinkDown, zzIte(s == 3, LinkLowerLayerDown,
		zzIte(s == 4, LinkTesting, zzIte(s == 5, LinkDormant, zzIte(s == 6, LinkUp, Change(0))))))))
	zzAssert(c == want, "mapping")
	// process: nil attributes skipped, changes grouped per interface in order
	m1 := &rtnetlink.LinkMessage{Attributes: &rtnetlink.LinkAttributes{Name: "eth0", OperationalState: s}}
	m2 := &rtnetlink.LinkMessage{}
	m3 := &rtnetlink.LinkMessage{Attributes: &rtnetlink.LinkAttributes{Name: "eth0", OperationalState: rtnetlink.OperStateUp}}
	set := process([]rtnetlink.Message{m1, m2, m3})
	if ok {
		zzAssert(len(set["eth0"]) == 2 && len(set) == 1, "two-changes-for-eth0")
		if len(set["eth0"]) == 2 {
			zzAssert(zzAnd(set["eth0"][0] == c, set["eth0"][1] == LinkUp), "in-order")
		}
	} else {
		zzAssert(len(set["eth0"]) == 1, "unknown-state-skipped")
	}
	// a batch that interleaves two interfaces: every change is kept, per
	// interface, in the order it occurred
	i1 := &rtnetlink.LinkMessage{Attributes: &rtnetlink.LinkAttributes{Name: "eth0", OperationalState: rtnetlink.OperStateDown}}
	i2 := &rtnetlink.LinkMessage{Attributes: &rtnetlink.LinkAttributes{Name: "eth1", OperationalState: rtnetlink.OperStateUp}}
	i3 := &rtnetlink.LinkMessage{Attributes: &rtnetlink.LinkAttributes{Name: "eth0", OperationalState: s}}
	i4 := &rtnetlink.LinkMessage{Attributes: &rtnetlink.LinkAttributes{Name: "eth1", OperationalState: rtnetlink.OperStateDormant}}
	mix := process([]rtnetlink.Message{i1, i2, i3, i4})
	n0 := 1
	if ok {
		n0 = 2
	}
	zzAssert(len(mix) == 2 && len(mix["eth0"]) == n0 && len(mix["eth1"]) == 2, "interleaved-batch-keeps-every-change")
	if len(mix["eth0"]) == n0 && len(mix["eth1"]) == 2 {
		zzAssert(mix["eth0"][0] == LinkDown && mix["eth1"][0] == LinkUp && mix["eth1"][1] == LinkDormant, "interleaved-batch-in-order-per-interface")
		if ok {
			zzAssert(mix["eth0"][1] == c, "interleaved-batch-in-order-per-interface")
		}
	}
}
