package netstate

import (
	"context"
	"sync/atomic"
)

// H19d: Subscribe concurrently with notification and with the end of
// watching. A second goroutine subscribes at an arbitrary point (released
// before the first notification, between the two, after the second, or after
// Watch returned; then scheduled at any later scheduling point). Obligations:
// lock discipline on the subscriber table (guarded-by), no deadlock, no panic
// (no double close), the early subscriber sees both changes in order and is
// closed, the late subscriber sees a suffix of the changes and is closed iff it
// registered before watching ended.
func zzH19d() {
	w := NewWatcher()
	zzGuardedIn(&w.m, w, "Watcher.m")
	c1, c2 := zzChange("c1"), zzChange("c2")
	k := zzNondetChoice("release-point", 4)
	early := w.Subscribe("eth0", LinkAny)

	var ended uint32
	gate := make(chan struct{})
	type res struct {
		ch     <-chan Change
		before bool
	}
	resC := make(chan res, 1)
	go func() {
		<-gate
		before := atomic.LoadUint32(&ended) == 0
		resC <- res{ch: w.Subscribe("eth0", LinkAny), before: before}
	}()
	release := func(at int) {
		if k == at {
			close(gate)
		}
		zzYield("point")
	}
	w.watch = func(ctx context.Context, notify func(changeSet)) error {
		release(0)
		notify(changeSet{"eth0": {c1}})
		release(1)
		notify(changeSet{"eth0": {c2}})
		release(2)
		atomic.StoreUint32(&ended, 1)
		return nil
	}
	err := w.Watch(context.Background())
	zzAssert(err == nil, "watch-returns-stub-result")
	release(3)
	r := <-resC

	zzAssert(len(early) == 2, "early/both-delivered")
	if len(early) == 2 {
		zzAssert(zzAnd(<-early == c1, <-early == c2), "early/in-order")
	}
	_, ok := <-early
	zzAssert(!ok, "early/closed-when-watching-ended")

	n := len(r.ch)
	zzAssert(n <= 2, "late/at-most-the-changes-that-occurred")
	maxSeen := 2 - k
	if maxSeen < 0 {
		maxSeen = 0
	}
	zzAssert(n <= maxSeen, "late/nothing-from-before-it-was-released")
	if n == 2 {
		zzAssert(zzAnd(<-r.ch == c1, <-r.ch == c2), "late/in-order")
	} else if n == 1 {
		zzAssert(<-r.ch == c2, "late/suffix-of-the-changes")
	}
	if r.before {
		_, ok := <-r.ch
		zzAssert(!ok, "late/closed-when-registered-before-the-end")
	} else {
		zzAssert(n == 0, "late/nothing-after-the-end")
		select {
		case _, ok := <-r.ch:
			zzAssert(ok, "late/not-closed-twice-or-spuriously")
			zzAssert(false, "late/no-delivery-after-the-end")
		default:
		}
	}
}
