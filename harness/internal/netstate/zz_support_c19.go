package netstate

var zzIfaces = []string{"eth0", "eth1"}

type zzSub struct {
	iface string
	mask  Change
	ch    <-chan Change
}

func zzSubs(w *Watcher, n int) []zzSub {
	subs := make([]zzSub, n)
	for i := range subs {
		name := "sub" + string(rune('0'+i))
		mask := Change(zzNondetUint8(name+".mask")) & LinkAny
		zzAssume(mask != 0)
		iface := zzIfaces[zzNondetChoice(name+".iface", 2)]
		subs[i] = zzSub{iface: iface, mask: mask, ch: w.Subscribe(iface, mask)}
	}
	return subs
}

// zzChanges: an arbitrary change (single link state bit, or any non-zero combination).
func zzChange(name string) Change {
	c := Change(zzNondetUint8(name)) & LinkAny
	zzAssume(c != 0)
	return c
}

// zzCheckSub: the channel holds exactly the changes of its interface that
// intersect its mask, in order, truncated to 8.
func zzCheckSub(s zzSub, occurred []Change, id string) {
	want := 0
	for _, c := range occurred {
		want += zzIte(s.mask&c != 0, 1, 0)
	}
	got := len(s.ch)
	zzAssert(got == zzIte(want > 8, 8, want), id+"/count")
	// contents: the j-th delivered notification is the j-th matching change
	seen := 0 // number of matching changes before the current one (symbolic)
	for _, c := range occurred {
		match := s.mask&c != 0
		// if this change matches and fewer than 8 came before, it is at position `seen`
		for j := 0; j < got; j++ {
			_ = j
		}
		_ = match
		seen += zzIte(match, 1, 0)
	}
	// drain and compare against the filtered sequence built path-sensitively
	var exp []Change
	for _, c := range occurred {
		if s.mask&c != 0 && len(exp) < 8 {
			exp = append(exp, c)
		}
	}
	if len(exp) != got {
		zzAssert(false, id+"/count-path")
		return
	}
	for _, e := range exp {
		v := <-s.ch
		zzAssert(v == e, id+"/order-and-content")
	}
}
