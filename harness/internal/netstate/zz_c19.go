package netstate

import (
	"context"

	"github.com/jsimonetti/rtnetlink"
)

var zzIfaces = []string{"eth0", "eth1"}

type zzSub struct {
	iface string
	mask  Change
	ch    <-chan Change
}

func zzSubs(w *Watcher, n int) []zzSub {
	subs := make([]zzSub, n)
	for i := range subs {
		name := "sub" + string(rune('0'+i))
		mask := Change(zzNondetUint8(name+".mask")) & LinkAny
		zzAssume(mask != 0)
		iface := zzIfaces[zzNondetChoice(name+".iface", 2)]
		subs[i] = zzSub{iface: iface, mask: mask, ch: w.Subscribe(iface, mask)}
	}
	return subs
}

// zzChanges: an arbitrary change (single link state bit, or any non-zero combination).
func zzChange(name string) Change {
	c := Change(zzNondetUint8(name)) & LinkAny
	zzAssume(c != 0)
	return c
}

// zzCheckSub: the channel holds exactly the changes of its interface that
// intersect its mask, in order, truncated to 8.
func zzCheckSub(s zzSub, occurred []Change, id string) {
	want := 0
	for _, c := range occurred {
		want += zzIte(s.mask&c != 0, 1, 0)
	}
	got := len(s.ch)
	zzAssert(got == zzIte(want > 8, 8, want), id+"/count")
	// contents: the j-th delivered notification is the j-th matching change
	seen := 0 // number of matching changes before the current one (symbolic)
	for _, c := range occurred {
		match := s.mask&c != 0
		// if this change matches and fewer than 8 came before, it is at position `seen`
		for j := 0; j < got; j++ {
			_ = j
		}
		_ = match
		seen += zzIte(match, 1, 0)
	}
	// drain and compare against the filtered sequence built path-sensitively
	var exp []Change
	for _, c := range occurred {
		if s.mask&c != 0 && len(exp) < 8 {
			exp = append(exp, c)
		}
	}
	if len(exp) != got {
		zzAssert(false, id+"/count-path")
		return
	}
	for _, e := range exp {
		v := <-s.ch
		zzAssert(v == e, id+"/order-and-content")
	}
}

// H19a: subscribers get exactly what they asked for, in order.
func zzH19a() {
	w := NewWatcher()
	subs := zzSubs(w, zzParam("subs"))
	nch := zzParam("changes")
	occurred := map[string][]Change{}
	set := changeSet{}
	for i := 0; i < nch; i++ {
		c := zzChange("change" + string(rune('0'+i)))
		iface := zzIfaces[zzNondetChoice("change"+string(rune('0'+i))+".iface", 2)]
		set[iface] = append(set[iface], c)
		occurred[iface] = append(occurred[iface], c)
	}
	w.notify(set)
	for i, s := range subs {
		zzCheckSub(s, occurred[s.iface], "sub"+string(rune('0'+i)))
	}
}

// H19b: notification never blocks; events beyond 8 undrained ones are dropped.
func zzH19b() {
	w := NewWatcher()
	ch := w.Subscribe("eth0", LinkAny)
	var occurred []Change
	for i := 0; i < 10; i++ {
		c := zzChange("c")
		occurred = append(occurred, c)
		w.notify(changeSet{"eth0": {c}})
	}
	zzAssert(len(ch) == 8, "buffer-holds-8")
	for i := 0; i < 8; i++ {
		zzAssert(<-ch == occurred[i], "first-8-kept-in-order")
	}
}

// H19c: every subscriber channel is closed exactly once when watching ends.
func zzH19c() {
	w := NewWatcher()
	subs := zzSubs(w, zzParam("subs"))
	k := zzNondetChoice("notifications", 3)
	w.watch = func(ctx context.Context, notify func(changeSet)) error {
		for i := 0; i < k; i++ {
			notify(changeSet{"eth0": {zzChange("c")}})
		}
		return nil
	}
	err := w.Watch(context.Background())
	zzAssert(err == nil, "watch-returns-stub-result")
	for _, s := range subs {
		n := len(s.ch)
		for i := 0; i < n; i++ {
			<-s.ch
		}
		_, ok := <-s.ch
		zzAssert(!ok, "closed-after-watch")
	}
}

// H19e: every kernel operational state maps to the documented change.
func zzH19e() {
	s := rtnetlink.OperationalState(zzNondetUint8("operstate"))
	c, ok := operStateChange(s)
	// numeric values from linux/if.h: IF_OPER_UNKNOWN 0, NOTPRESENT 1, DOWN 2, LOWERLAYERDOWN 3, TESTING 4, DORMANT 5, UP 6
	zzAssert(ok == (uint8(s) <= 6), "known-states")
	want := zzIte(s == 0, LinkUnknown, zzIte(s == 1, LinkNotPresent, zzIte(s == 2, LinkDown, zzIte(s == 3, LinkLowerLayerDown,
		zzIte(s == 4, LinkTesting, zzIte(s == 5, LinkDormant, zzIte(s == 6, LinkUp, Change(0))))))))
	zzAssert(c == want, "mapping")
	// process: nil attributes skipped, changes grouped per interface in order
	m1 := &rtnetlink.LinkMessage{Attributes: &rtnetlink.LinkAttributes{Name: "eth0", OperationalState: s}}
	m2 := &rtnetlink.LinkMessage{}
	m3 := &rtnetlink.LinkMessage{Attributes: &rtnetlink.LinkAttributes{Name: "eth0", OperationalState: rtnetlink.OperStateUp}}
	set := process([]rtnetlink.Message{m1, m2, m3})
	if ok {
		zzAssert(len(set["eth0"]) == 2 && len(set) == 1, "two-changes-for-eth0")
		if len(set["eth0"]) == 2 {
			zzAssert(zzAnd(set["eth0"][0] == c, set["eth0"][1] == LinkUp), "in-order")
		}
	} else {
		zzAssert(len(set["eth0"]) == 1, "unknown-state-skipped")
	}
}
