package netstate

import (
	"context"
)

// H19c: every subscriber channel is closed exactly once when watching ends.
func zzH19c() {
	w := NewWatcher()
	subs := zzSubs(w, zzParam("subs"))
	k := zzNondetChoice("notifications", 3)
	w.watch = func(ctx context.Context, notify func(changeSet)) error {
		for i := 0; i < k; i++ {
			notify(changeSet{"eth0": {zzChange("c")}})
		}
		return nil
	}
	err := w.Watch(context.Background())
	zzAssert(err == nil, "watch-returns-stub-result")
	for _, s := range subs {
		n := len(s.ch)
		for i := 0; i < n; i++ {
			<-s.ch
		}
		_, ok := <-s.ch
		zzAssert(!ok, "closed-after-watch")
	}
}
