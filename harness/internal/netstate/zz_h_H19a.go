package netstate

// H19a: subscribers get exactly what they asked for, in order.
func zzH19a() {
	w := NewWatcher()
	subs := zzSubs(w, zzParam("subs"))
	nch := zzParam("changes")
	occurred := map[string][]Change{}
	set := changeSet{}
	for i := 0; i < nch; i++ {
		c := zzChange("change" + string(rune('0'+i)))
		iface := zzIfaces[zzNondetChoice("change"+string(rune('0'+i))+".iface", 2)]
		set[iface] = append(set[iface], c)
		occurred[iface] = append(occurred[iface], c)
	}
	w.notify(set)
	for i, s := range subs {
		zzCheckSub(s, occurred[s.iface], "sub"+string(rune('0'+i)))
	}
}
