package netstate

// H19b: notification never blocks; events beyond 8 undrained ones are dropped.
func zzH19b() {
	w := NewWatcher()
	ch := w.Subscribe("eth0", LinkAny)
	var occurred []Change
	for i := 0; i < 10; i++ {
		c := zzChange("c")
		occurred = append(occurred, c)
		w.notify(changeSet{"eth0": {c}})
	}
	zzAssert(len(ch) == 8, "buffer-holds-8")
	for i := 0; i < 8; i++ {
		zzAssert(<-ch == occurred[i], "first-8-kept-in-order")
	}
}
