package netstate

// H19b: notification never blocks; events beyond 8 undrained ones are dropped
// -- for that subscriber only: a second subscriber with the very same
// interface and mask, registered later, that does drain its channel keeps
// receiving every change while the first one's buffer is full.
func zzH19b() {
	w := NewWatcher()
	ch := w.Subscribe("eth0", LinkAny)
	peer := w.Subscribe("eth0", LinkAny)
	var occurred []Change
	for i := 0; i < 10; i++ {
		c := zzChange("c")
		occurred = append(occurred, c)
		w.notify(changeSet{"eth0": {c}})
		select {
		case got := <-peer:
			zzAssert(got == c, "draining-peer-gets-every-change")
		default:
			zzAssert(false, "draining-peer-gets-every-change")
		}
	}
	zzAssert(len(ch) == 8, "buffer-holds-8")
	for i := 0; i < 8; i++ {
		zzAssert(<-ch == occurred[i], "first-8-kept-in-order")
	}
	zzAssert(len(peer) == 0, "peer-got-nothing-twice")
}
