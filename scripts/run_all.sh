#!/bin/bash
# usage: run_all.sh [quick|thorough] -- runs every claimed check, one line each
tier=${1:-quick}
cd /verif
for p in $(python3 -c "import json; print(' '.join(c['property_id'] for c in json.load(open('MANIFEST.json'))['checks']))"); do
  s=$(date +%s)
  out=$(timeout 3600 ./bin/vcheck run $p --tier $tier 2>&1)
  echo "$(echo "$out" | grep -E '^(PASS|FAIL|INCONCLUSIVE) property' | tail -1 | cut -c1-150) [$(( $(date +%s) - s ))s] $(echo "$out" | grep -c '^KNOWN-FINDING') known"
done
