#!/bin/bash
# usage: seed_regress.sh [jobs] [all|seeds|equiv] [name-regex] -- re-evaluates every stored seeded change and
# every stored behaviour-preserving refactoring against the current checks.
# Each one is applied in its own scratch worktree of /repo HEAD under /tmp
# (VERIF_REPO points the engine at it), so /repo itself is not touched and the
# runs can proceed in parallel; the worktree is removed afterwards.
# Output: one line per change: DETECTED / MISSED (seeds), CLEAN / ALARM (equivalents).
export GOFLAGS=-mod=mod GOPROXY=off GOSUMDB=off GOTOOLCHAIN=local
jobs=${1:-3}
only=${2:-all}   # all | seeds | equiv
filter=${3:-.}
cd /verif
one() {
  d=$1; name=$(basename $d); kind=$2
  prop=$(echo $name | cut -c1-3)
  wt=/tmp/sr_${kind}_$name
  rm -rf $wt; git -C /repo worktree prune
  git -C /repo worktree add -q --detach $wt HEAD || { echo "ERROR $kind $name worktree"; return; }
  if ! git -C $wt apply $d/patch.diff 2>/dev/null; then echo "NOAPPLY $kind $name"; git -C /repo worktree remove --force $wt; return; fi
  out=$(VERIF_REPO=$wt VERIF_REPLAYS=/tmp/sr_replays_$name timeout 2400 ./bin/vcheck run $prop --tier quick --no-evidence -j 4 2>&1); code=$?
  git -C /repo worktree remove --force $wt; rm -rf /tmp/sr_replays_$name
  last=$(echo "$out" | grep -E '^(PASS|FAIL|INCONCLUSIVE) property' | tail -1 | cut -c1-120)
  if [ $kind = seed ]; then
    if echo "$out" | grep -q '^VIOLATION'; then echo "DETECTED $name exit=$code $last"; else echo "MISSED $name exit=$code $last"; fi
  else
    if [ $code = 0 ]; then echo "CLEAN $name exit=$code $last"; else echo "ALARM $name exit=$code $last"; fi
  fi
}
export -f one
( [ $only != equiv ] && for d in /verif/seeded/C*/; do echo "$d seed"; done; [ $only != seeds ] && for d in /verif/seeded/equivalent/C*/; do echo "$d equiv"; done) | grep -E "/($filter)/ " | xargs -P $jobs -L 1 bash -c 'one $0 $1'
