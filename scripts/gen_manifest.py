#!/usr/bin/env python3
"""Regenerates /verif/MANIFEST.json from the table below (claimed properties)
and lists every other property of properties.jsonl under not_applicable."""
import json, os

CLAIMED = {
 "C01": ("PREF64 lifetime kernel (NewPREF64) decided for every accepted max_interval at nanosecond granularity; ", "H01b only so far"),
}

def load_claims():
    p = os.path.join(os.path.dirname(__file__), "claims.json")
    return json.load(open(p))

def main():
    claims = load_claims()
    props = [json.loads(l) for l in open("/verif/properties.jsonl")]
    checks = []
    na = []
    for p in props:
        pid = p["id"]
        c = claims.get(pid)
        if not c or not c.get("claimed"):
            na.append({"property_id": pid, "reason": (c or {}).get("reason", "no check built yet for this property (engine support pending); nothing is claimed")})
            continue
        checks.append({
            "property_id": pid,
            "quick_cmd": "./bin/vcheck run %s --tier quick" % pid,
            "thorough_cmd": "./bin/vcheck run %s --tier thorough" % pid,
            "evidence_file": "/verif/evidence/%s.json" % pid,
            "replay_cmd_template": "./bin/vcheck replay {path}",
            "engine": "vcheck",
            "level_claimed": {
                "category": "model_checking",
                "text": c["text"],
                "design_ref": c.get("design_ref", "DESIGN.md §5 " + pid),
            },
            "level_note": c["note"],
            "technique": c.get("technique", "bounded symbolic execution of go/ssa to SMT (QF_BV / integer encoding), z3 + cvc5; counterexamples replayed natively"),
        })
    m = {
        "version": 1,
        "setup_cmd": "cd /verif/engine && GOFLAGS=-mod=mod GOPROXY=off GOSUMDB=off GOTOOLCHAIN=local go build -o /verif/bin/vcheck .",
        "hooks": {
            "guard": "verif",
            "enable": "no hooks in /repo: harnesses, stubs and the zz API are injected through go/packages Overlay (engine) and `go test -overlay` (native replay) from /verif/harness",
            "baseline_off_cmd": "cd /repo && go test -vet=off -count=1 ./...",
            "source_commits": [],
            "add_only": True,
        },
        "engines": [{
            "name": "vcheck", "path": "/verif/engine",
            "serves_properties": [c["property_id"] for c in checks],
            "kind_free_text": "symbolic executor over go/ssa (x/tools v0.29.0) with state merging and a cooperative goroutine tier; obligations become SMT-LIB2 queries (bit-vectors, or an interval-guided integer encoding for arithmetic by 10^9) decided by z3 5.1 and cvc5 1.0; counterexamples are replayed against the real code with go test -overlay",
        }],
        "checks": checks,
        "not_applicable": na,
        "notes": "Exit codes of vcheck: 0 = every obligation discharged (or only listed known findings), 1 = a replay-confirmed violation (VIOLATION line), 3 = inconclusive (solver unknown / unsupported construct / unconfirmed counterexample): never reported as success.",
    }
    json.dump(m, open("/verif/MANIFEST.json", "w"), indent=1)
    print("claimed:", [c["property_id"] for c in checks])

main()
