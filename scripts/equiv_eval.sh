#!/bin/bash
# usage: equiv_eval.sh <name> <patchdir> <prop> [<prop>...] -- applies a behaviour-preserving
# refactoring in a scratch worktree (VERIF_REPO), confirms it builds and the existing tests
# pass, runs the quick checks of the given properties against it, stores it under
# /verif/seeded/equivalent/<name>/ and prints CLEAN / ALARM per property.
export GOFLAGS=-mod=mod GOPROXY=off GOSUMDB=off GOTOOLCHAIN=local
name=$1; pd=$2; shift 2
wt=/tmp/eq_$name
rm -rf $wt; git -C /repo worktree prune
git -C /repo worktree add -q --detach $wt HEAD || exit 2
if ! git -C $wt apply $pd/patch.diff; then echo "NOAPPLY $name"; git -C /repo worktree remove --force $wt; exit 3; fi
b=$(cd $wt && go build ./... 2>&1 | tail -2)
t=$(cd $wt && go test -vet=off -count=1 ./... 2>&1 | grep -E "^(FAIL|---)" | grep -v "TestIntegrationWatcherWatch\|internal/netstate\|^FAIL$" | tr '\n' ' ')
echo "$name build: ${b:-ok} tests: ${t:-pass (netstate integration excluded)}"
mkdir -p /verif/seeded/equivalent/$name; cp $pd/patch.diff $pd/notes.md /verif/seeded/equivalent/$name/ 2>/dev/null
for p in "$@"; do
  out=$(cd /verif && VERIF_REPO=$wt VERIF_REPLAYS=/tmp/eq_replays_$name timeout 2400 ./bin/vcheck run $p --tier quick --no-evidence 2>&1); code=$?
  last=$(echo "$out" | grep -E '^(PASS|FAIL|INCONCLUSIVE) property' | tail -1 | cut -c1-130)
  if [ $code = 0 ]; then echo "CLEAN $name $p $last"; else echo "ALARM $name $p exit=$code $last"; echo "$out" | grep -E "^(VIOLATION|INCONCLUSIVE|NOTE)|obligation=" | head -8; fi
  echo "$out" | grep "^NOTE" | head -3
done
git -C /repo worktree remove --force $wt; rm -rf /tmp/eq_replays_$name
