#!/bin/bash
# usage: seed_eval.sh <property-id> <seed-dir> [tier] [name]
# Confirms a seeded change independently (fresh scratch worktree: builds, the
# existing tests pass, the demonstration fails with it and passes without it),
# then runs our check against it in /repo and undoes it straight afterwards.
export GOFLAGS=-mod=mod GOPROXY=off GOSUMDB=off GOTOOLCHAIN=local
id=$1; sd=$2; tier=${3:-quick}; name=${4:-$id}
wt=/tmp/ev_$name
out=/verif/seeded/$name
rm -rf $wt; git -C /repo worktree prune
git -C /repo worktree add -q --detach $wt HEAD || exit 2
pkg=$(cat $sd/demo_pkg.txt | tr -d ' \n')
res() { echo "$1" | tee -a $wt.log; }
: > $wt.log
if ! git -C $wt apply $sd/patch.diff 2>>$wt.log; then res "PATCH-DOES-NOT-APPLY"; git -C /repo worktree remove --force $wt; exit 3; fi
(cd $wt && go build ./... 2>&1 | tail -3) >> $wt.log
tests=$(cd $wt && go test -vet=off -count=1 ./... 2>&1 | grep -E "^(FAIL|ok|---)" | grep -v "^ok" | grep -v "TestIntegrationWatcherWatch\|internal/netstate" | tr '\n' ' ')
res "existing-tests-with-change: ${tests:-all pass (netstate integration test excluded)}"
cp $sd/demo_test.go $wt/$pkg/zz_seed_demo_test.go
with=$(cd $wt && go test -vet=off -count=1 -run 'Seed' ./$pkg 2>&1 | tail -1)
res "demo-with-change: $with"
git -C $wt apply -R $sd/patch.diff
without=$(cd $wt && go test -vet=off -count=1 -run 'Seed' ./$pkg 2>&1 | tail -1)
res "demo-without-change: $without"
git -C /repo worktree remove --force $wt
# our check
git -C /repo apply $sd/patch.diff || { res "PATCH-DOES-NOT-APPLY-TO-REPO"; exit 3; }
(cd /verif && timeout 1800 ./bin/vcheck run $id --tier $tier --no-evidence > $wt.check 2>&1; echo "exit=$?" >> $wt.check)
git -C /repo checkout -- .
res "check: $(grep -E '^(PASS|FAIL|INCONCLUSIVE) property' $wt.check | tail -1) $(tail -1 $wt.check)"
grep "^VIOLATION" $wt.check | head -3 | tee -a $wt.log
mkdir -p $out
cp $sd/patch.diff $out/patch.diff; cp $sd/demo_test.go $out/demo_test.go; cp $sd/notes.md $out/notes.md 2>/dev/null
python3 - "$id" "$name" "$pkg" "$wt.log" "$wt.check" "$tier" <<'PY'
import json,sys,re
id,name,pkg,log,check,tier=sys.argv[1:]
L=open(log).read(); C=open(check).read()
meta={"property":id,"name":name,"demo_package":pkg,
 "needs_to_manifest": "see notes.md (written by the independent sub-agent)",
 "confirmed": {l.split(':',1)[0]:l.split(':',1)[1].strip() for l in L.splitlines() if ':' in l and not l.startswith('VIOLATION')},
 "check_cmd":"./bin/vcheck run %s --tier %s"%(id,tier),
 "check_exit": int(re.search(r'exit=(\d+)',C).group(1)) if re.search(r'exit=(\d+)',C) else None,
 "check_violations":[l for l in C.splitlines() if l.startswith('VIOLATION')][:5],
 "detected": bool(re.search(r'^VIOLATION',C,re.M)),
 "procedure":"fresh worktree of /repo HEAD under /tmp: git apply patch.diff; go build ./...; go test ./... ; demo test with and without the patch; then git -C /repo apply patch.diff; vcheck; git -C /repo checkout -- ."}
json.dump(meta,open('/verif/seeded/%s/meta.json'%name,'w'),indent=1)
print("detected:",meta["detected"])
PY
