package main

// Native replay: a solver assignment is fed to the same harness source,
// compiled by the real Go tool chain against the current /repo tree
// (go test -overlay). Calls that the engine redirects to zzStub_* functions
// are redirected natively by rewriting the package's source files (AST),
// also supplied through the overlay; /repo itself is never modified.

import (
	"bytes"
	"encoding/json"
	"fmt"
	"go/ast"
	"go/format"
	"go/parser"
	"go/token"
	"go/types"
	"os"
	"os/exec"
	"path/filepath"
	"regexp"
	"sort"
	"strings"
	"sync"
	"time"

	"golang.org/x/tools/go/packages"
)

type ReplayDoc struct {
	Property   string            `json:"property"`
	Harness    string            `json:"harness"`
	Package    string            `json:"package"`
	Extra      []string          `json:"extra_packages,omitempty"`
	Obligation string            `json:"obligation"`
	Kind       string            `json:"kind"`
	Where      string            `json:"where"`
	Assignment map[string]string `json:"assignment"`
	Params     map[string]int    `json:"params,omitempty"`
	Race       bool              `json:"race_detector,omitempty"`
	Schedule   []string          `json:"schedule,omitempty"`
	RepoHead   string            `json:"repo_head"`
	Result     string            `json:"native_result"`
	Output     string            `json:"native_output,omitempty"`
	Command    string            `json:"command"`
}

var nativeSem = make(chan struct{}, 4)
var _ sync.Mutex

func replayCex(prop string, h *HarnessRun, cx *Counterexample) {
	doc := &ReplayDoc{Property: prop, Harness: cx.Harness, Package: h.Spec.Pkg, Extra: h.Spec.Extra, Obligation: cx.Obligation, Kind: cx.Kind, Race: h.Spec.Race,
		Where: cx.Where, Assignment: map[string]string{}, Schedule: cx.Sched, RepoHead: repoHead(), Params: h.params}
	for k, v := range cx.Model {
		doc.Assignment[k] = v
	}
	dir := filepath.Join(replaysDir(), prop)
	os.MkdirAll(dir, 0o755)
	safe := regexp.MustCompile(`[^A-Za-z0-9_.-]+`).ReplaceAllString(cx.Obligation, "_")
	path := filepath.Join(dir, fmt.Sprintf("%s-%s.json", cx.Harness, safe))
	cx.ReplayPath = path
	doc.Command = "cd /verif && ./bin/vcheck replay " + path
	writeDoc := func() {
		b, _ := json.MarshalIndent(doc, "", " ")
		os.WriteFile(path, b, 0o644)
	}
	writeDoc()
	res, out := runNative(doc)
	if res != "confirmed" && cx.Kind == "lock-discipline" {
		// the unguarded access is a race only in executions where the other
		// party runs concurrently: try the other values of the harness's
		// discrete choices (release points) under the race detector
		names := make([]string, 0, len(cx.Choices))
		for n := range cx.Choices {
			names = append(names, n)
		}
		sort.Strings(names)
	alt:
		for _, n := range names {
			orig := doc.Assignment[n]
			for v := 0; v < 8; v++ {
				doc.Assignment[n] = fmt.Sprint(v)
				if r2, o2 := runNative(doc); r2 == "confirmed" {
					res, out = r2, o2
					break alt
				}
			}
			doc.Assignment[n] = orig
		}
	}
	doc.Result = res
	doc.Output = out
	writeDoc()
	cx.Replayed = res
	cx.ReplayOut = out
}

func repoHead() string {
	out, err := exec.Command("git", "-C", repoDir, "rev-parse", "--short", "HEAD").Output()
	if err != nil {
		return "?"
	}
	return strings.TrimSpace(string(out))
}

func cmdReplay(args []string) int {
	if len(args) < 1 {
		fmt.Fprintln(os.Stderr, "usage: vcheck replay <file>")
		return 2
	}
	b, err := os.ReadFile(args[0])
	if err != nil {
		fmt.Fprintln(os.Stderr, err)
		return 2
	}
	var doc ReplayDoc
	if err := json.Unmarshal(b, &doc); err != nil {
		fmt.Fprintln(os.Stderr, err)
		return 2
	}
	res, out := runNative(&doc)
	fmt.Println(out)
	fmt.Printf("replay result: %s\n", res)
	if res == "confirmed" {
		fmt.Printf("VIOLATION property=%s replay=%s\n", doc.Property, args[0])
		return 1
	}
	return 0
}

// runNative builds and runs the harness natively with the assignment.
func runNative(doc *ReplayDoc) (string, string) {
	nativeSem <- struct{}{}
	defer func() { <-nativeSem }()
	tmp, err := os.MkdirTemp("", "vcheck-replay-")
	if err != nil {
		return "no-replay", err.Error()
	}
	defer os.RemoveAll(tmp)
	ovPath, err := nativeOverlay(doc.Package, doc.Extra, tmp)
	if err != nil {
		return "no-replay", "overlay: " + err.Error()
	}
	assign := filepath.Join(tmp, "assign.json")
	b, _ := json.Marshal(map[string]interface{}{"assignment": doc.Assignment, "params": doc.Params})
	os.WriteFile(assign, b, 0o644)
	args := []string{"test", "-vet=off", "-count=1", "-overlay", ovPath, "-run", "^TestZZReplay$", "-v", "-timeout", "120s"}
	if doc.Race {
		args = append(args, "-race")
	}
	cmd := exec.Command("go", append(args, doc.Package)...)
	cmd.Dir = repoDir
	cmd.Env = append(os.Environ(), "GOFLAGS=-mod=mod", "GOPROXY=off", "GOSUMDB=off", "GOTOOLCHAIN=local",
		"ZZ_REPLAY="+assign, "ZZ_HARNESS="+doc.Harness)
	var buf bytes.Buffer
	cmd.Stdout = &buf
	cmd.Stderr = &buf
	done := make(chan error, 1)
	go func() { done <- cmd.Run() }()
	select {
	case <-done:
	case <-time.After(180 * time.Second):
		cmd.Process.Kill()
		return "no-replay", "native replay timed out\n" + buf.String()
	}
	out := buf.String()
	var keep []string
	for _, l := range strings.Split(out, "\n") {
		if strings.Contains(l, "ZZ-") || strings.Contains(l, "panic") || strings.Contains(l, "FAIL") || strings.Contains(l, "cannot") || strings.Contains(l, "error") || strings.Contains(l, ".go:") {
			keep = append(keep, l)
		}
	}
	short := strings.Join(keep, "\n")
	if doc.Race && strings.Contains(out, "WARNING: DATA RACE") {
		short += "\nZZ-RACE (Go race detector)\n" + tail(out, 40)
		if strings.HasPrefix(doc.Obligation, "guarded-by/") {
			return "confirmed", short
		}
		return "no-replay", short
	}
	switch {
	case strings.Contains(out, "ZZ-FAILED "+doc.Obligation+"\n") || strings.Contains(out, "ZZ-FAILED "+doc.Obligation+" "):
		return "confirmed", short
	case doc.Obligation == "no-panic" && strings.Contains(out, "ZZ-PANIC"):
		return "confirmed", short
	case doc.Obligation == "no-deadlock" && strings.Contains(out, "ZZ-DEADLOCK"):
		return "confirmed", short
	case strings.Contains(out, "ZZ-DONE"):
		return "not-reproduced", short
	}
	return "no-replay", short + "\n" + tail(out, 40)
}

func tail(s string, n int) string {
	ls := strings.Split(strings.TrimRight(s, "\n"), "\n")
	if len(ls) > n {
		ls = ls[len(ls)-n:]
	}
	return strings.Join(ls, "\n")
}

// nativeOverlay writes overlay.json for `go test -overlay`.
func nativeOverlay(pkgPath string, extra []string, tmp string) (string, error) {
	rel := strings.TrimPrefix(strings.TrimPrefix(pkgPath, modPath), "/")
	all := map[string]bool{pkgPath: true}
	for _, x := range extra {
		all[x] = true
	}
	ovSrc, err := overlayFor(all, true)
	if err != nil {
		return "", err
	}
	// the native build leaves out the same harness files as the engine did
	for f := range droppedHarnessFiles {
		delete(ovSrc, f)
	}
	// harness function names
	var harnessFns []string
	pkgName := ""
	fset := token.NewFileSet()
	stubsByDir := map[string]map[string]bool{}
	for p, src := range ovSrc {
		f, err := parser.ParseFile(fset, p, src, 0)
		if err != nil {
			return "", err
		}
		dir := filepath.Dir(p)
		main := dir == filepath.Join(repoDir, rel)
		if main {
			pkgName = f.Name.Name
		}
		for _, d := range f.Decls {
			if fd, ok := d.(*ast.FuncDecl); ok && fd.Recv == nil {
				if main && strings.HasPrefix(fd.Name.Name, "zzH") && fd.Type.Params.NumFields() == 0 {
					harnessFns = append(harnessFns, fd.Name.Name)
				}
				if strings.HasPrefix(fd.Name.Name, "zzStub_") {
					if stubsByDir[dir] == nil {
						stubsByDir[dir] = map[string]bool{}
					}
					stubsByDir[dir][fd.Name.Name] = true
				}
			}
		}
	}
	sort.Strings(harnessFns)
	var tb strings.Builder
	fmt.Fprintf(&tb, "package %s\n\nimport (\n\t\"fmt\"\n\t\"os\"\n\t\"runtime\"\n\t\"runtime/debug\"\n\t\"testing\"\n\t\"time\"\n)\n\n", pkgName)
	tb.WriteString("var zzHarnessTable = map[string]func(){\n")
	for _, n := range harnessFns {
		fmt.Fprintf(&tb, "\t%q: %s,\n", n, n)
	}
	tb.WriteString("}\n\n")
	tb.WriteString(`func TestZZReplay(t *testing.T) {
	name := os.Getenv("ZZ_HARNESS")
	fn := zzHarnessTable[name]
	if fn == nil {
		t.Fatalf("ZZ-NOHARNESS %s", name)
	}
	done := make(chan string, 1)
	zzBaseGoroutines = runtime.NumGoroutine()
	go func() {
		msg := "ZZ-GOEXIT"
		defer func() {
			if r := recover(); r != nil {
				msg = fmt.Sprintf("ZZ-PANIC %v\n%s", r, debug.Stack())
			}
			done <- msg
		}()
		fn()
		msg = "ZZ-RETURNED"
	}()
	select {
	case m := <-done:
		fmt.Println(m)
	case <-time.After(30 * time.Second):
		fmt.Println("ZZ-DEADLOCK harness did not finish in 30s")
	}
	zzR.mu.Lock()
	defer zzR.mu.Unlock()
	if zzR.assumeKO {
		fmt.Println("ZZ-ASSUME-FALSE")
	}
	for _, m := range zzR.missing {
		fmt.Println("ZZ-MISSING " + m)
	}
	for _, id := range zzR.failed {
		fmt.Printf("ZZ-FAILED %s \n", id)
	}
	fmt.Println("ZZ-DONE")
}
`)
	ov := map[string]string{}
	write := func(virtual string, content []byte) error {
		real := filepath.Join(tmp, strings.ReplaceAll(strings.TrimPrefix(virtual, "/"), "/", "__"))
		if err := os.WriteFile(real, content, 0o644); err != nil {
			return err
		}
		ov[virtual] = real
		return nil
	}
	for p, src := range ovSrc {
		if err := write(p, src); err != nil {
			return "", err
		}
	}
	if err := write(filepath.Join(repoDir, rel, "zz_replay_gen_test.go"), []byte(tb.String())); err != nil {
		return "", err
	}
	// redirect calls to stubbed functions inside each package's own files
	for pp := range all {
		prel := strings.TrimPrefix(strings.TrimPrefix(pp, modPath), "/")
		stubs := stubsByDir[filepath.Join(repoDir, prel)]
		if len(stubs) == 0 {
			continue
		}
		rew, err := rewriteForStubs(pp, ovSrc, stubs)
		if err != nil {
			return "", err
		}
		for p, src := range rew {
			if err := write(p, src); err != nil {
				return "", err
			}
		}
	}
	b, _ := json.Marshal(map[string]interface{}{"Replace": ov})
	ovPath := filepath.Join(tmp, "overlay.json")
	if err := os.WriteFile(ovPath, b, 0o644); err != nil {
		return "", err
	}
	return ovPath, nil
}

func nativeStubName(fn *types.Func) string {
	if fn.Pkg() == nil {
		return ""
	}
	sig := fn.Type().(*types.Signature)
	name := "zzStub_" + fn.Pkg().Name() + "_"
	if recv := sig.Recv(); recv != nil {
		t := recv.Type()
		if p, ok := t.(*types.Pointer); ok {
			t = p.Elem()
		}
		n, ok := t.(*types.Named)
		if !ok {
			return ""
		}
		if _, isI := n.Underlying().(*types.Interface); isI {
			return ""
		}
		name += n.Obj().Name() + "_"
	}
	return name + fn.Name()
}

// rewriteForStubs returns rewritten copies of the package's non-harness files
// in which calls to functions that have a zzStub_ replacement call the stub.
func rewriteForStubs(pkgPath string, ovSrc map[string][]byte, stubs map[string]bool) (map[string][]byte, error) {
	cfg := &packages.Config{
		Mode:    packages.NeedName | packages.NeedFiles | packages.NeedSyntax | packages.NeedTypes | packages.NeedTypesInfo | packages.NeedImports | packages.NeedDeps,
		Dir:     repoDir,
		Overlay: ovSrc,
		Env:     append(os.Environ(), "GOFLAGS=-mod=mod", "GOPROXY=off", "GOSUMDB=off", "GOTOOLCHAIN=local", "CGO_ENABLED=0"),
	}
	pkgs, err := packages.Load(cfg, pkgPath)
	if err != nil {
		return nil, err
	}
	if len(pkgs) != 1 {
		return nil, fmt.Errorf("expected one package for %s", pkgPath)
	}
	p := pkgs[0]
	if len(p.Errors) > 0 {
		return nil, fmt.Errorf("native type-check: %v", p.Errors[0])
	}
	out := map[string][]byte{}
	for _, file := range p.Syntax {
		fname := p.Fset.Position(file.Package).Filename
		if _, isHarness := ovSrc[fname]; isHarness {
			continue
		}
		changed := false
		var inStub bool
		ast.Inspect(file, func(n ast.Node) bool {
			if fd, ok := n.(*ast.FuncDecl); ok {
				inStub = strings.HasPrefix(fd.Name.Name, "zz")
			}
			call, ok := n.(*ast.CallExpr)
			if !ok || inStub {
				return true
			}
			switch fun := call.Fun.(type) {
			case *ast.Ident:
				if fo, ok := p.TypesInfo.Uses[fun].(*types.Func); ok {
					if sn := nativeStubName(fo); stubs[sn] {
						fun.Name = sn
						changed = true
					}
				}
			case *ast.SelectorExpr:
				fo, ok := p.TypesInfo.Uses[fun.Sel].(*types.Func)
				if !ok {
					return true
				}
				sn := nativeStubName(fo)
				if !stubs[sn] {
					return true
				}
				sig := fo.Type().(*types.Signature)
				if sig.Recv() == nil {
					call.Fun = ast.NewIdent(sn)
					changed = true
					return true
				}
				sel := p.TypesInfo.Selections[fun]
				if sel == nil || sel.Kind() != types.MethodVal {
					return true
				}
				recvExpr := fun.X
				_, wantPtr := sig.Recv().Type().(*types.Pointer)
				_, havePtr := p.TypesInfo.TypeOf(fun.X).Underlying().(*types.Pointer)
				if wantPtr && !havePtr {
					recvExpr = &ast.UnaryExpr{Op: token.AND, X: fun.X}
				} else if !wantPtr && havePtr {
					recvExpr = &ast.StarExpr{X: fun.X}
				}
				call.Fun = ast.NewIdent(sn)
				call.Args = append([]ast.Expr{recvExpr}, call.Args...)
				changed = true
			}
			return true
		})
		if !changed {
			continue
		}
		// imports that became unused -> blank
		used := map[string]bool{}
		ast.Inspect(file, func(n ast.Node) bool {
			if se, ok := n.(*ast.SelectorExpr); ok {
				if id, ok := se.X.(*ast.Ident); ok {
					used[id.Name] = true
				}
			}
			return true
		})
		for _, imp := range file.Imports {
			name := ""
			if imp.Name != nil {
				name = imp.Name.Name
			} else {
				path := strings.Trim(imp.Path.Value, `"`)
				if ip := p.Imports[path]; ip != nil {
					name = ip.Name
				} else {
					name = filepath.Base(path)
				}
			}
			if name != "_" && name != "." && !used[name] {
				imp.Name = ast.NewIdent("_")
			}
		}
		var buf bytes.Buffer
		if err := format.Node(&buf, p.Fset, file); err != nil {
			return nil, err
		}
		out[fname] = buf.Bytes()
	}
	return out, nil
}

// replaysDir: where counterexample replay files are written (VERIF_REPLAYS
// overrides it for seed evaluations that run beside the registered checks).
func replaysDir() string {
	if d := os.Getenv("VERIF_REPLAYS"); d != "" {
		return d
	}
	return filepath.Join(verifDir, "replays")
}
