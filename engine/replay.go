package main

func replayCex(prop string, h *HarnessRun, cx *Counterexample) {
	cx.Replayed = "no-replay"
}

func cmdReplay(args []string) int { return 2 }
