package main

const (
	pkgCorerad = "github.com/mdlayher/corerad/internal/corerad"
	pkgConfig  = "github.com/mdlayher/corerad/internal/config"
	pkgPlugin  = "github.com/mdlayher/corerad/internal/plugin"
	pkgSystem  = "github.com/mdlayher/corerad/internal/system"
	pkgNetstate = "github.com/mdlayher/corerad/internal/netstate"
	pkgCrhttp  = "github.com/mdlayher/corerad/internal/crhttp"
)

var registry = []*HarnessSpec{
	{Prop: "C16", Name: "S16", Structural: "S16", Tier: "quick", Bounds: "SSA of main.main: config.Parse called once with the result of time.Now() as epoch"},
	{Prop: "C17", Name: "S17", Structural: "S17", Tier: "quick", Bounds: "SSA of main.main: the same parsed configuration reaches NewMetrics, crhttp.NewHandler and BuildTasks"},
	{Prop: "C01", Name: "H01d", Structural: "H01d", Tier: "quick", Bounds: "call-graph scan: Interface.RouterAdvertisement is called only by buildRA, constScrape and the debug API"},
	{Prop: "C12", Name: "zzH12handle", Pkg: pkgCorerad, Tier: "quick", Bounds: "Advertiser.handle on an RA that shares a prefix and a route with ours; our and their lifetimes, hop limit, forwarding symbolic"},
	{Prop: "C04", Name: "zzH12handle", Pkg: pkgCorerad, Tier: "quick", Bounds: "consistency-check path: forwarding read once, our RA follows it"},
	{Prop: "C10", Name: "zzH10mon", Pkg: pkgCorerad, Tier: "quick", NoNative: true, Bounds: "Monitor.Run with all its real goroutines, with or without an open link-state subscription; one invalid message, then an opaque receive error / a non-timeout net.Error / a link-state change"},
	{Prop: "C09", Name: "zzH10mon", Pkg: pkgCorerad, Tier: "quick", NoNative: true, Bounds: "monitor side: an invalid message is counted invalid and reaches no monitor metric"},
	{Prop: "C13", Name: "zzH13b", Pkg: pkgSystem, Tier: "quick", Params: map[string]int{"messages": 2}, Bounds: "2 rtnetlink address messages with symbolic 32-bit flags, prefix length, cache lifetime and address; execute failing or not"},
	{Prop: "C14", Name: "zzH13b", Pkg: pkgSystem, Tier: "quick", Params: map[string]int{"messages": 2}, Bounds: "address flags source (shared with C13)"},
	{Prop: "C15", Name: "zzH15b", Pkg: pkgSystem, Tier: "quick", Bounds: "2 interfaces with symbolic flags, one symbolic route message per queried interface"},
	{Prop: "C04", Name: "zzH04sched", Pkg: pkgCorerad, Tier: "quick", MonoTime: true, NoNative: true, Bounds: "one request (all-nodes or an arbitrary unicast source) queued by the real scheduler; forwarding symbolic when the RA is queued and again when it is sent"},
	{Prop: "C04", Name: "zzH04handle2", Pkg: pkgCorerad, Tier: "quick", Bounds: "two consistency checks back to back at one clock reading, forwarding symbolic at each"},
	{Prop: "C04", Name: "zzH04c", Pkg: pkgSystem, Tier: "quick", Bounds: "sysctl file content of 0..2 arbitrary bytes or a read error; forwarding and autoconf keys; write of either value"},
	{Prop: "C11", Name: "zzH04c", Pkg: pkgSystem, Tier: "quick", Bounds: "the kernel autoconfiguration accessors behind system.State: the getter reads this interface's autoconf sysctl (true iff \"1\\n\"), the setter writes it (0..2 arbitrary content bytes or a read error)"},
	{Prop: "C10", Name: "zzH10g", Pkg: pkgSystem, Tier: "quick", Bounds: "lookupInterface over the four outcomes of net.InterfaceByName (found; package net's no-such-interface OpError; another OpError; opaque error)"},
	{Prop: "C10", Name: "zzH10f", Pkg: pkgSystem, Tier: "quick", Bounds: "interface flags symbolic (32 bits); 0..2 addresses each IPv6 (symbolic) / IPv4 / non-IPNet; listing failure"},
	{Prop: "C17", Name: "zzH17b", Pkg: pkgCrhttp, Tier: "quick", Unwind: 200, Bounds: "debug API request for a monitoring interface plus an advertising interface with one stanza of every kind (real parser), prepared or never prepared, forwarding symbolic, State read failing or not"},
	{Prop: "C04", Name: "zzH17b", Pkg: pkgCrhttp, Tier: "quick", Unwind: 200, Bounds: "debug-API path: the rendered router lifetime follows the forwarding state read for the request"},
	{Prop: "C17", Name: "zzH17d", Pkg: pkgCrhttp, Tier: "quick", Bounds: "Handler.ServeHTTP for the paths /, /metrics, /debug/pprof/, /_/api/interfaces, /other with nothing optional enabled; mux dispatch and banner are environment stubs"},
	{Prop: "C17", Name: "zzH17e", Pkg: pkgCorerad, Extra: []string{pkgConfig}, Tier: "quick", Unwind: 600, Bounds: "scrape of one advertising interface carrying the stanzas of one kind only (9 kinds incl. deprecated explicit prefix, deprecated route, wildcards), prepared or never prepared, real parser, symbolic lifetimes and clock"},
	{Prop: "C17", Name: "zzH17f", Pkg: pkgCrhttp, Extra: []string{pkgConfig}, Tier: "quick", Unwind: 200, Bounds: "debug-API request for one never-initialised advertising interface carrying the stanzas of one kind only (9 kinds), real parser, symbolic lifetimes"},
	{Prop: "C17", Name: "zzH17g", Pkg: pkgCrhttp, Tier: "quick", Bounds: "three successive debug-API requests for one static advertising interface: before initialisation, after initialisation, after re-initialisation with another hardware address; forwarding symbolic at each request"},
	{Prop: "C17", Name: "zzH17h", Pkg: pkgCorerad, Extra: []string{pkgConfig}, Tier: "quick", Unwind: 600, Bounds: "scrape of two advertising interfaces that both fail (never initialised, or the system state failing for every interface)"},
	{Prop: "C17", Name: "zzH17c", Pkg: pkgCrhttp, Tier: "quick", Bounds: "all four (prometheus, pprof) combinations"},
	{Prop: "C17", Name: "zzH17a", Pkg: pkgCorerad, Tier: "quick", Unwind: 600, Bounds: "three interfaces (advertising with one stanza of every kind parsed by the real parser, monitoring, neither) in 3 orders; plugins prepared or never prepared; forwarding/autoconf per interface symbolic; lifetimes symbolic"},
	{Prop: "C04", Name: "zzH17a", Pkg: pkgCorerad, Tier: "quick", Unwind: 600, Bounds: "metrics-scrape path: forwarding read per scrape, misconfiguration gauge iff not forwarding with a non-zero configured lifetime"},
	{Prop: "C08", Name: "zzH08g", Pkg: pkgCorerad, Tier: "quick", MonoTime: true, Explore: true, Sched: 3000, SchedThorough: 60000, Bounds: "Advertiser.Run with all its real goroutines and an open link-state subscription; the stop (cancel, then the subscription is closed as the watcher does when it ends) arrives at any point of the start-up, goroutine schedules explored up to the budget; terminate or reload; natively 40 repetitions"},
	{Prop: "C08", Name: "zzH08e", Pkg: pkgCorerad, Tier: "quick", MonoTime: true, NoNative: true, Explore: true, Sched: 3000, SchedThorough: 60000, Bounds: "Advertiser.Run with all its real goroutines; a solicitation injected and the context cancelled back to back; goroutine schedules explored up to the budget"},
	{Prop: "C08", Name: "zzH08d", Pkg: pkgCorerad, Tier: "quick", MonoTime: true, NoNative: true, Bounds: "Advertiser.Run with all its real goroutines over a scripted socket; stopped while idle / with a solicited response pending / with a solicited response in flight; terminate or reload"},
	{Prop: "C08", Name: "zzH08b", Pkg: pkgCorerad, Tier: "quick", Bounds: "signalTask.Run for SIGINT / SIGTERM / SIGHUP with a cancel function that reads the recorded decision"},
	{Prop: "C20", Name: "zzH08b", Pkg: pkgCorerad, Tier: "quick", Bounds: "signalTask.Run for SIGINT / SIGTERM / SIGHUP with a cancel function that reads the recorded decision"},
	{Prop: "C20", Name: "zzH20a", Pkg: pkgCorerad, Tier: "quick", Params: map[string]int{"interfaces": 3, "interfaces@thorough": 5}, Bounds: "3 (thorough 5) interfaces, each advertise / monitor / neither; debug address set or empty"},
	{Prop: "C20", Name: "zzH20b", Pkg: pkgCorerad, Tier: "quick", Unwind: 64, Bounds: "0..40 or unbounded *net.OpError results followed by ErrServerClosed / another error / cancellation"},
	{Prop: "C20", Name: "zzH20e", Pkg: pkgCorerad, Tier: "quick", Bounds: "watcherTask.Run with a watcher returning nil / os.ErrNotExist / wrapped os.ErrNotExist / another error"},
	{Prop: "C20", Name: "zzH08f", Pkg: pkgCorerad, Tier: "quick", Bounds: "Signals() and isTerminal for each of its elements"},
	{Prop: "C08", Name: "zzH08f", Pkg: pkgCorerad, Tier: "quick", Bounds: "Signals() and isTerminal for each of its elements"},
	{Prop: "C20", Name: "zzH20d", Pkg: pkgCorerad, Tier: "quick", Explore: true, Sched: 64, Race: true, Bounds: "signalTask.Run for SIGINT / SIGTERM / SIGHUP with one concurrent reader of the decision; lock discipline on terminator.term decided on every path and schedule; native validation under the Go race detector"},
	{Prop: "C20", Name: "zzH20c", Pkg: pkgCorerad, Tier: "quick", Explore: true, NoNative: true, Sched: 4000, SchedThorough: 60000, Params: map[string]int{"tasks": 2, "tasks@thorough": 3}, Bounds: "2 (3) stub tasks each with one of 5 behaviours; SIGINT / SIGTERM / SIGHUP / no signal delivered once everything is blocked; schedules explored up to the budget"},
	{Prop: "C07", Name: "zzH09b", Pkg: pkgCorerad, Tier: "quick", NoNative: true, Bounds: "Listen + handle over a scripted socket: a valid RS from any IPv6 source or ::, with or without the zone the socket layer attaches"},
	{Prop: "C07", Name: "zzH06", Pkg: pkgCorerad, Tier: "quick", MonoTime: true, NoNative: true, NotOf: []string{"multicast-ras-3s-apart", "multicast-ra-3s-after-initial"}, Params: map[string]int{"events": 2, "events@thorough": 3}, Bounds: "scheduler: 2 (3) requests (all-nodes or arbitrary unicast sources, possibly repeated) at arbitrary instants: one task per solicitation, delay in [0,500ms), each closure sends to its own source"},
	{Prop: "C09", Name: "zzH09b", Pkg: pkgCorerad, Tier: "quick", NoNative: true, Bounds: "Listen with its real goroutines over a scripted socket: one invalid message (any hop limit != 255) then one valid RS from any IPv6 source or ::, with or without zone; then cancellation"},
	{Prop: "C18", Name: "zzH09b", Pkg: pkgCorerad, Tier: "quick", NoNative: true, Bounds: "the receive path shared by monitor and advertiser: the sender address handed to the callback has its zone stripped for any IPv6 source"},
	{Prop: "C10", Name: "zzH10adv", Pkg: pkgCorerad, Tier: "quick", MonoTime: true, NoNative: true, Bounds: "Advertiser.Run with all its real goroutines; one fault: opaque receive error / link-state change / failing scheduled transmission; then cancellation"},
	{Prop: "C10", Name: "zzH10e", Pkg: pkgCorerad, Tier: "quick", NoNative: true, Bounds: "Listen with its real goroutines: non-timeout net.Error, opaque read error, or failing callback"},
	{Prop: "C06", Name: "zzH06burst", Pkg: pkgCorerad, Tier: "quick", MonoTime: true, NoNative: true, NotOf: []string{"one-unicast-ra-to-the-soliciting-source", "unicast-delay-in-0-500ms"}, Bounds: "two requests queued together before the scheduler runs (a unicast source and all-nodes, either order) at one instant; each task then runs at its due time"},
	{Prop: "C07", Name: "zzH06burst", Pkg: pkgCorerad, Tier: "quick", MonoTime: true, NoNative: true, NotOf: []string{"multicast-ra-3s-after-initial"}, Bounds: "two requests queued together (a unicast source and all-nodes, either order): one unicast RA to the source within 500 ms, one multicast RA"},
	{Prop: "C06", Name: "zzH06", Pkg: pkgCorerad, Tier: "quick", MonoTime: true, NoNative: true, NotOf: []string{"each-solicitation-answered-exactly-once-to-its-source", "unicast-delay-in-0-500ms"}, Params: map[string]int{"events": 2, "events@thorough": 3}, Bounds: "2 (3) requests, each all-nodes or an arbitrary unicast source, at arbitrary non-decreasing monotonic instants (ns); ideal timers (a task runs at registration + delay)"},
	{Prop: "C10", Name: "zzH10s", Pkg: pkgCorerad, Tier: "quick", MonoTime: true, NoNative: true, Params: map[string]int{"pending": 2}, Bounds: "2 pending RAs (multicast or unicast) whose transmissions all fail"},
	{Prop: "C03", Name: "zzH03header", Pkg: pkgConfig, Tier: "quick", Bounds: "all header keys symbolic (every shape of default_lifetime; any value of the timers, hop limit, flags, preference) as accepted by the real parser"},
	{Prop: "C03", Name: "zzH03prefix", Pkg: pkgConfig, Tier: "quick", Bounds: "one static prefix stanza: any accepted IPv6 prefix, both lifetimes of every accepted shape"},
	{Prop: "C03", Name: "zzH03route", Pkg: pkgConfig, Tier: "quick", Bounds: "one static route stanza: any accepted prefix, lifetime of every accepted shape, preference"},
	{Prop: "C03", Name: "zzH03dns", Pkg: pkgConfig, Tier: "quick", Bounds: "one rdnss stanza (one symbolic server) or one dnssl stanza (one concrete name), lifetime of every accepted shape"},
	{Prop: "C03", Name: "zzH03captive", Pkg: pkgConfig, Tier: "quick", Unwind: 1200, Bounds: "captive-portal URI of 15 lengths around the option-length boundaries (3..518 bytes, concrete content)"},
	{Prop: "C03", Name: "zzH03misc", Pkg: pkgConfig, Tier: "quick", Bounds: "mtu any accepted value; source LLA absent or a symbolic Ethernet address; pref64 absent / default / any parsable prefix string"},
	{Prop: "C01", Name: "zzH01a", Pkg: pkgConfig, Tier: "quick", Unwind: 200, Bounds: "one stanza of every kind parsed by the real parser; 1-2 interface addresses (one fully symbolic), one loopback route, MAC present/absent, forwarding, clock and epoch symbolic; RA built twice"},
	{Prop: "C01", Name: "zzH14b", Pkg: pkgConfig, Tier: "quick", Params: map[string]int{"static": 2, "repeats": 3}, Bounds: "idempotence / purity for an rdnss stanza (:: plus 2 static servers) parsed by the real parser; RA built 3 times"},
	{Prop: "C14", Name: "zzH14b", Pkg: pkgConfig, Tier: "quick", Params: map[string]int{"static": 2, "repeats": 3}, Bounds: "stanza with :: at any position among 2 symbolic static servers, parsed by the real parseRDNSS; RA built 3 times"},
	{Prop: "C02", Name: "zzH02interval", Pkg: pkgConfig, Tier: "quick", Bounds: "max_interval / min_interval of every shape (absent, auto, infinite, unparsable, any int64 ns value)"},
	{Prop: "C02", Name: "zzH02header", Pkg: pkgConfig, Tier: "quick", Bounds: "one of default_lifetime / reachable_time / retransmit_timer / hop_limit / mtu / preference of every shape, max_interval any accepted value"},
	{Prop: "C02", Name: "zzH02prefix", Pkg: pkgConfig, Tier: "quick", Bounds: "one prefix stanza: prefix string empty / unparsable / any IPv6 or IPv4 prefix incl. host bits, 4in6; both lifetimes of every shape; flags absent/true/false; deprecated"},
	{Prop: "C02", Name: "zzH02route", Pkg: pkgConfig, Tier: "quick", Bounds: "one route stanza: prefix string of every shape, lifetime of every shape, preference low/high/absent/unknown, deprecated"},
	{Prop: "C02", Name: "zzH02rdnss", Pkg: pkgConfig, Tier: "quick", Bounds: "one rdnss stanza: lifetime of every shape, 0..3 server strings each unparsable / IPv4 / any IPv6 address"},
	{Prop: "C02", Name: "zzH02overlap", Pkg: pkgConfig, Tier: "quick", Params: map[string]int{"n": 2, "n@thorough": 3}, Bounds: "2 (3) prefix or route stanzas with arbitrary canonical IPv6 prefixes (incl. the wildcards)"},
	{Prop: "C02", Name: "zzH02overlapW", Pkg: pkgConfig, Tier: "quick", Bounds: "three route stanzas: the wildcard (::/0 or empty) at any position, two arbitrary canonical IPv6 routes: rejected iff the two overlap"},
	{Prop: "C01", Name: "zzH02iface", Pkg: pkgConfig, Tier: "quick", Bounds: "name/names groups: every interface gets its own plugin objects"},
	{Prop: "C02", Name: "zzH02iface", Pkg: pkgConfig, Tier: "quick", Bounds: "name set/unset x 0..2 names x monitor x advertise x garbage advertising keys"},
	{Prop: "C02", Name: "zzH02compose", Pkg: pkgConfig, Tier: "quick", Bounds: "one whole advertising interface with two stanzas of every list kind, concrete valid values; at most one of 19 components corrupted (the second stanza of a list)"},
	{Prop: "C03", Name: "zzH12wire", Pkg: pkgCorerad, Extra: []string{pkgConfig}, Tier: "quick", Bounds: "framing: RAs with one to three options of different kinds (RDNSS + DNSSL; MTU + captive portal + PREF64) through ndp.MarshalMessage / ndp.ParseMessage"},
	{Prop: "C02", Name: "zzH02strings", Pkg: pkgConfig, Tier: "quick", Bounds: "12 concrete prefix texts x {pref64, prefix, route} through the real netip parsers"},
	{Prop: "C03", Name: "zzH02strings", Pkg: pkgConfig, Tier: "quick", Bounds: "12 concrete prefix texts: nothing with host bits, without a length, IPv4 or zoned reaches an RA"},
	{Prop: "C02", Name: "zzH02parse", Pkg: pkgConfig, Tier: "quick", Bounds: "0..3 interface groups of 1-2 names from a pool of three; debug address set/unset, resolvable or not; decoder failing or not"},
	{Prop: "C02", Name: "zzH02pref64", Pkg: pkgConfig, Tier: "quick", Bounds: "one pref64 stanza: prefix absent / empty / unparsable / any IPv4 or IPv6 prefix of any length"},
	{Prop: "C02", Name: "zzH02dnssl", Pkg: pkgConfig, Tier: "quick", Bounds: "one dnssl stanza: lifetime of every shape, 0..3 names from three tokens"},
	{Prop: "C19", Name: "zzH19a", Pkg: pkgNetstate, Tier: "quick", Params: map[string]int{"subs": 2, "changes": 3, "subs@thorough": 3, "changes@thorough": 3}, Bounds: "2 (3) subscribers with any non-empty 7-bit mask on one of two interfaces; 3 changes, each any non-zero 7-bit value, on either interface"},
	{Prop: "C19", Name: "zzH19b", Pkg: pkgNetstate, Tier: "quick", Bounds: "10 matching events; one subscriber never drains, a second one with the same interface and mask drains after every notification"},
	{Prop: "C19", Name: "zzH19c", Pkg: pkgNetstate, Tier: "quick", Params: map[string]int{"subs": 2, "subs@thorough": 3}, Bounds: "2 (3) subscribers, 0..2 notifications before watching ends"},
	{Prop: "C19", Name: "zzH19d", Pkg: pkgNetstate, Tier: "quick", Explore: true, Sched: 5000, Race: true, Bounds: "one early and one late subscriber; 2 notifications; the late Subscribe released at any of 4 points and scheduled at any later scheduling point (all schedules: the budget of 5000 is not reached); lock discipline on Watcher.m decided on every path; native validation under the Go race detector"},
	{Prop: "C19", Name: "zzH19e", Pkg: pkgNetstate, Tier: "quick", Bounds: "every 8-bit operational state"},
	{Prop: "C10", Name: "zzH10a", Pkg: pkgSystem, Tier: "quick", Unwind: 60, Bounds: "every input error class; DialFunc first succeeds at attempt 0..50 or never (loop unrolled to its 50 attempts)"},
	{Prop: "C10", Name: "zzH10aCancel", Pkg: pkgSystem, Tier: "quick", Unwind: 60, Bounds: "cancellation during any of the first 4 waits, or none"},
	{Prop: "C11", Name: "zzH11", Pkg: pkgSystem, Tier: "quick", Unwind: 60, Params: map[string]int{"failures": 1, "rounds": 2, "failures@thorough": 2, "rounds@thorough": 3}, Bounds: "both modes; up to `rounds` task rounds with every task outcome class; at most `failures` failing environment calls placed anywhere (lookup, check, dialNDP x3 classes, autoconf get, autoconf set/restore x3 classes)"},
	{Prop: "C07", Name: "zzH07send", Pkg: pkgCorerad, Tier: "quick", Bounds: "one sendWorker call: destination all-nodes / any IPv6 address with or without zone, unicast_only, forwarding, header fields symbolic; write succeeds or fails"},
	{Prop: "C01", Name: "zzH07send", Pkg: pkgCorerad, Tier: "quick", Bounds: "the RA actually transmitted by sendWorker carries the configured header fields and both options, for every destination kind, unicast-only setting and forwarding state"},
	{Prop: "C07", Name: "zzH07a", Pkg: pkgCorerad, Tier: "quick", Bounds: "one handle call: RS (with/without source LLA) from any IPv6 / IPv4 / unspecified source; NS; NA"},
	{Prop: "C04", Name: "zzH04a", Pkg: pkgConfig, Tier: "quick", Bounds: "Interface.RouterAdvertisement with all header fields, preference and two static plugins symbolic, forwarding on vs off"},
	{Prop: "C04", Name: "zzH07send", Pkg: pkgCorerad, Tier: "quick", Bounds: "sendWorker: forwarding read once per RA; lifetime follows it"},
	{Prop: "C04", Name: "zzH08a", Pkg: pkgCorerad, Tier: "quick", Bounds: "final RA path"},
	{Prop: "C04", Name: "zzH04seq", Pkg: pkgCorerad, Tier: "quick", Bounds: "two consecutive sends with independently symbolic forwarding reads"},
	{Prop: "C08", Name: "zzH08a", Pkg: pkgCorerad, Tier: "quick", Bounds: "one shutdown call: terminate/reload, unicast_only, forwarding, write failure symbolic"},
	{Prop: "C09", Name: "zzH09a", Pkg: pkgCorerad, Tier: "quick", Unwind: 256, Params: map[string]int{"k": 20, "k@thorough": 48}, Bounds: "0..k-1 consecutive messages with any hop limit != 255 followed by a valid one (k=20, thorough 48)"},
	{Prop: "C10", Name: "zzH10c", Pkg: pkgCorerad, Tier: "quick", Bounds: "0..6 read timeouts followed by a message, a non-timeout net.Error or another error"},
	{Prop: "C18", Name: "zzH18", Pkg: pkgCorerad, Tier: "quick", Params: map[string]int{"prefixes": 2, "prefixes@thorough": 4}, Bounds: "one message: RS/NS/NA or an RA with symbolic header, 0..2 (thorough 0..4) prefix options (all fields symbolic, whole-second lifetimes incl. 0 and 2^32-1 s) and an unknown option; receipt instant any wall-clock ns value; sender an opaque string"},
	{Prop: "C18", Name: "zzH18label", Pkg: pkgCorerad, Tier: "quick", Bounds: "cidrStr / prefixStr / routeStr on 6 concrete prefixes, boolFloat"},
	{Prop: "C17", Name: "zzH18label", Pkg: pkgCorerad, Tier: "quick", Bounds: "cidrStr / prefixStr / routeStr on 6 concrete prefixes, boolFloat"},
	{Prop: "C12", Name: "zzH18label", Pkg: pkgCorerad, Tier: "quick", Bounds: "the details label of prefix and route inconsistencies: CIDR form on 6 concrete prefixes"},
	{Prop: "C18", Name: "zzH18seq", Pkg: pkgCorerad, Tier: "quick", Bounds: "two messages through Monitor.monitor (real Listen and callback) from one link-local / global / unique-local sender with / without a zone: an RA followed by an RA / RS / NA; router and prefix lifetimes, flags symbolic"},
	{Prop: "C12", Name: "zzH12wire", Pkg: pkgCorerad, Extra: []string{pkgConfig}, Tier: "quick", Bounds: "one accepted advertising interface with the stanzas of one kind at a time (header fields; static prefix; static route; RDNSS + DNSSL; MTU + captive portal + PREF64), all durations and header fields symbolic (real parser), forwarding on/off; ndp.MarshalMessage then ndp.ParseMessage through their real bodies"},
	{Prop: "C12", Name: "zzH12wireDep", Pkg: pkgCorerad, Extra: []string{pkgConfig}, Tier: "quick", MonoTime: true, Bounds: "one deprecated prefix or one deprecated route, lifetimes symbolic (real parser), arbitrary epoch <= now (monotonic readings)"},
	{Prop: "C03", Name: "zzH12wireDep", Pkg: pkgCorerad, Extra: []string{pkgConfig}, Tier: "quick", MonoTime: true, Bounds: "a deprecated prefix or route from the real parser at an arbitrary instant: the RA encodes and decodes"},
	{Prop: "C12", Name: "zzH12oracle", Pkg: pkgCorerad, Tier: "quick", Bounds: "the harnesses' definition of a lifetime on the wire against ndp's real encoder and decoder: prefix valid / preferred, route, RDNSS, DNSSL lifetime, any ns value in [0, Infinity]"},
	{Prop: "C12", Name: "zzH12ra", Pkg: pkgCorerad, Tier: "quick", Bounds: "all header fields of both RAs symbolic"},
	{Prop: "C12", Name: "zzH12mtu", Pkg: pkgCorerad, Tier: "quick", Bounds: "MTU option present/absent per side, values symbolic, distinct objects"},
	{Prop: "C12", Name: "zzH12captive", Pkg: pkgCorerad, Tier: "quick", Bounds: "captive-portal option present/absent per side, equal or different URI, distinct objects"},
	{Prop: "C12", Name: "zzH12prefix", Pkg: pkgCorerad, Tier: "quick", Params: map[string]int{"n": 2}, Bounds: "0..2 prefix options per side, all fields symbolic (ours: any ns lifetime the parser accepts; theirs: whole seconds)"},
	{Prop: "C12", Name: "zzH12route", Pkg: pkgCorerad, Tier: "quick", Params: map[string]int{"n": 2}, Bounds: "0..n route options per side, all fields symbolic"},
	{Prop: "C12", Name: "zzH12rdnss", Pkg: pkgCorerad, Tier: "quick", Params: map[string]int{"n": 2, "n@thorough": 2}, Bounds: "0..2 RDNSS options per side with 1..2 symbolic servers"},
	{Prop: "C12", Name: "zzH12dnssl", Pkg: pkgCorerad, Tier: "quick", Params: map[string]int{"n": 2, "n@thorough": 2}, Bounds: "0..2 DNSSL options per side with 1..2 names from three tokens"},
	{Prop: "C14", Name: "zzH14a", Pkg: pkgPlugin, Tier: "quick", Params: map[string]int{"n": 3, "n@thorough": 4}, Bounds: "address list of n=3 (thorough 4) fully symbolic entries (either family, any length, six flags)"},
	{Prop: "C15", Name: "zzH15", Pkg: pkgPlugin, Tier: "quick", Params: map[string]int{"n": 2, "n@thorough": 3}, Bounds: "route list of n=2 (thorough 3) symbolic masked prefixes of either family, any length"},
	{Prop: "C16", Name: "zzH16", Pkg: pkgPlugin, Tier: "quick", MonoTime: true, Params: map[string]int{"mono": 1, "moving": 1}, Bounds: "epoch and three non-decreasing monotonic clock readings (what time.Now returns; possibly before the epoch), lifetimes any ns value the parser accepts below 2^32 s"},
	{Prop: "C03", Name: "zzH16", Pkg: pkgPlugin, Tier: "quick", MonoTime: true, Params: map[string]int{"mono": 1, "moving": 1}, Bounds: "deprecated prefix and route lifetimes at three clock readings: never negative, preferred never above valid (what the wire can carry)"},
	{Prop: "C16", Name: "zzH16prep", Pkg: pkgPlugin, Extra: []string{pkgSystem}, Tier: "quick", MonoTime: true, Bounds: "real Plugin.Prepare of Prefix, Route, RDNSS, LLA, MTU, DNSSL run once or twice (re-initialisation); epoch, lifetimes, flags, deprecated, wildcard symbolic; system.NewAddresser is an environment stub"},
	{Prop: "C01", Name: "zzH16prep", Pkg: pkgPlugin, Extra: []string{pkgSystem}, Tier: "quick", MonoTime: true, Bounds: "initialising an interface (Plugin.Prepare, once or twice) never alters a configuration field of a plugin"},
	{Prop: "C16", Name: "zzH16wall", Pkg: pkgPlugin, Tier: "thorough", Params: map[string]int{"mono": 0, "moving": 0}, Bounds: "same with wall-clock-only readings (years 1970..2242), no reading more than 100 years before the epoch", Outside: "a wall clock more than a century before the daemon's start: epoch+lifetime-now leaves the range of time.Duration (Time.Sub saturates at 292 years); unreachable in production, where the epoch and every reading come from time.Now and carry a monotonic clock (S16)"},
	{Prop: "C01", Name: "zzH01b", Pkg: pkgPlugin, Tier: "quick", Bounds: "max_interval any ns value in [4s,1800s]"},
	{Prop: "C13", Name: "zzH13", Pkg: pkgPlugin, Tier: "quick", Params: map[string]int{"n": 3, "n@thorough": 4}, Bounds: "address list of n=2 (thorough 3) fully symbolic entries: either family, any length, all six flags; stanza flags/lifetimes symbolic; listing failure"},
	{Prop: "C05", Name: "zzH05b", Pkg: pkgCorerad, Tier: "quick", NoNative: true, Params: map[string]int{"iterations": 5, "iterations@thorough": 8}, Bounds: "the multicast loop as a goroutine for 5 (8) iterations with harness-owned timers, any accepted-range (min,max) at ns granularity, any draws; then cancellation"},
	{Prop: "C05", Name: "zzH05a", Pkg: pkgCorerad, Extra: []string{pkgConfig}, Tier: "quick", Bounds: "i any int>=0; (min,max) any ns-granular pair with 4s<=max<=1800s, 3s<=min<=max; Int63n any value in [0,n)"},
}

// harness overlays of imported packages must be present whenever a package is
// loaded (their files reference each other's exported shims)
var overlayDeps = map[string][]string{
	pkgCorerad: {pkgConfig, pkgPlugin, pkgSystem, pkgNetstate},
	pkgConfig:  {pkgPlugin, pkgSystem},
	pkgPlugin:  {pkgSystem},
	pkgCrhttp:  {pkgConfig, pkgPlugin, pkgSystem},
}

func init() {
	for _, h := range registry {
		have := map[string]bool{}
		for _, x := range h.Extra {
			have[x] = true
		}
		for _, d := range overlayDeps[h.Pkg] {
			if !have[d] && harnessDirHasFiles(d) {
				h.Extra = append(h.Extra, d)
			}
		}
	}
}
