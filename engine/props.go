package main

const (
	pkgCorerad = "github.com/mdlayher/corerad/internal/corerad"
	pkgConfig  = "github.com/mdlayher/corerad/internal/config"
	pkgPlugin  = "github.com/mdlayher/corerad/internal/plugin"
	pkgSystem  = "github.com/mdlayher/corerad/internal/system"
	pkgNetstate = "github.com/mdlayher/corerad/internal/netstate"
	pkgCrhttp  = "github.com/mdlayher/corerad/internal/crhttp"
)

var registry = []*HarnessSpec{
	{Prop: "C05", Name: "zzH05a", Pkg: pkgCorerad, Extra: []string{pkgConfig}, Tier: "quick", Bounds: "i any int>=0; (min,max) any ns-granular pair with 4s<=max<=1800s, 3s<=min<=max; Int63n any value in [0,n)"},
}
