package main

// Hash-consed SMT terms (Bool and fixed-width bit-vectors) with constant
// folding. W == 0 means Bool. Constants of width <= 64 live in Val; wider
// constants (soft-float significands) in Big.

import (
	"fmt"
	"math/big"
	"math/bits"
	"strings"
	"sync"
)

type Op uint8

const (
	OpConst Op = iota
	OpVar
	OpNot
	OpAnd
	OpOr
	OpIte
	OpEq
	OpAdd
	OpSub
	OpMul
	OpUDiv
	OpSDiv
	OpURem
	OpSRem
	OpBAnd
	OpBOr
	OpBXor
	OpBNot
	OpNeg
	OpShl
	OpLshr
	OpAshr
	OpUlt
	OpUle
	OpSlt
	OpSle
	OpExtract
	OpZext
	OpSext
	OpConcat
)

var opSMT = map[Op]string{
	OpNot: "not", OpAnd: "and", OpOr: "or", OpIte: "ite", OpEq: "=",
	OpAdd: "bvadd", OpSub: "bvsub", OpMul: "bvmul", OpUDiv: "bvudiv", OpSDiv: "bvsdiv",
	OpURem: "bvurem", OpSRem: "bvsrem", OpBAnd: "bvand", OpBOr: "bvor", OpBXor: "bvxor",
	OpBNot: "bvnot", OpNeg: "bvneg", OpShl: "bvshl", OpLshr: "bvlshr", OpAshr: "bvashr",
	OpUlt: "bvult", OpUle: "bvule", OpSlt: "bvslt", OpSle: "bvsle", OpConcat: "concat",
}

type Term struct {
	Op     Op
	W      int // 0 = Bool
	Args   []*Term
	Val    uint64   // const, W<=64 (Bool: 0/1)
	Big    *big.Int // const, W>64
	Name   string   // var
	Hi, Lo int      // extract; Zext/Sext: Hi = added bits
	ID     int
	hard   bool // contains mul/div/rem by non-constant-power-of-two (arith heavy)
	K0, K1 uint64 // known-zero / known-one bit masks (W in 1..64)
}

var (
	termMu    sync.Mutex
	termTab   = map[string]*Term{}
	termCount int
)

func intern(t *Term) *Term {
	var sb strings.Builder
	fmt.Fprintf(&sb, "%d/%d/%d/%d/%d/%s", t.Op, t.W, t.Val, t.Hi, t.Lo, t.Name)
	if t.Big != nil {
		sb.WriteString("/b" + t.Big.Text(16))
	}
	for _, a := range t.Args {
		fmt.Fprintf(&sb, ",%d", a.ID)
	}
	k := sb.String()
	termMu.Lock()
	defer termMu.Unlock()
	if x, ok := termTab[k]; ok {
		return x
	}
	termCount++
	t.ID = termCount
	for _, a := range t.Args {
		if a.hard {
			t.hard = true
		}
	}
	switch t.Op {
	case OpMul, OpUDiv, OpSDiv, OpURem, OpSRem:
		t.hard = true
	}
	t.knownBits()
	termTab[k] = t
	return t
}

// knownBits computes the known-zero / known-one masks of a bit-vector term.
func (t *Term) knownBits() {
	w := t.W
	if w == 0 || w > 64 {
		return
	}
	m := mask(w)
	a := func(i int) (uint64, uint64) {
		x := t.Args[i]
		if x.W == 0 || x.W > 64 {
			return 0, 0
		}
		return x.K0, x.K1
	}
	switch t.Op {
	case OpConst:
		t.K1 = t.Val & m
		t.K0 = ^t.Val & m
	case OpBAnd:
		a0, a1 := a(0)
		b0, b1 := a(1)
		t.K1 = a1 & b1
		t.K0 = (a0 | b0) & m
	case OpBOr:
		a0, a1 := a(0)
		b0, b1 := a(1)
		t.K1 = (a1 | b1) & m
		t.K0 = a0 & b0
	case OpBXor:
		a0, a1 := a(0)
		b0, b1 := a(1)
		t.K1 = (a1&b0 | a0&b1) & m
		t.K0 = (a0&b0 | a1&b1) & m
	case OpBNot:
		a0, a1 := a(0)
		t.K0, t.K1 = a1, a0
	case OpIte:
		a0, a1 := a(1)
		b0, b1 := a(2)
		t.K0, t.K1 = a0&b0, a1&b1
	case OpShl:
		if c := t.Args[1]; c.IsConst() && c.Big == nil && c.Val < uint64(w) {
			a0, a1 := a(0)
			k := uint(c.Val)
			t.K1 = (a1 << k) & m
			t.K0 = ((a0 << k) | (uint64(1)<<k - 1)) & m
		}
	case OpLshr:
		if c := t.Args[1]; c.IsConst() && c.Big == nil && c.Val < uint64(w) {
			a0, a1 := a(0)
			k := uint(c.Val)
			t.K1 = a1 >> k
			t.K0 = (a0>>k | ^(m >> k)) & m
		}
	case OpZext:
		x := t.Args[0]
		if x.W <= 64 {
			t.K1 = x.K1
			t.K0 = (x.K0 | ^mask(x.W)) & m
		}
	case OpExtract:
		x := t.Args[0]
		if x.W <= 64 {
			t.K1 = (x.K1 >> uint(t.Lo)) & m
			t.K0 = (x.K0 >> uint(t.Lo)) & m
		}
	case OpConcat:
		h, l := t.Args[0], t.Args[1]
		if h.W <= 64 && l.W <= 64 {
			t.K1 = (h.K1<<uint(l.W) | l.K1) & m
			t.K0 = (h.K0<<uint(l.W) | l.K0) & m
		}
	}
}

func mask(w int) uint64 {
	if w >= 64 {
		return ^uint64(0)
	}
	return (uint64(1) << uint(w)) - 1
}

func bigMask(w int) *big.Int {
	m := new(big.Int).Lsh(big.NewInt(1), uint(w))
	return m.Sub(m, big.NewInt(1))
}

var (
	True  = intern(&Term{Op: OpConst, W: 0, Val: 1})
	False = intern(&Term{Op: OpConst, W: 0, Val: 0})
)

func Bool(b bool) *Term {
	if b {
		return True
	}
	return False
}

func BV(w int, v uint64) *Term {
	if w > 64 {
		return BVBig(w, new(big.Int).SetUint64(v))
	}
	return intern(&Term{Op: OpConst, W: w, Val: v & mask(w)})
}

func BVBig(w int, v *big.Int) *Term {
	v = new(big.Int).And(v, bigMask(w))
	if w <= 64 {
		return BV(w, v.Uint64())
	}
	return intern(&Term{Op: OpConst, W: w, Big: v})
}

func Var(name string, w int) *Term {
	t := intern(&Term{Op: OpVar, W: w, Name: name})
	varNames.Store(t.ID, name)
	return t
}

var varNames sync.Map

func varNameByID(id int) string {
	if v, ok := varNames.Load(id); ok {
		return v.(string)
	}
	return ""
}

func (t *Term) IsConst() bool { return t.Op == OpConst }
func (t *Term) IsTrue() bool  { return t == True }
func (t *Term) IsFalse() bool { return t == False }

// big value of a constant
func (t *Term) bigVal() *big.Int {
	if t.Big != nil {
		return t.Big
	}
	return new(big.Int).SetUint64(t.Val)
}

// signed value of a <=64-bit constant
func (t *Term) Signed() int64 {
	if t.W >= 64 {
		return int64(t.Val)
	}
	if t.W == 0 {
		return int64(t.Val)
	}
	if t.Val&(1<<uint(t.W-1)) != 0 {
		return int64(t.Val | ^mask(t.W))
	}
	return int64(t.Val)
}

func mk(op Op, w int, args ...*Term) *Term {
	return collapse(intern(&Term{Op: op, W: w, Args: args}))
}

// collapse replaces a term all of whose bits are known by the constant.
func collapse(t *Term) *Term {
	if t.W > 0 && t.W <= 64 && t.Op != OpConst && (t.K0|t.K1) == mask(t.W) {
		return BV(t.W, t.K1)
	}
	return t
}

// ---------- Boolean ----------

func Not(a *Term) *Term {
	if a.W != 0 {
		panic("Not on non-bool")
	}
	if a.IsConst() {
		return Bool(a.Val == 0)
	}
	if a.Op == OpNot {
		return a.Args[0]
	}
	return mk(OpNot, 0, a)
}

func And(as ...*Term) *Term {
	var out []*Term
	seen := map[int]bool{}
	for _, a := range as {
		if a.W != 0 {
			panic("And on non-bool")
		}
		if a.IsFalse() {
			return False
		}
		if a.IsTrue() || seen[a.ID] {
			continue
		}
		if a.Op == OpAnd {
			for _, b := range a.Args {
				if !seen[b.ID] {
					seen[b.ID] = true
					out = append(out, b)
				}
			}
			continue
		}
		seen[a.ID] = true
		out = append(out, a)
	}
	for _, a := range out {
		if a.Op == OpNot && seen[a.Args[0].ID] {
			return False
		}
	}
	switch len(out) {
	case 0:
		return True
	case 1:
		return out[0]
	}
	return mk(OpAnd, 0, out...)
}

func Or(as ...*Term) *Term {
	var out []*Term
	seen := map[int]bool{}
	for _, a := range as {
		if a.W != 0 {
			panic("Or on non-bool")
		}
		if a.IsTrue() {
			return True
		}
		if a.IsFalse() || seen[a.ID] {
			continue
		}
		if a.Op == OpOr {
			for _, b := range a.Args {
				if !seen[b.ID] {
					seen[b.ID] = true
					out = append(out, b)
				}
			}
			continue
		}
		seen[a.ID] = true
		out = append(out, a)
	}
	for _, a := range out {
		if a.Op == OpNot && seen[a.Args[0].ID] {
			return True
		}
	}
	switch len(out) {
	case 0:
		return False
	case 1:
		return out[0]
	}
	return mk(OpOr, 0, out...)
}

func Implies(a, b *Term) *Term { return Or(Not(a), b) }

func Ite(c, a, b *Term) *Term {
	if c.W != 0 || a.W != b.W {
		panic(fmt.Sprintf("Ite sort mismatch %d %d %d", c.W, a.W, b.W))
	}
	if c.IsTrue() {
		return a
	}
	if c.IsFalse() {
		return b
	}
	if a == b {
		return a
	}
	if a.W == 0 {
		if a.IsTrue() && b.IsFalse() {
			return c
		}
		if a.IsFalse() && b.IsTrue() {
			return Not(c)
		}
		if a.IsTrue() {
			return Or(c, b)
		}
		if a.IsFalse() {
			return And(Not(c), b)
		}
		if b.IsTrue() {
			return Or(Not(c), a)
		}
		if b.IsFalse() {
			return And(c, a)
		}
	}
	return mk(OpIte, a.W, c, a, b)
}

func Eq(a, b *Term) *Term {
	if a.W != b.W {
		panic(fmt.Sprintf("Eq width mismatch %d %d", a.W, b.W))
	}
	if a == b {
		return True
	}
	if a.IsConst() && b.IsConst() {
		return False // hash-consed: distinct constants
	}
	if a.W > 0 && a.W <= 64 && (a.K1&b.K0 != 0 || a.K0&b.K1 != 0) {
		return False // some bit is known to differ
	}
	if a.W == 0 {
		if a.IsConst() {
			a, b = b, a
		}
		if b.IsTrue() {
			return a
		}
		if b.IsFalse() {
			return Not(a)
		}
	}
	// ite(c, k1, k2) == k  with constants
	if b.IsConst() && a.Op == OpIte && a.Args[1].IsConst() && a.Args[2].IsConst() {
		return Ite(a.Args[0], Eq(a.Args[1], b), Eq(a.Args[2], b))
	}
	if a.IsConst() && b.Op == OpIte && b.Args[1].IsConst() && b.Args[2].IsConst() {
		return Ite(b.Args[0], Eq(b.Args[1], a), Eq(b.Args[2], a))
	}
	if a.ID > b.ID {
		a, b = b, a
	}
	return mk(OpEq, 0, a, b)
}

// ---------- Bit-vector ----------

func constBin(op Op, a, b *Term) *Term {
	w := a.W
	if w > 64 {
		x, y := a.bigVal(), b.bigVal()
		r := new(big.Int)
		switch op {
		case OpAdd:
			r.Add(x, y)
		case OpSub:
			r.Sub(x, y)
			if r.Sign() < 0 {
				r.Add(r, new(big.Int).Lsh(big.NewInt(1), uint(w)))
			}
		case OpMul:
			r.Mul(x, y)
		case OpUDiv:
			if y.Sign() == 0 {
				return BVBig(w, bigMask(w))
			}
			r.Div(x, y)
		case OpURem:
			if y.Sign() == 0 {
				return a
			}
			r.Mod(x, y)
		case OpBAnd:
			r.And(x, y)
		case OpBOr:
			r.Or(x, y)
		case OpBXor:
			r.Xor(x, y)
		case OpShl:
			if y.Cmp(big.NewInt(int64(w))) >= 0 {
				return BV(w, 0)
			}
			r.Lsh(x, uint(y.Uint64()))
		case OpLshr:
			if y.Cmp(big.NewInt(int64(w))) >= 0 {
				return BV(w, 0)
			}
			r.Rsh(x, uint(y.Uint64()))
		default:
			return nil
		}
		return BVBig(w, r)
	}
	x, y := a.Val, b.Val
	sx, sy := a.Signed(), b.Signed()
	var r uint64
	switch op {
	case OpAdd:
		r = x + y
	case OpSub:
		r = x - y
	case OpMul:
		r = x * y
	case OpUDiv:
		if y == 0 {
			r = mask(w)
		} else {
			r = x / y
		}
	case OpURem:
		if y == 0 {
			r = x
		} else {
			r = x % y
		}
	case OpSDiv:
		if sy == 0 {
			if sx >= 0 {
				r = mask(w)
			} else {
				r = 1
			}
		} else if sy == -1 {
			r = uint64(-sx)
		} else {
			r = uint64(sx / sy)
		}
	case OpSRem:
		if sy == 0 {
			r = x
		} else if sy == -1 {
			r = 0
		} else {
			r = uint64(sx % sy)
		}
	case OpBAnd:
		r = x & y
	case OpBOr:
		r = x | y
	case OpBXor:
		r = x ^ y
	case OpShl:
		if y >= uint64(w) {
			r = 0
		} else {
			r = x << y
		}
	case OpLshr:
		if y >= uint64(w) {
			r = 0
		} else {
			r = x >> y
		}
	case OpAshr:
		if y >= uint64(w) {
			if sx < 0 {
				r = mask(w)
			} else {
				r = 0
			}
		} else {
			r = uint64(sx >> y)
		}
	default:
		return nil
	}
	return BV(w, r)
}

func isPow2Const(t *Term) bool {
	return t.IsConst() && t.W <= 64 && t.Val != 0 && t.Val&(t.Val-1) == 0
}

func BinBV(op Op, a, b *Term) *Term {
	if a.W != b.W || a.W == 0 {
		panic(fmt.Sprintf("BinBV %v width mismatch %d %d", opSMT[op], a.W, b.W))
	}
	w := a.W
	if a.IsConst() && b.IsConst() {
		if r := constBin(op, a, b); r != nil {
			return r
		}
	}
	zero := func(t *Term) bool { return t.IsConst() && t.Big == nil && t.Val == 0 }
	ones := func(t *Term) bool { return t.IsConst() && t.Big == nil && w <= 64 && t.Val == mask(w) }
	switch op {
	case OpAdd:
		if zero(a) {
			return b
		}
		if zero(b) {
			return a
		}
		if a.IsConst() { // canonical: const on the right
			a, b = b, a
		}
		// (x + c1) + c2
		if b.IsConst() && a.Op == OpAdd && a.Args[1].IsConst() {
			return BinBV(OpAdd, a.Args[0], constBin(OpAdd, a.Args[1], b))
		}
	case OpSub:
		if zero(b) {
			return a
		}
		if a == b {
			return BV(w, 0)
		}
		if b.IsConst() {
			return BinBV(OpAdd, a, constBin(OpSub, BV(w, 0), b))
		}
	case OpMul:
		if zero(a) || zero(b) {
			return BV(w, 0)
		}
		if a.IsConst() && a.Big == nil && a.Val == 1 {
			return b
		}
		if b.IsConst() && b.Big == nil && b.Val == 1 {
			return a
		}
		if a.IsConst() {
			a, b = b, a
		}
		if isPow2Const(b) {
			return BinBV(OpShl, a, BV(w, uint64(bits.TrailingZeros64(b.Val))))
		}
	case OpUDiv:
		if b.IsConst() && b.Big == nil && b.Val == 1 {
			return a
		}
		if isPow2Const(b) {
			return BinBV(OpLshr, a, BV(w, uint64(bits.TrailingZeros64(b.Val))))
		}
	case OpURem:
		if isPow2Const(b) {
			return BinBV(OpBAnd, a, BV(w, b.Val-1))
		}
	case OpSDiv:
		if b.IsConst() && b.Big == nil && b.Val == 1 {
			return a
		}
	case OpBAnd:
		if zero(a) || zero(b) {
			return BV(w, 0)
		}
		if ones(a) {
			return b
		}
		if ones(b) {
			return a
		}
		if a == b {
			return a
		}
		if a.IsConst() {
			a, b = b, a
		}
	case OpBOr:
		if zero(a) {
			return b
		}
		if zero(b) {
			return a
		}
		if a == b {
			return a
		}
		if ones(a) || ones(b) {
			return BV(w, mask(w))
		}
		if a.IsConst() {
			a, b = b, a
		}
	case OpBXor:
		if zero(a) {
			return b
		}
		if zero(b) {
			return a
		}
		if a == b {
			return BV(w, 0)
		}
		if a.IsConst() {
			a, b = b, a
		}
	case OpShl, OpLshr, OpAshr:
		if zero(b) {
			return a
		}
		if zero(a) {
			return a
		}
		if b.IsConst() && b.Big == nil && b.Val >= uint64(w) && op != OpAshr {
			return BV(w, 0)
		}
	}
	return mk(op, w, a, b)
}

func BNot(a *Term) *Term {
	if a.IsConst() {
		if a.W > 64 {
			return BVBig(a.W, new(big.Int).Xor(a.bigVal(), bigMask(a.W)))
		}
		return BV(a.W, ^a.Val)
	}
	if a.Op == OpBNot {
		return a.Args[0]
	}
	return mk(OpBNot, a.W, a)
}

func Neg(a *Term) *Term {
	if a.IsConst() {
		return constBin(OpSub, BV(a.W, 0), a)
	}
	return mk(OpNeg, a.W, a)
}

func Cmp(op Op, a, b *Term) *Term {
	if a.W != b.W || a.W == 0 {
		panic(fmt.Sprintf("Cmp width mismatch %d %d", a.W, b.W))
	}
	if a.IsConst() && b.IsConst() {
		if a.W > 64 {
			c := a.bigVal().Cmp(b.bigVal())
			switch op {
			case OpUlt:
				return Bool(c < 0)
			case OpUle:
				return Bool(c <= 0)
			}
			panic("signed compare of wide constants")
		}
		switch op {
		case OpUlt:
			return Bool(a.Val < b.Val)
		case OpUle:
			return Bool(a.Val <= b.Val)
		case OpSlt:
			return Bool(a.Signed() < b.Signed())
		case OpSle:
			return Bool(a.Signed() <= b.Signed())
		}
	}
	if a == b {
		return Bool(op == OpUle || op == OpSle)
	}
	if a.W <= 64 && (op == OpUlt || op == OpUle) {
		m := mask(a.W)
		amin, amax := a.K1, ^a.K0&m
		bmin, bmax := b.K1, ^b.K0&m
		if op == OpUlt {
			if amax < bmin {
				return True
			}
			if amin >= bmax {
				return False
			}
		} else {
			if amax <= bmin {
				return True
			}
			if amin > bmax {
				return False
			}
		}
	}
	// push comparisons through ite over constants
	if b.IsConst() && a.Op == OpIte && a.Args[1].IsConst() && a.Args[2].IsConst() {
		return Ite(a.Args[0], Cmp(op, a.Args[1], b), Cmp(op, a.Args[2], b))
	}
	if a.IsConst() && b.Op == OpIte && b.Args[1].IsConst() && b.Args[2].IsConst() {
		return Ite(b.Args[0], Cmp(op, a, b.Args[1]), Cmp(op, a, b.Args[2]))
	}
	return mk(op, 0, a, b)
}

func Extract(hi, lo int, a *Term) *Term {
	if hi < lo || hi >= a.W {
		panic(fmt.Sprintf("Extract [%d:%d] of width %d", hi, lo, a.W))
	}
	w := hi - lo + 1
	if w == a.W {
		return a
	}
	if a.IsConst() {
		if a.W > 64 {
			return BVBig(w, new(big.Int).Rsh(a.bigVal(), uint(lo)))
		}
		return BV(w, a.Val>>uint(lo))
	}
	switch a.Op {
	case OpZext:
		inner := a.Args[0]
		if hi < inner.W {
			return Extract(hi, lo, inner)
		}
		if lo >= inner.W {
			return BV(w, 0)
		}
	case OpSext:
		inner := a.Args[0]
		if hi < inner.W {
			return Extract(hi, lo, inner)
		}
	case OpExtract:
		return Extract(hi+a.Lo, lo+a.Lo, a.Args[0])
	case OpConcat:
		lw := a.Args[1].W
		if hi < lw {
			return Extract(hi, lo, a.Args[1])
		}
		if lo >= lw {
			return Extract(hi-lw, lo-lw, a.Args[0])
		}
	case OpIte:
		if a.Args[1].IsConst() && a.Args[2].IsConst() {
			return Ite(a.Args[0], Extract(hi, lo, a.Args[1]), Extract(hi, lo, a.Args[2]))
		}
	}
	return collapse(intern(&Term{Op: OpExtract, W: w, Args: []*Term{a}, Hi: hi, Lo: lo}))
}

func Zext(a *Term, to int) *Term {
	if to == a.W {
		return a
	}
	if to < a.W {
		return Extract(to-1, 0, a)
	}
	if a.IsConst() {
		return BVBig(to, a.bigVal())
	}
	if a.Op == OpZext {
		return Zext(a.Args[0], to)
	}
	return collapse(intern(&Term{Op: OpZext, W: to, Args: []*Term{a}, Hi: to - a.W}))
}

func Sext(a *Term, to int) *Term {
	if to == a.W {
		return a
	}
	if to < a.W {
		return Extract(to-1, 0, a)
	}
	if a.IsConst() {
		if a.W <= 64 && to <= 64 {
			return BV(to, uint64(a.Signed()))
		}
		v := a.bigVal()
		if v.Bit(a.W-1) == 1 {
			v = new(big.Int).Sub(v, new(big.Int).Lsh(big.NewInt(1), uint(a.W)))
			v.Add(v, new(big.Int).Lsh(big.NewInt(1), uint(to)))
		}
		return BVBig(to, v)
	}
	return intern(&Term{Op: OpSext, W: to, Args: []*Term{a}, Hi: to - a.W})
}

func Concat(hi, lo *Term) *Term {
	if hi.IsConst() && lo.IsConst() {
		v := new(big.Int).Lsh(hi.bigVal(), uint(lo.W))
		v.Or(v, lo.bigVal())
		return BVBig(hi.W+lo.W, v)
	}
	return mk(OpConcat, hi.W+lo.W, hi, lo)
}

// BoolToBV turns a Bool into a 1/0 bit-vector of width w.
func BoolToBV(c *Term, w int) *Term { return Ite(c, BV(w, 1), BV(w, 0)) }

// ---------- printing ----------

func sortOf(w int) string {
	if w == 0 {
		return "Bool"
	}
	return fmt.Sprintf("(_ BitVec %d)", w)
}

func (t *Term) ref() string {
	switch t.Op {
	case OpConst:
		if t.W == 0 {
			if t.Val == 1 {
				return "true"
			}
			return "false"
		}
		if t.Big != nil {
			return fmt.Sprintf("(_ bv%s %d)", t.Big.String(), t.W)
		}
		return fmt.Sprintf("(_ bv%d %d)", t.Val, t.W)
	case OpVar:
		return "|" + t.Name + "|"
	}
	return fmt.Sprintf("t%d", t.ID)
}

// body renders the defining expression of a non-leaf term using refs of args.
func (t *Term) body() string {
	var sb strings.Builder
	switch t.Op {
	case OpExtract:
		fmt.Fprintf(&sb, "((_ extract %d %d) %s)", t.Hi, t.Lo, t.Args[0].ref())
		return sb.String()
	case OpZext:
		fmt.Fprintf(&sb, "((_ zero_extend %d) %s)", t.Hi, t.Args[0].ref())
		return sb.String()
	case OpSext:
		fmt.Fprintf(&sb, "((_ sign_extend %d) %s)", t.Hi, t.Args[0].ref())
		return sb.String()
	}
	sb.WriteString("(" + opSMT[t.Op])
	for _, a := range t.Args {
		sb.WriteString(" " + a.ref())
	}
	sb.WriteString(")")
	return sb.String()
}

// String renders a term fully inlined (debugging / evidence; may be large).
func (t *Term) String() string {
	return t.str(0)
}

func (t *Term) str(depth int) string {
	if t.Op == OpConst || t.Op == OpVar {
		return t.ref()
	}
	if depth > 6 {
		return "…"
	}
	var sb strings.Builder
	switch t.Op {
	case OpExtract:
		fmt.Fprintf(&sb, "((_ extract %d %d) %s)", t.Hi, t.Lo, t.Args[0].str(depth+1))
		return sb.String()
	case OpZext:
		fmt.Fprintf(&sb, "((_ zero_extend %d) %s)", t.Hi, t.Args[0].str(depth+1))
		return sb.String()
	case OpSext:
		fmt.Fprintf(&sb, "((_ sign_extend %d) %s)", t.Hi, t.Args[0].str(depth+1))
		return sb.String()
	}
	sb.WriteString("(" + opSMT[t.Op])
	for _, a := range t.Args {
		sb.WriteString(" " + a.str(depth+1))
	}
	sb.WriteString(")")
	return sb.String()
}

// eval evaluates a term under an assignment of variables (used for replay
// sanity checks and for translator validation).
func (t *Term) Eval(env map[string]*big.Int, memo map[int]*Term) *Term {
	if t.Op == OpConst {
		return t
	}
	if r, ok := memo[t.ID]; ok {
		return r
	}
	var r *Term
	if t.Op == OpVar {
		v, ok := env[t.Name]
		if !ok {
			v = new(big.Int)
		}
		if t.W == 0 {
			r = Bool(v.Sign() != 0)
		} else {
			r = BVBig(t.W, v)
		}
	} else {
		args := make([]*Term, len(t.Args))
		for i, a := range t.Args {
			args[i] = a.Eval(env, memo)
		}
		r = rebuild(t, args)
	}
	memo[t.ID] = r
	return r
}

func rebuild(t *Term, args []*Term) *Term {
	switch t.Op {
	case OpNot:
		return Not(args[0])
	case OpAnd:
		return And(args...)
	case OpOr:
		return Or(args...)
	case OpIte:
		return Ite(args[0], args[1], args[2])
	case OpEq:
		return Eq(args[0], args[1])
	case OpBNot:
		return BNot(args[0])
	case OpNeg:
		return Neg(args[0])
	case OpUlt, OpUle, OpSlt, OpSle:
		return Cmp(t.Op, args[0], args[1])
	case OpExtract:
		return Extract(t.Hi, t.Lo, args[0])
	case OpZext:
		return Zext(args[0], t.W)
	case OpSext:
		return Sext(args[0], t.W)
	case OpConcat:
		return Concat(args[0], args[1])
	}
	return BinBV(t.Op, args[0], args[1])
}
