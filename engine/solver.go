package main

// Long-lived solver processes fed over stdin (push/pop), and a small
// portfolio: a query goes to a primary back end chosen by the shape of the
// formula; if it does not answer quickly a second, different back end is
// raced against it. Definitions of shared sub-terms are sent once per process
// as (define-fun tN () Sort body) at assertion level 0.

import (
	"bufio"
	"fmt"
	"io"
	"math/big"
	"os"
	"os/exec"
	"strings"
	"sync"
	"time"
)

type Status int

const (
	Unknown Status = iota
	Sat
	Unsat
)

func (s Status) String() string { return [...]string{"unknown", "sat", "unsat"}[s] }

type backend struct {
	name string
	argv []string
	pre  []string
}

var backends = map[string]backend{
	"z3new":   {"z3new", []string{"z3-new", "-in"}, []string{"(set-option :produce-models true)"}},
	"z3":      {"z3", []string{"z3", "-in"}, []string{"(set-option :produce-models true)"}},
	"cvc5":    {"cvc5", []string{"cvc5", "--incremental", "--produce-models", "--lang=smt2"}, []string{"(set-logic ALL)"}},
	"cvc5int": {"cvc5int", []string{"cvc5", "--incremental", "--produce-models", "--lang=smt2", "--solve-bv-as-int=sum"}, []string{"(set-logic ALL)"}},
}

type proc struct {
	be      backend
	cmd     *exec.Cmd
	in      io.WriteCloser
	out     *bufio.Reader
	defined map[int]bool
	dead    bool
}

func startProc(be backend) (*proc, error) {
	cmd := exec.Command(be.argv[0], be.argv[1:]...)
	in, err := cmd.StdinPipe()
	if err != nil {
		return nil, err
	}
	outp, err := cmd.StdoutPipe()
	if err != nil {
		return nil, err
	}
	cmd.Stderr = nil
	if err := cmd.Start(); err != nil {
		return nil, err
	}
	p := &proc{be: be, cmd: cmd, in: in, out: bufio.NewReaderSize(outp, 1<<20), defined: map[int]bool{}}
	for _, l := range be.pre {
		io.WriteString(in, l+"\n")
	}
	return p, nil
}

func (p *proc) kill() {
	if p.dead {
		return
	}
	p.dead = true
	p.in.Close()
	if p.cmd.Process != nil {
		p.cmd.Process.Kill()
	}
	go p.cmd.Wait()
}

// define emits declarations/definitions for t and everything below it.
func (p *proc) define(sb *strings.Builder, t *Term) {
	if t.Op == OpConst || p.defined[t.ID] {
		return
	}
	// iterative post-order to avoid deep recursion
	type fr struct {
		t *Term
		i int
	}
	stack := []fr{{t, 0}}
	for len(stack) > 0 {
		f := &stack[len(stack)-1]
		if f.t.Op == OpConst || p.defined[f.t.ID] {
			stack = stack[:len(stack)-1]
			continue
		}
		if f.i < len(f.t.Args) {
			a := f.t.Args[f.i]
			f.i++
			if a.Op != OpConst && !p.defined[a.ID] {
				stack = append(stack, fr{a, 0})
			}
			continue
		}
		x := f.t
		if x.Op == OpVar {
			fmt.Fprintf(sb, "(declare-const %s %s)\n", x.ref(), sortOf(x.W))
		} else {
			fmt.Fprintf(sb, "(define-fun %s () %s %s)\n", x.ref(), sortOf(x.W), x.body())
		}
		p.defined[x.ID] = true
		stack = stack[:len(stack)-1]
	}
}

type QueryResult struct {
	Status Status
	Model  map[string]*big.Int
	Solver string
	Dur    time.Duration
	Err    string
}

// run one query synchronously on this process.
func (p *proc) query(asserts []*Term, vars []*Term, timeoutMs int) QueryResult {
	start := time.Now()
	var sb strings.Builder
	for _, a := range asserts {
		p.define(&sb, a)
	}
	for _, v := range vars {
		p.define(&sb, v)
	}
	if strings.HasPrefix(p.be.name, "z3") {
		fmt.Fprintf(&sb, "(set-option :timeout %d)\n", timeoutMs)
	} else {
		fmt.Fprintf(&sb, "(set-option :tlimit-per %d)\n", timeoutMs)
	}
	sb.WriteString("(push 1)\n")
	for _, a := range asserts {
		fmt.Fprintf(&sb, "(assert %s)\n", a.ref())
	}
	sb.WriteString("(check-sat)\n")
	if dumpSMT != nil {
		dumpSMT(p.be.name, sb.String())
	}
	if _, err := io.WriteString(p.in, sb.String()); err != nil {
		p.kill()
		return QueryResult{Status: Unknown, Solver: p.be.name, Err: "write: " + err.Error(), Dur: time.Since(start)}
	}
	res := QueryResult{Solver: p.be.name}
	line, err := p.readLine()
	if err != nil {
		p.kill()
		res.Err = "read: " + err.Error()
		res.Dur = time.Since(start)
		return res
	}
	switch line {
	case "sat":
		res.Status = Sat
	case "unsat":
		res.Status = Unsat
	case "unknown", "timeout":
		res.Status = Unknown
	default:
		res.Status = Unknown
		res.Err = line
		// an (error ...) leaves the process in an uncertain state
		p.kill()
		res.Dur = time.Since(start)
		return res
	}
	if res.Status == Sat && len(vars) > 0 {
		var gv strings.Builder
		gv.WriteString("(get-value (")
		for _, v := range vars {
			gv.WriteString(v.ref() + " ")
		}
		gv.WriteString("))\n")
		io.WriteString(p.in, gv.String())
		txt, err := p.readSexp()
		if err != nil {
			p.kill()
			res.Err = "get-value: " + err.Error()
			res.Status = Unknown
			res.Dur = time.Since(start)
			return res
		}
		res.Model = parseModel(txt)
		if strings.Contains(txt, "(error") {
			res.Err = txt
			res.Status = Unknown
		}
	}
	io.WriteString(p.in, "(pop 1)\n")
	res.Dur = time.Since(start)
	return res
}

// queryRaw runs a self-contained script (declarations + assertions) inside a
// push/pop scope. Used for the integer encoding.
func (p *proc) queryRaw(script string, vars []*Term, timeoutMs int, label string) QueryResult {
	start := time.Now()
	var sb strings.Builder
	if strings.HasPrefix(p.be.name, "z3") {
		fmt.Fprintf(&sb, "(set-option :timeout %d)\n", timeoutMs)
	} else {
		fmt.Fprintf(&sb, "(set-option :tlimit-per %d)\n", timeoutMs)
	}
	sb.WriteString("(push 1)\n")
	sb.WriteString(script)
	sb.WriteString("(check-sat)\n")
	if dumpSMT != nil {
		dumpSMT(label, sb.String())
	}
	res := QueryResult{Solver: label}
	if _, err := io.WriteString(p.in, sb.String()); err != nil {
		p.kill()
		res.Err = "write: " + err.Error()
		res.Dur = time.Since(start)
		return res
	}
	line, err := p.readLine()
	if err != nil {
		p.kill()
		res.Err = "read: " + err.Error()
		res.Dur = time.Since(start)
		return res
	}
	switch line {
	case "sat":
		res.Status = Sat
	case "unsat":
		res.Status = Unsat
	case "unknown", "timeout":
	default:
		res.Err = line
		p.kill()
		res.Dur = time.Since(start)
		return res
	}
	if res.Status == Sat && len(vars) > 0 {
		var gv strings.Builder
		gv.WriteString("(get-value (")
		for _, v := range vars {
			gv.WriteString(v.ref() + " ")
		}
		gv.WriteString("))\n")
		io.WriteString(p.in, gv.String())
		txt, err := p.readSexp()
		if err != nil {
			p.kill()
			res.Err = "get-value: " + err.Error()
			res.Status = Unknown
			res.Dur = time.Since(start)
			return res
		}
		m := parseModel(txt)
		// integers -> unsigned bit-vector values
		for _, v := range vars {
			if val, ok := m[v.Name]; ok && v.W > 0 {
				m[v.Name] = new(big.Int).And(new(big.Int).Add(new(big.Int).Mod(val, pow2(v.W)), pow2(v.W)), new(big.Int).Sub(pow2(v.W), bigOne))
			}
		}
		res.Model = m
		if strings.Contains(txt, "(error") {
			res.Err = txt
			res.Status = Unknown
		}
	}
	io.WriteString(p.in, "(pop 1)\n")
	res.Dur = time.Since(start)
	return res
}

func (p *proc) readLine() (string, error) {
	for {
		l, err := p.out.ReadString('\n')
		if err != nil {
			return "", err
		}
		l = strings.TrimSpace(l)
		if l == "" {
			continue
		}
		if strings.HasPrefix(l, "(error") {
			return l, nil
		}
		return l, nil
	}
}

func (p *proc) readSexp() (string, error) {
	var sb strings.Builder
	depth := 0
	started := false
	inBar := false
	for {
		c, err := p.out.ReadByte()
		if err != nil {
			return sb.String(), err
		}
		sb.WriteByte(c)
		if c == '|' {
			inBar = !inBar
		}
		if inBar {
			continue
		}
		if c == '(' {
			depth++
			started = true
		} else if c == ')' {
			depth--
			if started && depth == 0 {
				return sb.String(), nil
			}
		}
	}
}

// parseModel parses "((|a| #x00ff) (|b| true) (c (_ bv5 64)))".
func parseModel(s string) map[string]*big.Int {
	m := map[string]*big.Int{}
	toks := tokenize(s)
	// expect ( ( name value ) ... )
	i := 0
	next := func() string {
		if i < len(toks) {
			t := toks[i]
			i++
			return t
		}
		return ""
	}
	if next() != "(" {
		return m
	}
	for i < len(toks) {
		t := next()
		if t == ")" {
			break
		}
		if t != "(" {
			continue
		}
		name := next()
		name = strings.Trim(name, "|")
		v := next()
		var val *big.Int
		switch {
		case v == "true":
			val = big.NewInt(1)
		case v == "false":
			val = big.NewInt(0)
		case strings.HasPrefix(v, "#x"):
			val, _ = new(big.Int).SetString(v[2:], 16)
		case strings.HasPrefix(v, "#b"):
			val, _ = new(big.Int).SetString(v[2:], 2)
		case v == "(":
			// (_ bvN W) or (- N)
			a := next()
			b := next()
			if a == "-" {
				if n, ok := new(big.Int).SetString(b, 10); ok {
					val = n.Neg(n)
				}
				next() // )
			} else {
				next() // width
				next() // )
				if a == "_" && strings.HasPrefix(b, "bv") {
					val, _ = new(big.Int).SetString(b[2:], 10)
				}
			}
		default:
			if n, ok := new(big.Int).SetString(v, 10); ok {
				val = n
			}
		}
		if val != nil {
			m[name] = val
		}
		// consume to matching ")"
		for i < len(toks) {
			if next() == ")" {
				break
			}
		}
	}
	return m
}

func tokenize(s string) []string {
	var toks []string
	i := 0
	for i < len(s) {
		c := s[i]
		switch {
		case c == '(' || c == ')':
			toks = append(toks, string(c))
			i++
		case c == ' ' || c == '\n' || c == '\t' || c == '\r':
			i++
		case c == '|':
			j := i + 1
			for j < len(s) && s[j] != '|' {
				j++
			}
			toks = append(toks, s[i:min(j+1, len(s))])
			i = j + 1
		default:
			j := i
			for j < len(s) && !strings.ContainsRune("() \n\t\r", rune(s[j])) {
				j++
			}
			toks = append(toks, s[i:j])
			i = j
		}
	}
	return toks
}

var dumpSMT func(solver, text string)

func init() {
	if d := os.Getenv("VCHECK_DUMP"); d != "" {
		os.MkdirAll(d, 0o755)
		var mu sync.Mutex
		n := 0
		dumpSMT = func(solver, text string) {
			mu.Lock()
			n++
			k := n
			mu.Unlock()
			os.WriteFile(fmt.Sprintf("%s/q%05d-%s.smt2", d, k, solver), []byte(text), 0o644)
		}
	}
}

// ---------- portfolio ----------

type SolverStats struct {
	mu       sync.Mutex
	Queries  map[string]int
	Time     map[string]float64
	Sat      int
	Unsat    int
	Unknown  int
	Raced    int
	Disagree int
	Errors   []string
	IntEncFail int
	IntEncWhy  []string
}

func newStats() *SolverStats {
	return &SolverStats{Queries: map[string]int{}, Time: map[string]float64{}}
}

func (s *SolverStats) add(r QueryResult) {
	s.mu.Lock()
	defer s.mu.Unlock()
	s.Queries[r.Solver]++
	s.Time[r.Solver] += r.Dur.Seconds()
	switch r.Status {
	case Sat:
		s.Sat++
	case Unsat:
		s.Unsat++
	default:
		s.Unknown++
	}
	if r.Err != "" && len(s.Errors) < 20 {
		s.Errors = append(s.Errors, r.Solver+": "+r.Err)
	}
}

// Portfolio is owned by one worker (not safe for concurrent Check calls).
type Portfolio struct {
	procs      map[string]*proc
	stats      *SolverStats
	timeoutMs  int
	raceAfter  time.Duration
	crossCheck bool
}

func NewPortfolio(stats *SolverStats, timeoutMs int, cross bool) *Portfolio {
	if os.Getenv("VCHECK_XCHECK") != "" {
		cross = true
	}
	return &Portfolio{procs: map[string]*proc{}, stats: stats, timeoutMs: timeoutMs, raceAfter: 1500 * time.Millisecond, crossCheck: cross}
}

func (pf *Portfolio) Close() {
	for _, p := range pf.procs {
		p.kill()
	}
}

func (pf *Portfolio) get(name string) *proc { return pf.getKey(name, name) }

func (pf *Portfolio) getKey(key, name string) *proc {
	p := pf.procs[key]
	if p != nil && !p.dead {
		return p
	}
	np, err := startProc(backends[name])
	if err != nil {
		fmt.Fprintln(os.Stderr, "cannot start solver", name, err)
		return nil
	}
	pf.procs[key] = np
	return np
}

var noIntEnc = os.Getenv("VCHECK_NOINT") != ""

func anyHard(ts []*Term) bool {
	for _, t := range ts {
		if t.hard {
			return true
		}
	}
	return false
}

// Check decides satisfiability of the conjunction of asserts.
func (pf *Portfolio) Check(asserts []*Term, vars []*Term) QueryResult {
	t0 := time.Now()
	r := pf.check(asserts, vars)
	if standaloneDir != "" && time.Since(t0) > time.Second {
		dumpStandalone(asserts, r, time.Since(t0))
	}
	if d := time.Since(t0); slowLog && d > 2*time.Second {
		fmt.Fprintf(os.Stderr, "slow query: %.1fs status=%v solver=%s hard=%v asserts=%d err=%s\n", d.Seconds(), r.Status, r.Solver, anyHard(asserts), len(asserts), r.Err)
	}
	return r
}

var slowLog = os.Getenv("VCHECK_SLOW") != ""

func (pf *Portfolio) check(asserts []*Term, vars []*Term) QueryResult {
	// trivial cases
	conj := And(asserts...)
	if conj.IsFalse() {
		return QueryResult{Status: Unsat, Solver: "simplifier"}
	}
	type attempt struct {
		name string
		ints bool
	}
	order := []attempt{{"z3new", false}, {"cvc5int", false}, {"cvc5", false}}
	var intScript string
	intApprox := false
	if anyHard(asserts) {
		order = []attempt{{"cvc5int", false}, {"z3new", false}, {"cvc5", false}}
		if !noIntEnc {
			if txt, approx, ok, why := intEncode(asserts, vars); ok {
				intScript = txt
				intApprox = approx
				order = []attempt{{"z3new", true}, {"cvc5", true}, {"cvc5int", false}, {"z3new", false}}
			} else {
				if slowLog {
					fmt.Fprintln(os.Stderr, "intenc failed:", why)
				}
				pf.stats.mu.Lock()
				pf.stats.IntEncFail++
				if len(pf.stats.IntEncWhy) < 5 {
					pf.stats.IntEncWhy = append(pf.stats.IntEncWhy, why)
				}
				pf.stats.mu.Unlock()
			}
		}
	}
	if forceSolver != "" {
		order = []attempt{{forceSolver, false}}
	}
	type ans struct {
		r QueryResult
		p *proc
	}
	ch := make(chan ans, len(order))
	launched := 0
	launch := func(at attempt) *proc {
		key := at.name
		if at.ints {
			key += "/int"
		}
		p := pf.getKey(key, at.name)
		if p == nil {
			return nil
		}
		launched++
		if at.ints {
			go func() {
				r := p.queryRaw(intScript, vars, pf.timeoutMs, key)
				if intApprox && r.Status == Sat {
					// over-approximated encoding: only unsat is meaningful
					r.Status = Unknown
					r.Model = nil
				}
				ch <- ans{r, p}
			}()
		} else {
			go func() { ch <- ans{p.query(asserts, vars, pf.timeoutMs), p} }()
		}
		return p
	}
	busy := map[*proc]bool{}
	if p := launch(order[0]); p != nil {
		busy[p] = true
	}
	nextIdx := 1
	hard := time.NewTimer(time.Duration(pf.timeoutMs)*time.Millisecond + 5*time.Second)
	defer hard.Stop()
	race := time.NewTimer(pf.raceAfter)
	defer race.Stop()
	var best QueryResult
	best.Status = Unknown
	best.Solver = order[0].name
	got := 0
	for got < launched || (nextIdx < len(order) && best.Status == Unknown) {
		if got >= launched {
			// all launched answered unknown: try next back end
			if p := launch(order[nextIdx]); p != nil {
				busy[p] = true
			}
			nextIdx++
			continue
		}
		select {
		case a := <-ch:
			got++
			delete(busy, a.p)
			pf.stats.add(a.r)
			if a.r.Status != Unknown {
				best = a.r
				goto done
			}
			if best.Err == "" {
				best.Err = a.r.Err
			}
		case <-race.C:
			if nextIdx < len(order) {
				if p := launch(order[nextIdx]); p != nil {
					busy[p] = true
					pf.stats.mu.Lock()
					pf.stats.Raced++
					pf.stats.mu.Unlock()
				}
				nextIdx++
				race.Reset(pf.raceAfter)
			}
		case <-hard.C:
			goto done
		}
	}
done:
	for p := range busy {
		p.kill()
	}
	if best.Status != Unknown && pf.crossCheck && forceSolver == "" {
		// ask a different back end for a second opinion (bounded)
		other := "cvc5"
		if best.Solver == "cvc5int" || best.Solver == "cvc5" {
			other = "z3new"
		}
		if strings.HasSuffix(best.Solver, "/int") {
			other = "cvc5int" // integer encoding is cross-checked against the BV encoding
		}
		if p := pf.get(other); p != nil {
			c := make(chan QueryResult, 1)
			go func() { c <- p.query(asserts, nil, 10000) }()
			select {
			case r2 := <-c:
				pf.stats.add(r2)
				if r2.Status != Unknown && r2.Status != best.Status {
					pf.stats.mu.Lock()
					pf.stats.Disagree++
					pf.stats.mu.Unlock()
					best.Err = fmt.Sprintf("solver disagreement: %s=%v %s=%v", best.Solver, best.Status, r2.Solver, r2.Status)
					if d := os.Getenv("VCHECK_DISAGREE"); d != "" && best.Model != nil {
						fmt.Fprintln(os.Stderr, "INTENC DEBUG:", debugIntEnc(pf, asserts, best.Model))
					}
					if d := os.Getenv("VCHECK_DISAGREE"); d != "" {
						os.MkdirAll(d, 0o755)
						standaloneMu.Lock()
						standaloneN++
						n := standaloneN
						standaloneMu.Unlock()
						os.WriteFile(fmt.Sprintf("%s/d%03d-int.smt2", d, n), []byte("(set-logic ALL)\n"+intScript+"(check-sat)\n(get-model)\n"), 0o644)
						sd := standaloneDir
						standaloneDir = d
						dumpStandalone(asserts, r2, 0)
						standaloneDir = sd
					}
					best.Status = Unknown
				}
			case <-time.After(13 * time.Second):
				p.kill()
			}
		}
	}
	return best
}

var forceSolver = os.Getenv("VCHECK_SOLVER")

var standaloneDir = os.Getenv("VCHECK_DUMPSLOW")
var standaloneN int
var standaloneMu sync.Mutex

func dumpStandalone(asserts []*Term, r QueryResult, d time.Duration) {
	standaloneMu.Lock()
	standaloneN++
	n := standaloneN
	standaloneMu.Unlock()
	os.MkdirAll(standaloneDir, 0o755)
	p := &proc{defined: map[int]bool{}}
	var sb strings.Builder
	fmt.Fprintf(&sb, "; %s %s %.1fs\n(set-logic ALL)\n", r.Solver, r.Status, d.Seconds())
	for _, a := range asserts {
		p.define(&sb, a)
	}
	for _, a := range asserts {
		fmt.Fprintf(&sb, "(assert %s)\n", a.ref())
	}
	sb.WriteString("(check-sat)\n")
	os.WriteFile(fmt.Sprintf("%s/slow%04d.smt2", standaloneDir, n), []byte(sb.String()), 0o644)
}
