package main

import (
	"fmt"
	"go/types"
	"math"
	"strings"

	"golang.org/x/tools/go/ssa"
)

// Value is one of:
//   *Term (bool / integer), FloatV, StrV, StructV, ArrayV, PtrV, SliceV,
//   MapV, IfaceV, *FuncV, ChanV, TupleV, nil (invalid / unset)
// All values are immutable; updates build new values.
type Value interface{}

type ObjID int

type StructV []Value
type ArrayV []Value
type TupleV []Value

// PtrV addresses a location inside a heap object. Path is a sequence of
// field / element indexes encoded as 2 bytes each (comparable with ==).
type PtrV struct {
	Obj  ObjID // 0 = nil
	Path string
}

type SliceV struct {
	Obj           ObjID // array object; 0 = nil slice
	Off, Len, Cap int
	Elem          types.Type
}

// ArrViewV: pointer to an array that aliases a window of a slice's backing
// array (result of a slice-to-array-pointer conversion at an offset).
type ArrViewV struct {
	Obj    ObjID
	Off, N int
}

type MapV struct{ Obj ObjID }
type ChanV struct{ Obj ObjID }

type IfaceV struct {
	T types.Type // nil = nil interface
	V Value
}

type FuncV struct {
	Fn      *ssa.Function
	Env     []Value
	Builtin string // non-empty for engine-provided functions
}

// StrV is a concrete string or a symbolic string term.
type StrV struct {
	C   string
	Sym *StrSym
}

// StrSym: Atom (opaque string different from every literal), or Fmt(kind,args)
// (injective uninterpreted formatting).
type StrSym struct {
	Kind string // "atom:<name>" or "fmt:<format>" etc.
	Args []Value
	ID   int
}

// FloatV is a concrete float64 or a symbolic float described by an exact
// rational form: (Num * 2^Exp2) where Num is a signed integer term -- or an
// opaque SecondsOf(d).
type FloatV struct {
	C   float64
	Sym *FloatSym
}

type FloatSym struct {
	Kind string // "int" (exact integer value in Int, signed 64 or wider), "secs" (Duration.Seconds of Int), "scaled"
	Int  *Term  // signed integer term
	// for "scaled": value = float64(Int) * Mul / Div  (Mul, Div concrete float64 constants applied in order)
	Ops []FloatOp
}

type FloatOp struct {
	Op string // "mul", "div", "round"
	C  float64
}

func pathAppend(p string, i int) string {
	return p + string([]byte{byte(i >> 8), byte(i)})
}

func pathElems(p string) []int {
	out := make([]int, 0, len(p)/2)
	for i := 0; i+1 < len(p); i += 2 {
		out = append(out, int(p[i])<<8|int(p[i+1]))
	}
	return out
}

// MapObj / ChanObj are heap-resident, immutable (replaced on update).
type MapEntry struct {
	K, V Value
}
type MapObj struct {
	Entries []MapEntry
	KT, VT  types.Type
}

type ChanObj struct {
	Buf    []Value
	Cap    int
	Closed bool
	Elem   types.Type
	Timer  int // index+1 into state timers if this is a timer channel
}

// ---------- type helpers ----------

func under(t types.Type) types.Type { return t.Underlying() }

func intWidth(t types.Type) (w int, signed bool, ok bool) {
	b, isB := under(t).(*types.Basic)
	if !isB {
		return 0, false, false
	}
	switch b.Kind() {
	case types.Bool, types.UntypedBool:
		return 0, false, true
	case types.Int8:
		return 8, true, true
	case types.Int16:
		return 16, true, true
	case types.Int32, types.UntypedRune:
		return 32, true, true
	case types.Int64, types.Int, types.UntypedInt:
		return 64, true, true
	case types.Uint8:
		return 8, false, true
	case types.Uint16:
		return 16, false, true
	case types.Uint32:
		return 32, false, true
	case types.Uint64, types.Uint, types.Uintptr:
		return 64, false, true
	}
	return 0, false, false
}

func isFloat(t types.Type) bool {
	b, ok := under(t).(*types.Basic)
	return ok && b.Info()&types.IsFloat != 0
}

func isString(t types.Type) bool {
	b, ok := under(t).(*types.Basic)
	return ok && b.Info()&types.IsString != 0
}

func zeroValue(t types.Type) Value {
	switch u := under(t).(type) {
	case *types.Basic:
		if w, _, ok := intWidth(t); ok {
			if w == 0 {
				return False
			}
			return BV(w, 0)
		}
		if u.Info()&types.IsFloat != 0 {
			return FloatV{}
		}
		if u.Info()&types.IsString != 0 {
			return StrV{}
		}
		if u.Kind() == types.UnsafePointer {
			return PtrV{}
		}
		if u.Kind() == types.UntypedNil {
			return PtrV{}
		}
		panic(unsupported("zero of basic " + u.String()))
	case *types.Struct:
		s := make(StructV, u.NumFields())
		for i := range s {
			s[i] = zeroValue(u.Field(i).Type())
		}
		return s
	case *types.Array:
		n := int(u.Len())
		a := make(ArrayV, n)
		if n > 0 {
			z := zeroValue(u.Elem())
			for i := range a {
				a[i] = z
			}
		}
		return a
	case *types.Pointer:
		return PtrV{}
	case *types.Slice:
		return SliceV{Elem: u.Elem()}
	case *types.Map:
		return MapV{}
	case *types.Chan:
		return ChanV{}
	case *types.Interface:
		return IfaceV{}
	case *types.Signature:
		return (*FuncV)(nil)
	case *types.Tuple:
		tv := make(TupleV, u.Len())
		for i := range tv {
			tv[i] = zeroValue(u.At(i).Type())
		}
		return tv
	}
	panic(unsupported("zero of " + t.String()))
}

type unsupportedErr struct{ msg string }

func unsupported(msg string) unsupportedErr { return unsupportedErr{msg} }
func (u unsupportedErr) Error() string      { return "unsupported: " + u.msg }

// ---------- rendering (for ghost logs, evidence) ----------

func showValue(v Value) string {
	switch x := v.(type) {
	case nil:
		return "<nil>"
	case *Term:
		if x.IsConst() {
			if x.W == 0 {
				return fmt.Sprint(x.Val == 1)
			}
			if x.Big != nil {
				return x.Big.String()
			}
			return fmt.Sprint(x.Val)
		}
		return x.String()
	case StrV:
		if x.Sym == nil {
			return fmt.Sprintf("%q", x.C)
		}
		return x.Sym.String()
	case FloatV:
		if x.Sym == nil {
			return fmt.Sprint(x.C)
		}
		return "float(" + x.Sym.Kind + " " + x.Sym.Int.String() + ")"
	case StructV:
		parts := make([]string, len(x))
		for i, f := range x {
			parts[i] = showValue(f)
		}
		return "{" + strings.Join(parts, " ") + "}"
	case ArrayV:
		parts := make([]string, len(x))
		for i, f := range x {
			parts[i] = showValue(f)
		}
		return "[" + strings.Join(parts, " ") + "]"
	case TupleV:
		parts := make([]string, len(x))
		for i, f := range x {
			parts[i] = showValue(f)
		}
		return "(" + strings.Join(parts, ", ") + ")"
	case PtrV:
		if x.Obj == 0 {
			return "nil"
		}
		return fmt.Sprintf("&o%d%v", x.Obj, pathElems(x.Path))
	case SliceV:
		if x.Obj == 0 {
			return "[]nil"
		}
		return fmt.Sprintf("o%d[%d:%d:%d]", x.Obj, x.Off, x.Off+x.Len, x.Off+x.Cap)
	case MapV:
		return fmt.Sprintf("map@o%d", x.Obj)
	case ChanV:
		return fmt.Sprintf("chan@o%d", x.Obj)
	case IfaceV:
		if x.T == nil {
			return "nil-iface"
		}
		return fmt.Sprintf("iface(%s %s)", x.T, showValue(x.V))
	case *FuncV:
		if x == nil {
			return "nil-func"
		}
		if x.Builtin != "" {
			return "builtin " + x.Builtin
		}
		return "func " + x.Fn.String()
	}
	return fmt.Sprintf("%T", v)
}

func (s *StrSym) String() string {
	parts := make([]string, len(s.Args))
	for i, a := range s.Args {
		parts[i] = showValue(a)
	}
	return s.Kind + "(" + strings.Join(parts, ",") + ")"
}

var _ = math.Float64bits
