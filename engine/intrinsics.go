package main

import (
	"sync/atomic"
	"fmt"
	"go/types"
	"strings"

	"golang.org/x/tools/go/ssa"
)

type intrinsic func(e *Exec, s *State, f *Frame, fn *ssa.Function, args []Value, result ssa.Value) (stepResult, bool)

func (e *Exec) ret(f *Frame, result ssa.Value, v Value) (stepResult, bool) {
	if result != nil {
		e.set(f, result, v)
	}
	f.ip++
	return stepResult{kind: kCont}, true
}

func (e *Exec) intrinsicFor(fn *ssa.Function) intrinsic {
	name := fn.String()
	if fn.Pkg == e.hpkg || (fn.Pkg != nil && strings.HasPrefix(fn.Name(), "zz")) {
		if h, ok := zzIntrinsics[baseName(fn.Name())]; ok {
			return h
		}
	}
	if h, ok := intrinsics[name]; ok {
		return h
	}
	if e.h != nil && e.h.Spec.MonoTime {
		if h, ok := monoTimeIntrinsics[name]; ok {
			return h
		}
	}
	if strings.HasPrefix(name, "unique.Make[") {
		return inUniqueMake
	}
	if strings.HasPrefix(name, "sync/atomic.") {
		return inAtomic
	}
	if strings.HasPrefix(name, "slices.overlaps[") {
		return inSlicesOverlaps
	}
	if strings.HasPrefix(name, "(*sync/atomic.Pointer[") {
		return inAtomicPointer
	}
	return nil
}

// baseName strips generic instantiation suffixes: zzIte[int] -> zzIte
func baseName(n string) string {
	if i := strings.Index(n, "["); i >= 0 {
		return n[:i]
	}
	return n
}

var intrinsics map[string]intrinsic
var zzIntrinsics map[string]intrinsic

func init() {
	intrinsics = map[string]intrinsic{
		"time.Now":                      inTimeNow,
		"time.runtimeNano":              inZero64,
		"time.now":                      nil,
		"fmt.Sprintf":                   inSprintf,
		"fmt.Sprint":                    inSprint,
		"fmt.Sprintln":                  inSprint,
		"fmt.Errorf":                    inErrorf,
		"(*log.Logger).Printf":          inLogf,
		"(*log.Logger).Println":         inLogf,
		"(*log.Logger).Print":           inLogf,
		"(*log.Logger).Fatalf":          inFatal,
		"(*log.Logger).Fatal":           inFatal,
		"log.Printf":                    inLogf,
		"log.Println":                   inLogf,
		"(*sync.Mutex).Lock":            inMutexLock,
		"(*sync.Mutex).Unlock":          inMutexUnlock,
		"(*sync.Mutex).TryLock":         inMutexTryLock,
		"(*sync.RWMutex).Lock":          inRWLock,
		"(*sync.RWMutex).Unlock":        inRWUnlock,
		"(*sync.RWMutex).RLock":         inRWRLock,
		"(*sync.RWMutex).RUnlock":       inRWRUnlock,
		"(*sync.WaitGroup).Add":         inWGAdd,
		"(*sync.WaitGroup).Wait":        inWGWait,
		"(*sync/atomic.Value).Load":     inAVLoad,
		"(*sync/atomic.Value).Store":    inAVStore,
		"runtime.Gosched":               inNop,
		"runtime.KeepAlive":             inNop,
		"os/signal.Stop":                inNop,
		"os/signal.Notify":              inNop,
		"internal/race.Acquire":         inNop,
		"internal/race.Release":         inNop,
		"internal/race.ReleaseMerge":    inNop,
		"internal/race.Disable":         inNop,
		"internal/race.Enable":          inNop,
		"internal/race.Read":            inNop,
		"internal/race.Write":           inNop,
		"internal/race.ReadRange":       inNop,
		"internal/race.WriteRange":      inNop,
		"(time.Duration).String":        inStringer("FmtDuration"),
		"(net/netip.Addr).String":       inStringer("FmtAddr"),
		"(net/netip.Prefix).String":     inStringer("FmtPrefix"),
		"(net/netip.AddrPort).String":   inStringer("FmtAddrPort"),
		"(net.HardwareAddr).String":     inStringer("FmtMAC"),
		"(time.Time).String":            inStringerAlways("FmtTime"),
		"strconv.Itoa":                  inStringer("FmtInt"),
		"strconv.FormatInt":             inStringer("FmtInt64"),
		"strconv.FormatUint":            inStringer("FmtUint64"),
		"strconv.FormatFloat":           inStringerAlways("FmtFloat"),
		"strconv.Quote":                 inStringer("FmtQuote"),
		"strings.Join":                  inStringsJoin,
		"math.Round":                    inMathRound,
		"math.Float64bits":              nil,
		"(time.Duration).Seconds":       inDurSeconds,
		"(time.Duration).Minutes":       nil,
		"(*strings.Builder).copyCheck":  inNop,
		"(*strings.Builder).String":     inBuilderString,
		"internal/bytealg.IndexByteString": inIndexByteString,
		"internal/bytealg.CountString":     inCountString,
		"internal/bytealg.MakeNoZero":      inMakeNoZero,
		"internal/bytealg.IndexByte":       inIndexByteSlice,
		"bytes.IndexByte":                  inIndexByteSlice,
		"internal/bytealg.IndexString":     inIndexString,
		"strings.Index":                    inIndexString,
		"strings.Count":                    inStringsCount,
		"strings.Contains":                 inStringsContains,
		"strings.HasPrefix":                nil,
		"internal/stringslite.IndexByte":   inIndexByteString,
		"strings.IndexByte":                inIndexByteString,
		"internal/bytealg.Equal":           nil,
		"bytes.Equal":                      inBytesEqual,
		"reflect.TypeOf":                   inReflectTypeOf,
	}
	for k, v := range intrinsics {
		if v == nil {
			delete(intrinsics, k)
		}
	}
	zzIntrinsics = map[string]intrinsic{
		"zzNondetBool":     inNondet(0, false),
		"zzNondetInt64":    inNondet(64, true),
		"zzNondetInt":      inNondet(64, true),
		"zzNondetInt32":    inNondet(32, true),
		"zzNondetUint8":    inNondet(8, false),
		"zzNondetUint16":   inNondet(16, false),
		"zzNondetUint32":   inNondet(32, false),
		"zzNondetUint64":   inNondet(64, false),
		"zzNondetDuration": inNondet(64, true),
		"zzNondetChoice":   inNondetChoice,
		"zzNondetAddr6":    inNondetAddr6,
		"zzNondetAddr4":    inNondetAddr4,
		"zzNondetInstant":  inNondetInstant,
		"zzAtom":           inAtom,
		"zzAssume":         inAssume,
		"zzAssert":         inAssert,
		"zzAnd":            inBoolOp("and"),
		"zzOr":             inBoolOp("or"),
		"zzImplies":        inBoolOp("implies"),
		"zzNot":            inBoolOp("not"),
		"zzIte":            inIte,
		"zzLog":            inGhostLog,
		"zzKnownClass":     inKnownClass,
		"zzUnreachable":    inUnreachable,
		"zzCover":          inCover,
		"zzYield":          inYield,
		"zzLogCount":       inLogCount,
		"zzGuardedBy":      inGuardedBy,
		"zzGuardedIn":      inGuardedIn,
		"zzWaitIdle":       inWaitIdle,
		"zzStrEq":          inStrEq,
		"zzDeepEqual":      inDeepEqual,
		"zzComparable":     inComparable,
		"zzAsAssign":       inAsAssign,
		"zzIsNilFunc":      nil,
		"zzSecondsOfInt":   nil,
		"zzTypeName":       inTypeName,
		"zzGoroutines":     inGoroutines,
		"zzConcrete":       inConcrete,
		"zzParam":          inParam,
	}
	for k, v := range zzIntrinsics {
		if v == nil {
			delete(zzIntrinsics, k)
		}
	}
}

func inNop(e *Exec, s *State, f *Frame, fn *ssa.Function, args []Value, result ssa.Value) (stepResult, bool) {
	var v Value
	if result != nil {
		if tp, ok := result.Type().(*types.Tuple); !ok || tp.Len() > 0 {
			v = zeroValue(result.Type())
		} else {
			v = TupleV{}
		}
	}
	return e.ret(f, result, v)
}

func inZero64(e *Exec, s *State, f *Frame, fn *ssa.Function, args []Value, result ssa.Value) (stepResult, bool) {
	return e.ret(f, result, BV(64, 0))
}

func strArg(v Value) string {
	sv, ok := v.(StrV)
	if !ok || sv.Sym != nil {
		panic(unsupported("expected concrete string argument"))
	}
	return sv.C
}

// ---------- nondeterministic inputs ----------

func (s *State) freshName(name string) string {
	n := s.nondetN[name]
	s.nondetN[name] = n + 1
	if n == 0 {
		return name
	}
	return fmt.Sprintf("%s#%d", name, n)
}

func inNondet(w int, signed bool) intrinsic {
	return func(e *Exec, s *State, f *Frame, fn *ssa.Function, args []Value, result ssa.Value) (stepResult, bool) {
		name := s.freshName(strArg(args[0]))
		v := Var(name, w)
		kind := fmt.Sprintf("u%d", w)
		if signed {
			kind = fmt.Sprintf("i%d", w)
		}
		if w == 0 {
			kind = "bool"
		}
		s.nondet = append(s.nondet, NondetRec{Name: name, Kind: kind, Vars: []*Term{v}})
		return e.ret(f, result, v)
	}
}

func inNondetChoice(e *Exec, s *State, f *Frame, fn *ssa.Function, args []Value, result ssa.Value) (stepResult, bool) {
	name := s.freshName(strArg(args[0]))
	n := e.concreteInt(s, args[1], "zzNondetChoice n")
	if n <= 0 {
		panic(pathEnd{"assume-false", "choice over empty set"})
	}
	var forks []*State
	for i := 0; i < n; i++ {
		st := s
		if i < n-1 {
			st = s.clone()
			e.h.States++
		}
		st.nondet = append(st.nondet, NondetRec{Name: name, Kind: "choice", Choice: i, HasChoice: true})
		ff := st.g().top()
		if result != nil {
			e.set(ff, result, BV(64, uint64(i)))
		}
		ff.ip++
		forks = append(forks, st)
	}
	if n == 1 {
		return stepResult{kind: kCont}, true
	}
	return stepResult{kind: kForks, states: forks}, true
}

func (e *Exec) netipGlobal(s *State, name string) Value {
	p := e.prog.ImportedPackage("net/netip")
	if p == nil {
		panic(unsupported("net/netip not loaded"))
	}
	g := p.Var(name)
	return s.load(PtrV{Obj: e.globalObj(s, g)})
}

func inNondetAddr6(e *Exec, s *State, f *Frame, fn *ssa.Function, args []Value, result ssa.Value) (stepResult, bool) {
	name := s.freshName(strArg(args[0]))
	hi, lo := Var(name+".hi", 64), Var(name+".lo", 64)
	s.nondet = append(s.nondet, NondetRec{Name: name, Kind: "addr6", Vars: []*Term{hi, lo}})
	z := e.netipGlobal(s, "z6noz")
	return e.ret(f, result, StructV{StructV{hi, lo}, z})
}

func inNondetAddr4(e *Exec, s *State, f *Frame, fn *ssa.Function, args []Value, result ssa.Value) (stepResult, bool) {
	name := s.freshName(strArg(args[0]))
	v := Var(name+".v4", 32)
	s.nondet = append(s.nondet, NondetRec{Name: name, Kind: "addr4", Vars: []*Term{v}})
	z := e.netipGlobal(s, "z4")
	lo := BinBV(OpBOr, BV(64, 0xffff00000000), Zext(v, 64))
	return e.ret(f, result, StructV{StructV{BV(64, 0), lo}, z})
}

func (e *Exec) timeLocal(s *State) Value {
	p := e.prog.ImportedPackage("time")
	if p == nil {
		return PtrV{}
	}
	g := p.Var("localLoc")
	return PtrV{Obj: e.globalObj(s, g)}
}

// zzNondetInstant(name, mono): an arbitrary time.Time (year ~1970..2150).
func inNondetInstant(e *Exec, s *State, f *Frame, fn *ssa.Function, args []Value, result ssa.Value) (stepResult, bool) {
	name := s.freshName(strArg(args[0]))
	mono := args[1].(*Term)
	if !mono.IsConst() {
		panic(unsupported("zzNondetInstant: mono must be concrete"))
	}
	tv := e.freshInstant(s, name, mono.IsTrue(), nil)
	return e.ret(f, result, tv)
}

const (
	unixToInternal int64 = (1969*365 + 1969/4 - 1969/100 + 1969/400) * 86400
	wallToInternal int64 = (1884*365 + 1884/4 - 1884/100 + 1884/400) * 86400
)

func (e *Exec) freshInstant(s *State, name string, mono bool, after *Term) Value {
	nsec := Var(name+".nsec", 64)
	s.assume(Cmp(OpUlt, nsec, BV(64, 1000000000)))
	if mono {
		sec := Var(name+".wsec", 64) // seconds since 1885
		m := Var(name+".mono", 64)
		s.assume(Cmp(OpUlt, sec, BV(64, 1<<33)))
		// after 1970 so Unix() is non-negative (documented domain of the daemon)
		s.assume(Cmp(OpUle, BV(64, uint64(unixToInternal-wallToInternal)), sec))
		s.assume(Cmp(OpSle, BV(64, 1), m))
		s.assume(Cmp(OpSlt, m, BV(64, 1<<61)))
		if after != nil {
			s.assume(Cmp(OpSle, after, m))
		}
		s.nondet = append(s.nondet, NondetRec{Name: name, Kind: "instant-mono", Vars: []*Term{sec, nsec, m}})
		wall := BinBV(OpBOr, BV(64, 1<<63), BinBV(OpBOr, BinBV(OpShl, sec, BV(64, 30)), nsec))
		return StructV{wall, m, e.timeLocal(s)}
	}
	// wall-only: ext = seconds since year 1, wall = nsec
	ext := Var(name+".sec", 64)
	s.assume(Cmp(OpSle, BV(64, uint64(unixToInternal)), ext))
	s.assume(Cmp(OpSlt, ext, BV(64, uint64(unixToInternal+(1<<33)))))
	s.nondet = append(s.nondet, NondetRec{Name: name, Kind: "instant-wall", Vars: []*Term{ext, nsec}})
	return StructV{nsec, ext, e.timeLocal(s)}
}

func inTimeNow(e *Exec, s *State, f *Frame, fn *ssa.Function, args []Value, result ssa.Value) (stepResult, bool) {
	s.nowSeq++
	name := s.freshName("now")
	tv := e.freshInstant(s, name, true, s.clock).(StructV)
	s.clock = tv[1].(*Term)
	return e.ret(f, result, tv)
}

func inAtom(e *Exec, s *State, f *Frame, fn *ssa.Function, args []Value, result ssa.Value) (stepResult, bool) {
	name := strArg(args[0])
	return e.ret(f, result, StrV{Sym: &StrSym{Kind: "atom:" + name}})
}

// ---------- assume / assert ----------

func inAssume(e *Exec, s *State, f *Frame, fn *ssa.Function, args []Value, result ssa.Value) (stepResult, bool) {
	c := args[0].(*Term)
	if c.IsFalse() {
		panic(pathEnd{"assume-false", ""})
	}
	s.assume(c)
	return e.ret(f, result, TupleV{})
}

func inAssert(e *Exec, s *State, f *Frame, fn *ssa.Function, args []Value, result ssa.Value) (stepResult, bool) {
	c := args[0].(*Term)
	id := strArg(args[1])
	for _, o := range e.h.Spec.NotOf {
		if o == id {
			return e.ret(f, result, TupleV{})
		}
	}
	e.h.obligation(e, s, c, id, false)
	return e.ret(f, result, TupleV{})
}

func inUnreachable(e *Exec, s *State, f *Frame, fn *ssa.Function, args []Value, result ssa.Value) (stepResult, bool) {
	id := strArg(args[0])
	e.h.obligation(e, s, False, id, false)
	panic(pathEnd{"assume-false", "after zzUnreachable"})
}

func inCover(e *Exec, s *State, f *Frame, fn *ssa.Function, args []Value, result ssa.Value) (stepResult, bool) {
	id := strArg(args[0])
	e.h.cover(e, s, id)
	return e.ret(f, result, TupleV{})
}

func inBoolOp(op string) intrinsic {
	return func(e *Exec, s *State, f *Frame, fn *ssa.Function, args []Value, result ssa.Value) (stepResult, bool) {
		a := args[0].(*Term)
		var r *Term
		switch op {
		case "and":
			r = And(a, args[1].(*Term))
		case "or":
			r = Or(a, args[1].(*Term))
		case "implies":
			r = Implies(a, args[1].(*Term))
		case "not":
			r = Not(a)
		}
		return e.ret(f, result, r)
	}
}

func inIte(e *Exec, s *State, f *Frame, fn *ssa.Function, args []Value, result ssa.Value) (stepResult, bool) {
	c := args[0].(*Term)
	if c.IsTrue() {
		return e.ret(f, result, args[1])
	}
	if c.IsFalse() {
		return e.ret(f, result, args[2])
	}
	m, ok := mergeValue(c, args[1], args[2])
	if !ok {
		panic(unsupported("zzIte over unmergeable values"))
	}
	return e.ret(f, result, m)
}

func inGhostLog(e *Exec, s *State, f *Frame, fn *ssa.Function, args []Value, result ssa.Value) (stepResult, bool) {
	kind := strArg(args[0])
	var rest []Value
	if len(args) > 1 {
		if sl, ok := args[1].(SliceV); ok {
			rest = append(rest, s.sliceElems(sl)...)
		}
	}
	s.ghost = append(s.ghost, GhostEntry{Kind: kind, Args: rest})
	return e.ret(f, result, TupleV{})
}

// zzLogCount(substr): how many log lines written so far on this path have a
// format string containing substr (natively: lines of the captured logger).
func inLogCount(e *Exec, s *State, f *Frame, fn *ssa.Function, args []Value, result ssa.Value) (stepResult, bool) {
	sub := strArg(args[0])
	n := 0
	for _, ge := range s.ghost {
		if ge.Kind != "log" || len(ge.Args) == 0 {
			continue
		}
		fs, ok := ge.Args[0].(StrV)
		if !ok || fs.Sym != nil {
			panic(unsupported("zzLogCount over a symbolic log format"))
		}
		if strings.Contains(fs.C, sub) {
			n++
		}
	}
	return e.ret(f, result, BV(64, uint64(n)))
}

func inKnownClass(e *Exec, s *State, f *Frame, fn *ssa.Function, args []Value, result ssa.Value) (stepResult, bool) {
	name := strArg(args[0])
	c := args[1].(*Term)
	s.known[name] = c
	return e.ret(f, result, c)
}

func inYield(e *Exec, s *State, f *Frame, fn *ssa.Function, args []Value, result ssa.Value) (stepResult, bool) {
	// a visible scheduling point: mark runnable but give the scheduler a chance
	f.ip++
	if result != nil {
		e.set(f, result, TupleV{})
	}
	if !e.explore {
		return stepResult{kind: kCont}, true
	}
	return stepResult{kind: kBlock}, true // status stays runnable: scheduler may pick anyone
}

func inWaitIdle(e *Exec, s *State, f *Frame, fn *ssa.Function, args []Value, result ssa.Value) (stepResult, bool) {
	g := s.g()
	if result != nil {
		e.set(f, result, TupleV{})
	}
	g.idleWait = true
	g.status = GBlocked
	return stepResult{kind: kBlock}, true
}

func inStrEq(e *Exec, s *State, f *Frame, fn *ssa.Function, args []Value, result ssa.Value) (stepResult, bool) {
	return e.ret(f, result, strEq(args[0].(StrV), args[1].(StrV)))
}

func inConcrete(e *Exec, s *State, f *Frame, fn *ssa.Function, args []Value, result ssa.Value) (stepResult, bool) {
	return e.ret(f, result, Bool(isConcrete(args[0])))
}

func inTypeName(e *Exec, s *State, f *Frame, fn *ssa.Function, args []Value, result ssa.Value) (stepResult, bool) {
	iv := args[0].(IfaceV)
	if iv.T == nil {
		return e.ret(f, result, StrV{C: "<nil>"})
	}
	return e.ret(f, result, StrV{C: types.TypeString(iv.T, func(p *types.Package) string { return p.Name() })})
}

func inGoroutines(e *Exec, s *State, f *Frame, fn *ssa.Function, args []Value, result ssa.Value) (stepResult, bool) {
	n := 0
	for i, g := range s.gs {
		if i != s.cur && g.status != GDone {
			n++
		}
	}
	return e.ret(f, result, BV(64, uint64(n)))
}

// ---------- deep equality ----------

func inDeepEqual(e *Exec, s *State, f *Frame, fn *ssa.Function, args []Value, result ssa.Value) (stepResult, bool) {
	return e.ret(f, result, e.deepEq(s, args[0], args[1], 0))
}

func (e *Exec) deepEq(s *State, a, b Value, depth int) *Term {
	if depth > 30 {
		panic(unsupported("deepEq recursion"))
	}
	switch x := a.(type) {
	case *Term:
		y, ok := b.(*Term)
		if !ok || x.W != y.W {
			return False
		}
		return Eq(x, y)
	case StrV:
		y, ok := b.(StrV)
		if !ok {
			return False
		}
		return strEq(x, y)
	case FloatV:
		return valueEq(a, b)
	case StructV:
		y, ok := b.(StructV)
		if !ok || len(x) != len(y) {
			return False
		}
		var cs []*Term
		for i := range x {
			cs = append(cs, e.deepEq(s, x[i], y[i], depth+1))
		}
		return And(cs...)
	case ArrayV:
		y, ok := b.(ArrayV)
		if !ok || len(x) != len(y) {
			return False
		}
		var cs []*Term
		for i := range x {
			cs = append(cs, e.deepEq(s, x[i], y[i], depth+1))
		}
		return And(cs...)
	case PtrV:
		y, ok := b.(PtrV)
		if !ok {
			return False
		}
		if x.Obj == 0 || y.Obj == 0 {
			return Bool(x.Obj == 0 && y.Obj == 0)
		}
		if x == y {
			return True
		}
		return e.deepEq(s, s.load(x), s.load(y), depth+1)
	case SliceV:
		y, ok := b.(SliceV)
		if !ok {
			return False
		}
		if (x.Obj == 0) != (y.Obj == 0) {
			// reflect.DeepEqual distinguishes nil and empty; so do we
			return False
		}
		if x.Len != y.Len {
			return False
		}
		xe, ye := s.sliceElems(x), s.sliceElems(y)
		var cs []*Term
		for i := range xe {
			cs = append(cs, e.deepEq(s, xe[i], ye[i], depth+1))
		}
		return And(cs...)
	case IfaceV:
		y, ok := b.(IfaceV)
		if !ok {
			return False
		}
		if x.T == nil || y.T == nil {
			return Bool(x.T == nil && y.T == nil)
		}
		if !types.Identical(x.T, y.T) {
			return False
		}
		return e.deepEq(s, x.V, y.V, depth+1)
	case MapV:
		y, ok := b.(MapV)
		if !ok {
			return False
		}
		if x.Obj == 0 || y.Obj == 0 {
			return Bool(x.Obj == y.Obj)
		}
		mx, my := s.heap[x.Obj].(*MapObj), s.heap[y.Obj].(*MapObj)
		if len(mx.Entries) == 0 && len(my.Entries) == 0 {
			return True
		}
		panic(unsupported("deepEq on non-empty maps"))
	case *FuncV:
		y, _ := b.(*FuncV)
		return Bool(x == nil && y == nil)
	case ChanV:
		y, ok := b.(ChanV)
		return Bool(ok && x == y)
	}
	panic(unsupported(fmt.Sprintf("deepEq on %T", a)))
}

func isConcrete(v Value) bool {
	switch x := v.(type) {
	case *Term:
		return x.IsConst()
	case StrV:
		return x.Sym == nil
	case FloatV:
		return x.Sym == nil
	case StructV:
		for _, f := range x {
			if !isConcrete(f) {
				return false
			}
		}
		return true
	case ArrayV:
		for _, f := range x {
			if !isConcrete(f) {
				return false
			}
		}
		return true
	case TupleV:
		for _, f := range x {
			if !isConcrete(f) {
				return false
			}
		}
		return true
	case IfaceV:
		return x.T == nil || isConcrete(x.V)
	case PoisonV:
		return false
	}
	return true
}

func (e *Exec) isConcreteDeep(s *State, v Value, depth int) bool {
	if depth > 8 {
		return true
	}
	switch x := v.(type) {
	case PtrV:
		if x.Obj == 0 {
			return true
		}
		return e.isConcreteDeep(s, s.load(x), depth+1)
	case SliceV:
		for _, el := range s.sliceElems(x) {
			if !e.isConcreteDeep(s, el, depth+1) {
				return false
			}
		}
		return true
	case StructV:
		for _, f := range x {
			if !e.isConcreteDeep(s, f, depth+1) {
				return false
			}
		}
		return true
	case ArrayV:
		for _, f := range x {
			if !e.isConcreteDeep(s, f, depth+1) {
				return false
			}
		}
		return true
	case IfaceV:
		return x.T == nil || e.isConcreteDeep(s, x.V, depth+1)
	}
	return isConcrete(v)
}

// ---------- formatting ----------

func (e *Exec) variadic(s *State, v Value) []Value {
	sl, ok := v.(SliceV)
	if !ok {
		return nil
	}
	return append([]Value(nil), s.sliceElems(sl)...)
}

// snapshotArg turns pointers into the pointed-to value so that Fmt terms
// compare by content (approximation of what formatting would print).
func (e *Exec) fmtArgs(s *State, vs []Value) []Value {
	out := make([]Value, len(vs))
	for i, v := range vs {
		out[i] = e.fmtArg(s, v, 0)
	}
	return out
}

func (e *Exec) fmtArg(s *State, v Value, depth int) Value {
	if depth > 4 {
		return StrV{C: "…"}
	}
	switch x := v.(type) {
	case IfaceV:
		if x.T == nil {
			return StrV{C: "<nil>"}
		}
		return e.fmtArg(s, x.V, depth+1)
	case SliceV:
		el := s.sliceElems(x)
		arr := make(ArrayV, len(el))
		for i := range el {
			arr[i] = e.fmtArg(s, el[i], depth+1)
		}
		return arr
	case StructV:
		out := make(StructV, len(x))
		for i := range x {
			out[i] = e.fmtArg(s, x[i], depth+1)
		}
		return out
	case *FuncV, ChanV, MapV:
		return StrV{C: "?"}
	}
	return v
}

// concreteFmtArg converts a concrete engine value into a host value fmt can print.
func concreteFmtArg(v Value) (interface{}, bool) {
	iv, ok := v.(IfaceV)
	if !ok || iv.T == nil {
		return nil, false
	}
	switch x := iv.V.(type) {
	case StrV:
		if x.Sym == nil {
			if b, ok := under(iv.T).(*types.Basic); ok && b.Info()&types.IsString != 0 {
				return x.C, true
			}
		}
	case *Term:
		if !x.IsConst() {
			return nil, false
		}
		if _, isNamed := iv.T.(*types.Named); isNamed {
			return nil, false // may have a String method
		}
		w, signed, ok := intWidth(iv.T)
		if !ok {
			return nil, false
		}
		if w == 0 {
			return x.Val == 1, true
		}
		if signed {
			return x.Signed(), true
		}
		return x.Val, true
	}
	return nil, false
}

func inSprintf(e *Exec, s *State, f *Frame, fn *ssa.Function, args []Value, result ssa.Value) (stepResult, bool) {
	format := args[0].(StrV)
	vs := e.variadic(s, args[1])
	if format.Sym == nil && len(vs) == 0 && !strings.Contains(format.C, "%") {
		return e.ret(f, result, format)
	}
	if format.Sym == nil && format.C == "%s" && len(vs) == 1 {
		if iv, ok := vs[0].(IfaceV); ok {
			if sv, ok := iv.V.(StrV); ok {
				return e.ret(f, result, sv)
			}
		}
	}
	if format.Sym == nil && !strings.Contains(format.C, "%w") && !strings.Contains(format.C, "%T") && !strings.Contains(format.C, "%p") {
		host := make([]interface{}, len(vs))
		all := true
		for i, v := range vs {
			hv, ok := concreteFmtArg(v)
			if !ok {
				all = false
				break
			}
			host[i] = hv
		}
		if all {
			return e.ret(f, result, StrV{C: fmt.Sprintf(format.C, host...)})
		}
	}
	k := "fmt:"
	if format.Sym == nil {
		k += format.C
		return e.ret(f, result, StrV{Sym: &StrSym{Kind: k, Args: e.fmtArgs(s, vs)}})
	}
	return e.ret(f, result, StrV{Sym: &StrSym{Kind: "fmt:?", Args: append([]Value{format}, e.fmtArgs(s, vs)...)}})
}

func inSprint(e *Exec, s *State, f *Frame, fn *ssa.Function, args []Value, result ssa.Value) (stepResult, bool) {
	vs := e.variadic(s, args[0])
	return e.ret(f, result, StrV{Sym: &StrSym{Kind: "sprint", Args: e.fmtArgs(s, vs)}})
}

// fmt.Errorf: builds a *zzFmtError{msg, wrapped} (type defined in the zz API file).
func inErrorf(e *Exec, s *State, f *Frame, fn *ssa.Function, args []Value, result ssa.Value) (stepResult, bool) {
	format := args[0].(StrV)
	vs := e.variadic(s, args[1])
	var wrapped Value = IfaceV{}
	if format.Sym == nil {
		// find the operand of %w
		idx := 0
		fs := format.C
		for i := 0; i < len(fs); i++ {
			if fs[i] != '%' {
				continue
			}
			i++
			for i < len(fs) && strings.ContainsRune("+-# 0123456789.", rune(fs[i])) {
				i++
			}
			if i >= len(fs) {
				break
			}
			if fs[i] == '%' {
				continue
			}
			if fs[i] == 'w' && idx < len(vs) {
				if iv, ok := vs[idx].(IfaceV); ok && iv.T != nil {
					wrapped = iv
				}
			}
			idx++
		}
	}
	msg := StrV{Sym: &StrSym{Kind: "fmt:" + format.C, Args: e.fmtArgs(s, vs)}}
	if format.Sym == nil && len(vs) == 0 {
		msg = format
	}
	tn := e.hpkg.Type("zzFmtError")
	if tn == nil {
		panic(unsupported("zzFmtError type missing from harness package"))
	}
	id := s.alloc(StructV{msg, wrapped})
	return e.ret(f, result, IfaceV{T: types.NewPointer(tn.Type()), V: PtrV{Obj: id}})
}

func inLogf(e *Exec, s *State, f *Frame, fn *ssa.Function, args []Value, result ssa.Value) (stepResult, bool) {
	// ghost-log the format constant (when there is one) and the arguments
	var entry GhostEntry
	entry.Kind = "log"
	for _, a := range args {
		switch x := a.(type) {
		case StrV:
			entry.Args = append(entry.Args, x)
		case SliceV:
			entry.Args = append(entry.Args, e.fmtArgs(s, s.sliceElems(x))...)
		}
	}
	s.ghost = append(s.ghost, entry)
	return e.ret(f, result, TupleV{})
}

func inFatal(e *Exec, s *State, f *Frame, fn *ssa.Function, args []Value, result ssa.Value) (stepResult, bool) {
	panic(goPanic{"log.Fatal"})
}

func inStringer(kind string) intrinsic {
	return func(e *Exec, s *State, f *Frame, fn *ssa.Function, args []Value, result ssa.Value) (stepResult, bool) {
		all := true
		for _, a := range args {
			if !e.isConcreteDeep(s, a, 0) {
				all = false
			}
		}
		if all && fn.Blocks != nil {
			return stepResult{}, false // run the real body
		}
		return e.ret(f, result, StrV{Sym: &StrSym{Kind: kind, Args: e.fmtArgs(s, args)}})
	}
}

func inStringerAlways(kind string) intrinsic {
	return func(e *Exec, s *State, f *Frame, fn *ssa.Function, args []Value, result ssa.Value) (stepResult, bool) {
		return e.ret(f, result, StrV{Sym: &StrSym{Kind: kind, Args: e.fmtArgs(s, args)}})
	}
}

func inStringsJoin(e *Exec, s *State, f *Frame, fn *ssa.Function, args []Value, result ssa.Value) (stepResult, bool) {
	if e.isConcreteDeep(s, args[0], 0) && isConcrete(args[1]) {
		els := s.sliceElems(args[0].(SliceV))
		parts := make([]string, len(els))
		for i, el := range els {
			parts[i] = el.(StrV).C
		}
		return e.ret(f, result, StrV{C: strings.Join(parts, args[1].(StrV).C)})
	}
	return e.ret(f, result, StrV{Sym: &StrSym{Kind: "join", Args: e.fmtArgs(s, args)}})
}

func inIndexByteString(e *Exec, s *State, f *Frame, fn *ssa.Function, args []Value, result ssa.Value) (stepResult, bool) {
	sv := args[0].(StrV)
	c := args[1].(*Term)
	if sv.Sym != nil || !c.IsConst() {
		panic(unsupported("IndexByte on symbolic input"))
	}
	return e.ret(f, result, BV(64, uint64(int64(strings.IndexByte(sv.C, byte(c.Val))))))
}

func inBytesEqual(e *Exec, s *State, f *Frame, fn *ssa.Function, args []Value, result ssa.Value) (stepResult, bool) {
	a, b := args[0].(SliceV), args[1].(SliceV)
	if a.Len != b.Len {
		return e.ret(f, result, False)
	}
	ae, be := s.sliceElems(a), s.sliceElems(b)
	var cs []*Term
	for i := range ae {
		cs = append(cs, Eq(ae[i].(*Term), be[i].(*Term)))
	}
	return e.ret(f, result, And(cs...))
}

func inReflectTypeOf(e *Exec, s *State, f *Frame, fn *ssa.Function, args []Value, result ssa.Value) (stepResult, bool) {
	iv := args[0].(IfaceV)
	// a comparable token: reflect.Type values are only compared / printed
	name := "<nil>"
	if iv.T != nil {
		name = iv.T.String()
	}
	tn := e.hpkg.Type("zzRType")
	if tn == nil {
		panic(unsupported("zzRType missing from harness package"))
	}
	return e.ret(f, result, IfaceV{T: tn.Type(), V: StructV{StrV{C: name}}})
}

// ---------- errors support ----------

func inComparable(e *Exec, s *State, f *Frame, fn *ssa.Function, args []Value, result ssa.Value) (stepResult, bool) {
	iv := args[0].(IfaceV)
	return e.ret(f, result, Bool(iv.T != nil && types.Comparable(iv.T)))
}

// zzAsAssign(err error, target any) bool: if err's dynamic type matches
// *target's element type, store and report true.
func inAsAssign(e *Exec, s *State, f *Frame, fn *ssa.Function, args []Value, result ssa.Value) (stepResult, bool) {
	err := args[0].(IfaceV)
	tgt := args[1].(IfaceV)
	if tgt.T == nil {
		panic(goPanic{"errors.As: target cannot be nil"})
	}
	pt, ok := under(tgt.T).(*types.Pointer)
	if !ok {
		panic(goPanic{"errors.As: target must be a non-nil pointer"})
	}
	if err.T == nil {
		return e.ret(f, result, False)
	}
	et := pt.Elem()
	if it, isI := under(et).(*types.Interface); isI {
		if types.Implements(err.T, it) {
			s.store(tgt.V.(PtrV), err)
			return e.ret(f, result, True)
		}
		return e.ret(f, result, False)
	}
	if types.Identical(err.T, et) {
		s.store(tgt.V.(PtrV), err.V)
		return e.ret(f, result, True)
	}
	return e.ret(f, result, False)
}

// ---------- unique ----------

func inUniqueMake(e *Exec, s *State, f *Frame, fn *ssa.Function, args []Value, result ssa.Value) (stepResult, bool) {
	if !isConcrete(args[0]) {
		panic(unsupported("unique.Make on symbolic value"))
	}
	key := "unique:" + fn.String() + ":" + showValue(args[0])
	for _, ge := range s.ghost {
		if ge.Kind == key {
			return e.ret(f, result, StructV{ge.Args[0]})
		}
	}
	id := s.alloc(args[0])
	p := PtrV{Obj: id}
	s.ghost = append(s.ghost, GhostEntry{Kind: key, Args: []Value{p}})
	return e.ret(f, result, StructV{p})
}

// ---------- sync ----------

func fieldPathByName(t types.Type, names ...string) string {
	path := ""
	for _, n := range names {
		st, ok := under(t).(*types.Struct)
		if !ok {
			panic("engine: fieldPathByName on non-struct " + t.String())
		}
		found := false
		for i := 0; i < st.NumFields(); i++ {
			if st.Field(i).Name() == n {
				path = pathAppend(path, i)
				t = st.Field(i).Type()
				found = true
				break
			}
		}
		if !found {
			panic("engine: no field " + n + " in " + t.String())
		}
	}
	return path
}

func recvElem(fn *ssa.Function) types.Type {
	return fn.Signature.Recv().Type().(*types.Pointer).Elem()
}

func sub(p PtrV, path string) PtrV { return PtrV{p.Obj, p.Path + path} }

func (e *Exec) loadInt(s *State, p PtrV) int64 {
	t := s.load(p).(*Term)
	if !t.IsConst() {
		panic(unsupported("symbolic synchronisation word"))
	}
	return t.Signed()
}

func inMutexLock(e *Exec, s *State, f *Frame, fn *ssa.Function, args []Value, result ssa.Value) (stepResult, bool) {
	p := sub(e.ptr(args[0]), fieldPathByName(recvElem(fn), "state"))
	if e.loadInt(s, p) == 0 {
		s.store(p, BV(32, 1))
		return e.ret(f, result, TupleV{})
	}
	g := s.g()
	g.waitKind, g.waitPtr = "mutex", p
	return e.block(s), true
}

func inMutexTryLock(e *Exec, s *State, f *Frame, fn *ssa.Function, args []Value, result ssa.Value) (stepResult, bool) {
	p := sub(e.ptr(args[0]), fieldPathByName(recvElem(fn), "state"))
	if e.loadInt(s, p) == 0 {
		s.store(p, BV(32, 1))
		return e.ret(f, result, True)
	}
	return e.ret(f, result, False)
}

func inMutexUnlock(e *Exec, s *State, f *Frame, fn *ssa.Function, args []Value, result ssa.Value) (stepResult, bool) {
	p := sub(e.ptr(args[0]), fieldPathByName(recvElem(fn), "state"))
	if e.loadInt(s, p) == 0 {
		panic(goPanic{"sync: unlock of unlocked mutex"})
	}
	s.store(p, BV(32, 0))
	return e.ret(f, result, TupleV{})
}

func rwPaths(fn *ssa.Function) (w, rc string) {
	t := recvElem(fn)
	return fieldPathByName(t, "w", "state"), fieldPathByName(t, "readerCount", "v")
}

func inRWLock(e *Exec, s *State, f *Frame, fn *ssa.Function, args []Value, result ssa.Value) (stepResult, bool) {
	base := e.ptr(args[0])
	w, rc := rwPaths(fn)
	if e.loadInt(s, sub(base, w)) == 0 && e.loadInt(s, sub(base, rc)) == 0 {
		s.store(sub(base, w), BV(32, 1))
		return e.ret(f, result, TupleV{})
	}
	g := s.g()
	g.waitKind, g.waitPtr, g.waitPtr2 = "wlock", sub(base, w), sub(base, rc)
	return e.block(s), true
}

func inRWUnlock(e *Exec, s *State, f *Frame, fn *ssa.Function, args []Value, result ssa.Value) (stepResult, bool) {
	base := e.ptr(args[0])
	w, _ := rwPaths(fn)
	if e.loadInt(s, sub(base, w)) == 0 {
		panic(goPanic{"sync: Unlock of unlocked RWMutex"})
	}
	s.store(sub(base, w), BV(32, 0))
	return e.ret(f, result, TupleV{})
}

func inRWRLock(e *Exec, s *State, f *Frame, fn *ssa.Function, args []Value, result ssa.Value) (stepResult, bool) {
	base := e.ptr(args[0])
	w, rc := rwPaths(fn)
	if e.loadInt(s, sub(base, w)) == 0 {
		s.store(sub(base, rc), BV(32, uint64(e.loadInt(s, sub(base, rc))+1)))
		return e.ret(f, result, TupleV{})
	}
	g := s.g()
	g.waitKind, g.waitPtr = "mutex", sub(base, w)
	return e.block(s), true
}

func inRWRUnlock(e *Exec, s *State, f *Frame, fn *ssa.Function, args []Value, result ssa.Value) (stepResult, bool) {
	base := e.ptr(args[0])
	_, rc := rwPaths(fn)
	n := e.loadInt(s, sub(base, rc))
	if n <= 0 {
		panic(goPanic{"sync: RUnlock of unlocked RWMutex"})
	}
	s.store(sub(base, rc), BV(32, uint64(n-1)))
	return e.ret(f, result, TupleV{})
}

func inWGAdd(e *Exec, s *State, f *Frame, fn *ssa.Function, args []Value, result ssa.Value) (stepResult, bool) {
	p := sub(e.ptr(args[0]), fieldPathByName(recvElem(fn), "state", "v"))
	d := e.concreteInt(s, args[1], "WaitGroup.Add delta")
	n := e.loadInt(s, p) + int64(d)
	if n < 0 {
		panic(goPanic{"sync: negative WaitGroup counter"})
	}
	s.store(p, BV(64, uint64(n)))
	return e.ret(f, result, TupleV{})
}

func inWGWait(e *Exec, s *State, f *Frame, fn *ssa.Function, args []Value, result ssa.Value) (stepResult, bool) {
	p := sub(e.ptr(args[0]), fieldPathByName(recvElem(fn), "state", "v"))
	if e.loadInt(s, p) == 0 {
		return e.ret(f, result, TupleV{})
	}
	g := s.g()
	g.waitKind, g.waitPtr = "wg", p
	return e.block(s), true
}

func (e *Exec) intrinsicReady(s *State, g *G) bool {
	switch g.waitKind {
	case "mutex", "wg":
		return e.loadInt(s, g.waitPtr) == 0
	case "wlock":
		return e.loadInt(s, g.waitPtr) == 0 && e.loadInt(s, g.waitPtr2) == 0
	}
	return false
}

func inAVLoad(e *Exec, s *State, f *Frame, fn *ssa.Function, args []Value, result ssa.Value) (stepResult, bool) {
	p := sub(e.ptr(args[0]), pathAppend("", 0))
	return e.ret(f, result, s.load(p))
}

func inAVStore(e *Exec, s *State, f *Frame, fn *ssa.Function, args []Value, result ssa.Value) (stepResult, bool) {
	p := sub(e.ptr(args[0]), pathAppend("", 0))
	iv := args[1].(IfaceV)
	if iv.T == nil {
		panic(goPanic{"sync/atomic: store of nil value into Value"})
	}
	s.store(p, iv)
	return e.ret(f, result, TupleV{})
}

func inAtomic(e *Exec, s *State, f *Frame, fn *ssa.Function, args []Value, result ssa.Value) (stepResult, bool) {
	if fn.Blocks != nil {
		return stepResult{}, false // methods with bodies (Int32.Load etc.) run normally
	}
	n := fn.Name()
	switch {
	case strings.HasPrefix(n, "Load"):
		return e.ret(f, result, s.load(e.ptr(args[0])))
	case strings.HasPrefix(n, "Store"):
		s.store(e.ptr(args[0]), args[1])
		return e.ret(f, result, TupleV{})
	case strings.HasPrefix(n, "Add"):
		p := e.ptr(args[0])
		nv := BinBV(OpAdd, s.load(p).(*Term), args[1].(*Term))
		s.store(p, nv)
		return e.ret(f, result, nv)
	case strings.HasPrefix(n, "Swap"):
		p := e.ptr(args[0])
		old := s.load(p)
		s.store(p, args[1])
		return e.ret(f, result, old)
	case strings.HasPrefix(n, "CompareAndSwap"):
		p := e.ptr(args[0])
		cur := s.load(p)
		c := valueEq(cur, args[1])
		if !c.IsConst() {
			panic(unsupported("CompareAndSwap on symbolic value"))
		}
		if c.IsTrue() {
			s.store(p, args[2])
		}
		return e.ret(f, result, c)
	case strings.HasPrefix(n, "And"), strings.HasPrefix(n, "Or"):
		p := e.ptr(args[0])
		old := s.load(p).(*Term)
		op := OpBAnd
		if strings.HasPrefix(n, "Or") {
			op = OpBOr
		}
		s.store(p, BinBV(op, old, args[1].(*Term)))
		return e.ret(f, result, old)
	}
	panic(unsupported("atomic " + n))
}

func inAtomicPointer(e *Exec, s *State, f *Frame, fn *ssa.Function, args []Value, result ssa.Value) (stepResult, bool) {
	// Pointer[T] struct { _ [0]*T; _ noCopy; v unsafe.Pointer }
	t := recvElem(fn)
	p := sub(e.ptr(args[0]), fieldPathByName(t, "v"))
	switch baseName(fn.Name()) {
	case "Load":
		return e.ret(f, result, s.load(p))
	case "Store":
		s.store(p, args[1])
		return e.ret(f, result, TupleV{})
	case "Swap":
		old := s.load(p)
		s.store(p, args[1])
		return e.ret(f, result, old)
	case "CompareAndSwap":
		cur := s.load(p)
		ok := identical(cur, args[1])
		if ok {
			s.store(p, args[2])
		}
		return e.ret(f, result, Bool(ok))
	}
	panic(unsupported("atomic.Pointer." + fn.Name()))
}

// ---------- builtins ----------

func (e *Exec) builtin(s *State, f *Frame, name string, args []Value, result ssa.Value) (Value, stepResult, bool) {
	switch name {
	case "len":
		switch x := args[0].(type) {
		case StrV:
			if x.Sym != nil {
				return e.symStrLen(s, x), stepResult{}, false
			}
			return BV(64, uint64(len(x.C))), stepResult{}, false
		case SliceV:
			return BV(64, uint64(x.Len)), stepResult{}, false
		case MapV:
			if x.Obj == 0 {
				return BV(64, 0), stepResult{}, false
			}
			return BV(64, uint64(len(s.heap[x.Obj].(*MapObj).Entries))), stepResult{}, false
		case ChanV:
			if x.Obj == 0 {
				return BV(64, 0), stepResult{}, false
			}
			return BV(64, uint64(len(s.heap[x.Obj].(*ChanObj).Buf))), stepResult{}, false
		case ArrayV:
			return BV(64, uint64(len(x))), stepResult{}, false
		case PtrV:
			return BV(64, uint64(len(s.load(x).(ArrayV)))), stepResult{}, false
		}
	case "cap":
		switch x := args[0].(type) {
		case SliceV:
			return BV(64, uint64(x.Cap)), stepResult{}, false
		case ChanV:
			if x.Obj == 0 {
				return BV(64, 0), stepResult{}, false
			}
			return BV(64, uint64(s.heap[x.Obj].(*ChanObj).Cap)), stepResult{}, false
		case ArrayV:
			return BV(64, uint64(len(x))), stepResult{}, false
		}
	case "append":
		return e.builtinAppend(s, args), stepResult{}, false
	case "copy":
		dst := args[0].(SliceV)
		var src []Value
		switch x := args[1].(type) {
		case SliceV:
			src = append([]Value(nil), s.sliceElems(x)...)
		case StrV:
			if x.Sym != nil {
				panic(unsupported("copy from symbolic string"))
			}
			for i := 0; i < len(x.C); i++ {
				src = append(src, BV(8, uint64(x.C[i])))
			}
		}
		n := dst.Len
		if len(src) < n {
			n = len(src)
		}
		if n > 0 {
			arr := s.heap[dst.Obj].(ArrayV)
			na := make(ArrayV, len(arr))
			copy(na, arr)
			copy(na[dst.Off:dst.Off+n], src[:n])
			s.heap[dst.Obj] = na
		}
		return BV(64, uint64(n)), stepResult{}, false
	case "delete":
		mv := args[0].(MapV)
		if mv.Obj == 0 {
			return TupleV{}, stepResult{}, false
		}
		m := s.heap[mv.Obj].(*MapObj)
		nm := &MapObj{KT: m.KT, VT: m.VT}
		// the keys of a map are pairwise distinct on this path: when the key is
		// syntactically one of them (the delete-while-ranging idiom) the other
		// entries need not be compared
		hit := -1
		for i, en := range m.Entries {
			if valueEq(args[1], en.K).IsTrue() {
				hit = i
				break
			}
		}
		for i, en := range m.Entries {
			if i == hit {
				continue
			}
			if hit < 0 {
				c := valueEq(args[1], en.K)
				if c.IsTrue() {
					continue
				}
				if !c.IsFalse() {
					// decided by the path condition, or not supported
					if !e.feasible(s, c) {
						nm.Entries = append(nm.Entries, en)
						continue
					}
					if !e.feasible(s, Not(c)) {
						continue
					}
					panic(unsupported("delete with symbolic key"))
				}
			}
			nm.Entries = append(nm.Entries, en)
		}
		s.heap[mv.Obj] = nm
		return TupleV{}, stepResult{}, false
	case "close":
		e.closeChan(s, args[0])
		if e.explore && !e.initMode {
			// closing a channel wakes waiters: a visible scheduling point
			if result != nil {
				e.set(f, result, TupleV{})
			}
			f.ip++
			return TupleV{}, stepResult{kind: kBlock}, true
		}
		return TupleV{}, stepResult{}, false
	case "print", "println":
		return TupleV{}, stepResult{}, false
	case "recover":
		return IfaceV{}, stepResult{}, false
	case "min", "max":
		acc := args[0]
		for _, a := range args[1:] {
			x, y := acc.(*Term), a.(*Term)
			_, signed, _ := intWidth(result.Type())
			op := OpUlt
			if signed {
				op = OpSlt
			}
			if name == "min" {
				acc = Ite(Cmp(op, y, x), y, x)
			} else {
				acc = Ite(Cmp(op, x, y), y, x)
			}
		}
		return acc, stepResult{}, false
	case "clear":
		switch x := args[0].(type) {
		case MapV:
			if x.Obj != 0 {
				m := s.heap[x.Obj].(*MapObj)
				s.heap[x.Obj] = &MapObj{KT: m.KT, VT: m.VT}
			}
			return TupleV{}, stepResult{}, false
		case SliceV:
			if x.Len > 0 {
				arr := s.heap[x.Obj].(ArrayV)
				na := make(ArrayV, len(arr))
				copy(na, arr)
				z := zeroValue(x.Elem)
				for i := 0; i < x.Len; i++ {
					na[x.Off+i] = z
				}
				s.heap[x.Obj] = na
			}
			return TupleV{}, stepResult{}, false
		}
	}
	panic(unsupported("builtin " + name + fmt.Sprintf(" on %T", args[0])))
}

func (e *Exec) symStrLen(s *State, x StrV) Value {
	panic(unsupported("len of symbolic string " + x.Sym.Kind))
}

func (e *Exec) builtinAppend(s *State, args []Value) Value {
	s1 := args[0].(SliceV)
	var add []Value
	switch x := args[1].(type) {
	case SliceV:
		add = append([]Value(nil), s.sliceElems(x)...)
	case StrV:
		if x.Sym != nil {
			panic(unsupported("append of symbolic string"))
		}
		for i := 0; i < len(x.C); i++ {
			add = append(add, BV(8, uint64(x.C[i])))
		}
	}
	if len(add) == 0 {
		return s1
	}
	n := s1.Len + len(add)
	if s1.Obj != 0 && n <= s1.Cap {
		arr := s.heap[s1.Obj].(ArrayV)
		na := make(ArrayV, len(arr))
		copy(na, arr)
		copy(na[s1.Off+s1.Len:], add)
		s.heap[s1.Obj] = na
		return SliceV{Obj: s1.Obj, Off: s1.Off, Len: n, Cap: s1.Cap, Elem: s1.Elem}
	}
	ncap := 2 * s1.Cap
	if ncap < n {
		ncap = n
	}
	na := make(ArrayV, ncap)
	copy(na, s.sliceElems(s1))
	copy(na[s1.Len:], add)
	et := s1.Elem
	if et != nil {
		z := zeroValue(et)
		for i := n; i < ncap; i++ {
			na[i] = z
		}
	} else {
		for i := n; i < ncap; i++ {
			na[i] = add[0]
		}
	}
	id := s.alloc(na)
	return SliceV{Obj: id, Off: 0, Len: n, Cap: ncap, Elem: et}
}

func inParam(e *Exec, s *State, f *Frame, fn *ssa.Function, args []Value, result ssa.Value) (stepResult, bool) {
	name := strArg(args[0])
	v, ok := e.h.params[name]
	if !ok {
		panic(unsupported("harness parameter " + name + " not set in the registry"))
	}
	return e.ret(f, result, BV(64, uint64(int64(v))))
}

// Monotonic time model (HarnessSpec.MonoTime): time.Time values that carry a
// monotonic reading are compared and subtracted by that reading (documented
// behaviour of package time); Add moves it. The wall-clock part of the value
// is left alone (it cannot influence Sub/After/Before/Equal between two
// monotonic readings). Overflow / saturation of Duration is outside the model.
var monoTimeIntrinsics = map[string]intrinsic{
	"(time.Time).Add": func(e *Exec, s *State, f *Frame, fn *ssa.Function, args []Value, result ssa.Value) (stepResult, bool) {
		t := args[0].(StructV)
		d := args[1].(*Term)
		e.h.noteAssumption("monotonic time model: Time.Add/Sub/After/Before/Equal on readings with a monotonic clock are int64 nanosecond arithmetic on that clock")
		return e.ret(f, result, StructV{t[0], BinBV(OpAdd, t[1].(*Term), d), t[2]})
	},
	"(time.Time).Sub": func(e *Exec, s *State, f *Frame, fn *ssa.Function, args []Value, result ssa.Value) (stepResult, bool) {
		t, u := args[0].(StructV), args[1].(StructV)
		return e.ret(f, result, BinBV(OpSub, t[1].(*Term), u[1].(*Term)))
	},
	"(time.Time).After": func(e *Exec, s *State, f *Frame, fn *ssa.Function, args []Value, result ssa.Value) (stepResult, bool) {
		t, u := args[0].(StructV), args[1].(StructV)
		return e.ret(f, result, Cmp(OpSlt, u[1].(*Term), t[1].(*Term)))
	},
	"(time.Time).Before": func(e *Exec, s *State, f *Frame, fn *ssa.Function, args []Value, result ssa.Value) (stepResult, bool) {
		t, u := args[0].(StructV), args[1].(StructV)
		return e.ret(f, result, Cmp(OpSlt, t[1].(*Term), u[1].(*Term)))
	},
	"(time.Time).Equal": func(e *Exec, s *State, f *Frame, fn *ssa.Function, args []Value, result ssa.Value) (stepResult, bool) {
		t, u := args[0].(StructV), args[1].(StructV)
		return e.ret(f, result, Eq(t[1].(*Term), u[1].(*Term)))
	},
	"time.Since": func(e *Exec, s *State, f *Frame, fn *ssa.Function, args []Value, result ssa.Value) (stepResult, bool) {
		return stepResult{}, false
	},
	// the model moves only the monotonic reading: wall-clock accessors of a
	// moved instant would be wrong, so integer accessors return an arbitrary
	// value (sound over-approximation: nothing can be concluded from them) and
	// the others are refused (inconclusive)
	"(time.Time).Unix":       monoHavoc,
	"(time.Time).UnixNano":   monoHavoc,
	"(time.Time).UnixMilli":  monoHavoc,
	"(time.Time).UnixMicro":  monoHavoc,
	"(time.Time).Nanosecond": monoHavoc,
	"(time.Time).Round":      monoRefuse,
	"(time.Time).Truncate":   monoRefuse,
	"(time.Time).Compare":    monoRefuse,
}

var monoHavocN int64

func monoHavoc(e *Exec, s *State, f *Frame, fn *ssa.Function, args []Value, result ssa.Value) (stepResult, bool) {
	e.h.noteAssumption("monotonic time model: wall-clock accessors (Unix, UnixNano, ...) return an unconstrained value")
	n := atomic.AddInt64(&monoHavocN, 1)
	return e.ret(f, result, Var(fmt.Sprintf("wallclock!%s!%d", fn.Name(), n), 64))
}

func monoRefuse(e *Exec, s *State, f *Frame, fn *ssa.Function, args []Value, result ssa.Value) (stepResult, bool) {
	panic(unsupported(fn.String() + " under the monotonic time model (use wall-clock instants for this harness)"))
}

var _ = func() int { return 0 }

// slices.overlaps: do two slices share memory? (the real body uses unsafe)
func inSlicesOverlaps(e *Exec, s *State, f *Frame, fn *ssa.Function, args []Value, result ssa.Value) (stepResult, bool) {
	a, b := args[0].(SliceV), args[1].(SliceV)
	if a.Len == 0 || b.Len == 0 || a.Obj != b.Obj {
		return e.ret(f, result, False)
	}
	return e.ret(f, result, Bool(a.Off < b.Off+b.Len && b.Off < a.Off+a.Len))
}

func conc2(args []Value) (string, string, bool) {
	a, ok1 := args[0].(StrV)
	b, ok2 := args[1].(StrV)
	if !ok1 || !ok2 || a.Sym != nil || b.Sym != nil {
		return "", "", false
	}
	return a.C, b.C, true
}

func inCountString(e *Exec, s *State, f *Frame, fn *ssa.Function, args []Value, result ssa.Value) (stepResult, bool) {
	sv := args[0].(StrV)
	c := args[1].(*Term)
	if sv.Sym != nil || !c.IsConst() {
		panic(unsupported("CountString on symbolic input"))
	}
	return e.ret(f, result, BV(64, uint64(strings.Count(sv.C, string([]byte{byte(c.Val)})))))
}

func inIndexString(e *Exec, s *State, f *Frame, fn *ssa.Function, args []Value, result ssa.Value) (stepResult, bool) {
	a, b, ok := conc2(args)
	if !ok {
		panic(unsupported("strings.Index on symbolic input"))
	}
	return e.ret(f, result, BV(64, uint64(int64(strings.Index(a, b)))))
}

func inStringsCount(e *Exec, s *State, f *Frame, fn *ssa.Function, args []Value, result ssa.Value) (stepResult, bool) {
	a, b, ok := conc2(args)
	if !ok {
		panic(unsupported("strings.Count on symbolic input"))
	}
	return e.ret(f, result, BV(64, uint64(strings.Count(a, b))))
}

func inStringsContains(e *Exec, s *State, f *Frame, fn *ssa.Function, args []Value, result ssa.Value) (stepResult, bool) {
	a, b, ok := conc2(args)
	if !ok {
		panic(unsupported("strings.Contains on symbolic input"))
	}
	return e.ret(f, result, Bool(strings.Contains(a, b)))
}

func inMakeNoZero(e *Exec, s *State, f *Frame, fn *ssa.Function, args []Value, result ssa.Value) (stepResult, bool) {
	n := e.concreteInt(s, args[0], "MakeNoZero length")
	arr := make(ArrayV, n)
	for i := range arr {
		arr[i] = BV(8, 0)
	}
	id := s.alloc(arr)
	return e.ret(f, result, SliceV{Obj: id, Len: n, Cap: n, Elem: types.Typ[types.Uint8]})
}

func inBuilderString(e *Exec, s *State, f *Frame, fn *ssa.Function, args []Value, result ssa.Value) (stepResult, bool) {
	p := sub(e.ptr(args[0]), fieldPathByName(recvElem(fn), "buf"))
	sl := s.load(p).(SliceV)
	bt := types.NewSlice(types.Typ[types.Uint8])
	return e.ret(f, result, e.convert(s, bt, types.Typ[types.String], sl))
}

// IndexByte on a byte slice: concrete when every byte up to the first match is concrete.
func inIndexByteSlice(e *Exec, s *State, f *Frame, fn *ssa.Function, args []Value, result ssa.Value) (stepResult, bool) {
	sl := args[0].(SliceV)
	c := args[1].(*Term)
	if !c.IsConst() {
		panic(unsupported("IndexByte with symbolic needle"))
	}
	for i, el := range s.sliceElems(sl) {
		t := el.(*Term)
		if !t.IsConst() {
			panic(unsupported("IndexByte over symbolic bytes"))
		}
		if t.Val == c.Val {
			return e.ret(f, result, BV(64, uint64(i)))
		}
	}
	return e.ret(f, result, BV(64, ^uint64(0)))
}
