package main

// Structural obligations: facts about the shape of the program that the
// harnesses rely on but that no harness executes (package main is flags,
// files and the Prometheus registry). They are decided on the SSA of the
// current tree; no solver is involved, and they are reported separately in
// evidence ("structural").

import (
	"fmt"
	"go/token"
	"sort"
	"strings"

	"go/types"

	"golang.org/x/tools/go/ssa"
)

func ptrTo(t *ssa.Type) types.Type { return types.NewPointer(t.Type()) }

const pkgMain = "github.com/mdlayher/corerad/cmd/corerad"

type structResult struct {
	ID      string
	OK      bool
	Unknown bool // the shape of the code is not one the scan understands: skipped, not a violation
	Detail  string
}

func calleeName(c *ssa.CallCommon) string {
	if f := c.StaticCallee(); f != nil {
		return f.String()
	}
	if c.IsInvoke() {
		return "invoke " + c.Method.FullName()
	}
	return ""
}

// mainCalls returns the call instructions of main.main (and its closures).
func mainCalls(prog *ssa.Program) (map[string][]*ssa.Call, *ssa.Function) {
	var mainFn *ssa.Function
	for _, p := range prog.AllPackages() {
		if p.Pkg.Path() == pkgMain {
			mainFn = p.Func("main")
		}
	}
	out := map[string][]*ssa.Call{}
	if mainFn == nil {
		return out, nil
	}
	var roots []*ssa.Function
	for _, m := range mainFn.Pkg.Members {
		if fn, ok := m.(*ssa.Function); ok && fn != mainFn {
			roots = append(roots, fn)
		}
	}
	var visit func(fn *ssa.Function)
	visit = func(fn *ssa.Function) {
		for _, b := range fn.Blocks {
			for _, in := range b.Instrs {
				if c, ok := in.(*ssa.Call); ok {
					n := calleeName(c.Common())
					out[n] = append(out[n], c)
				}
			}
		}
		for _, af := range fn.AnonFuncs {
			visit(af)
		}
	}
	visit(mainFn)
	for _, fn := range roots {
		visit(fn)
	}
	return out, mainFn
}

// baseOf strips loads / field addresses / extracts down to the defining value.
func baseOf(v ssa.Value) ssa.Value {
	for {
		switch x := v.(type) {
		case *ssa.UnOp:
			if x.Op == token.MUL {
				v = x.X
				continue
			}
		case *ssa.FieldAddr:
			v = x.X
			continue
		case *ssa.Field:
			v = x.X
			continue
		}
		return v
	}
}

func structuralChecks(prog *ssa.Program, which string) []structResult {
	var res []structResult
	calls, mainFn := mainCalls(prog)
	if mainFn == nil {
		return []structResult{{ID: which, Unknown: true, Detail: "package " + pkgMain + " has no main function"}}
	}
	parse := calls["github.com/mdlayher/corerad/internal/config.Parse"]
	switch which {
	case "S16":
		// epoch captured at start: every config.Parse call in package main gets
		// the result of a time.Now() call as its epoch. Violation: an epoch that
		// is provably something else (a constant, time.Unix(...), ...). A shape
		// the scan does not understand (no call found, epoch handed in through a
		// parameter or a field) is skipped.
		if len(parse) == 0 {
			res = append(res, structResult{ID: "S16/epoch-is-time-now-at-startup", Unknown: true, Detail: "no call to config.Parse found in package main"})
			break
		}
		for _, pc := range parse {
			arg := pc.Common().Args[1]
			st, why := classifyEpoch(arg, 0)
			res = append(res, structResult{ID: "S16/epoch-is-time-now-at-startup", OK: st == 1, Unknown: st == 0, Detail: "epoch argument of config.Parse: " + arg.String() + " (" + why + ")"})
		}
	case "S17":
		// the same configuration value reaches the metrics, the debug handler
		// and the server tasks (so plugin objects are shared between them).
		// Violation: two of them provably receive different parsed values.
		get := func(name string, idx int) ssa.Value {
			cs := calls[name]
			if len(cs) != 1 || len(cs[0].Common().Args) <= idx {
				return nil
			}
			return baseOf(cs[0].Common().Args[idx])
		}
		m := get("github.com/mdlayher/corerad/internal/corerad.NewMetrics", 4)
		h := get("github.com/mdlayher/corerad/internal/crhttp.NewHandler", 2)
		b := get("(*github.com/mdlayher/corerad/internal/corerad.Server).BuildTasks", 1)
		id := "S17/same-configuration-to-metrics-debug-api-and-tasks"
		detail := fmt.Sprintf("metrics<-%v handler<-%v tasks<-%v", m, h, b)
		isParsed := func(v ssa.Value) bool {
			ex, ok := v.(*ssa.Extract)
			if !ok || ex.Index != 0 {
				return false
			}
			c, ok := ex.Tuple.(*ssa.Call)
			return ok && calleeName(c.Common()) == "github.com/mdlayher/corerad/internal/config.Parse"
		}
		switch {
		case m == nil || h == nil || b == nil:
			res = append(res, structResult{ID: id, Unknown: true, Detail: "not the recognised shape: " + detail})
		case m == h && h == b:
			// one SSA value feeds all three
			res = append(res, structResult{ID: id, OK: true, Detail: detail})
		case isParsed(m) && isParsed(h) && isParsed(b):
			// provably different results of config.Parse
			res = append(res, structResult{ID: id, OK: false, Detail: detail})
		default:
			res = append(res, structResult{ID: id, Unknown: true, Detail: "not the recognised shape: " + detail})
		}
	case "H01d":
		// a single constructor: Interface.RouterAdvertisement is called only
		// from the advertiser, the metrics scrape and the debug API
		allowed := map[string]bool{
			"(*github.com/mdlayher/corerad/internal/corerad.Advertiser).buildRA":   true,
			"(*github.com/mdlayher/corerad/internal/corerad.Metrics).constScrape": true,
			"(*github.com/mdlayher/corerad/internal/crhttp.Handler).interfaces":   true,
		}
		var others []string
		seen := map[string]bool{}
		for fn := range ssaAllFunctions(prog) {
			if fn.Pkg == nil || !strings.HasPrefix(fn.Pkg.Pkg.Path(), modPath) {
				continue
			}
			name := fn.String()
			if strings.Contains(fn.Name(), "zz") || (fn.Parent() != nil && strings.Contains(fn.Parent().Name(), "zz")) {
				continue
			}
			for _, blk := range fn.Blocks {
				for _, in := range blk.Instrs {
					c, ok := in.(ssa.CallInstruction)
					if !ok {
						continue
					}
					if calleeName(c.Common()) == "(github.com/mdlayher/corerad/internal/config.Interface).RouterAdvertisement" {
						root := fn
						for root.Parent() != nil {
							root = root.Parent()
						}
						if !allowed[root.String()] && !seen[name] {
							seen[name] = true
							others = append(others, name)
						}
					}
				}
			}
		}
		sort.Strings(others)
		// a new caller is not a violation by itself: it is a path no harness
		// covers, reported as skipped with its name
		res = append(res, structResult{ID: "H01d/router-advertisement-built-only-by-advertiser-scrape-and-debug-api", OK: len(others) == 0, Unknown: len(others) > 0, Detail: "other callers: " + strings.Join(others, ", ")})
	}
	return res
}

func ssaAllFunctions(prog *ssa.Program) map[*ssa.Function]bool {
	out := map[*ssa.Function]bool{}
	var visit func(fn *ssa.Function)
	visit = func(fn *ssa.Function) {
		if fn == nil || out[fn] {
			return
		}
		out[fn] = true
		for _, af := range fn.AnonFuncs {
			visit(af)
		}
	}
	for _, p := range prog.AllPackages() {
		for _, m := range p.Members {
			switch x := m.(type) {
			case *ssa.Function:
				visit(x)
			case *ssa.Type:
				for _, t := range []interface{ NumMethods() int }{} {
					_ = t
				}
				mset := prog.MethodSets.MethodSet(x.Type())
				for i := 0; i < mset.Len(); i++ {
					visit(prog.MethodValue(mset.At(i)))
				}
				pm := prog.MethodSets.MethodSet(ptrTo(x))
				for i := 0; i < pm.Len(); i++ {
					visit(prog.MethodValue(pm.At(i)))
				}
			}
		}
	}
	return out
}

// classifyEpoch: 1 = the value is the result of a time.Now() call, -1 = it is
// provably something else, 0 = not understood.
func classifyEpoch(v ssa.Value, depth int) (int, string) {
	if depth > 4 {
		return 0, "too indirect"
	}
	switch x := v.(type) {
	case *ssa.Call:
		if calleeName(x.Common()) == "time.Now" {
			return 1, "time.Now()"
		}
		if f := x.Common().StaticCallee(); f != nil && f.Pkg != nil && f.Pkg.Pkg.Path() == "time" {
			return -1, "built by " + f.String()
		}
		return 0, "result of " + calleeName(x.Common())
	case *ssa.Const:
		return -1, "a constant"
	case *ssa.UnOp:
		if x.Op == token.MUL {
			// load of a local variable: understood when it has a single store
			if a, ok := x.X.(*ssa.Alloc); ok {
				var stores []ssa.Value
				for _, r := range *a.Referrers() {
					if st, ok := r.(*ssa.Store); ok && st.Addr == a {
						stores = append(stores, st.Val)
					}
				}
				if len(stores) == 1 {
					return classifyEpoch(stores[0], depth+1)
				}
				if len(stores) == 0 {
					return -1, "a zero time.Time"
				}
			}
		}
	case *ssa.Phi:
		all := 1
		for _, e := range x.Edges {
			st, _ := classifyEpoch(e, depth+1)
			if st == -1 {
				return -1, "one branch is not time.Now()"
			}
			if st == 0 {
				all = 0
			}
		}
		return all, "phi"
	}
	return 0, fmt.Sprintf("%T", v)
}
