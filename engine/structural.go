package main

// Structural obligations: facts about the shape of the program that the
// harnesses rely on but that no harness executes (package main is flags,
// files and the Prometheus registry). They are decided on the SSA of the
// current tree; no solver is involved, and they are reported separately in
// evidence ("structural").

import (
	"fmt"
	"go/token"
	"sort"
	"strings"

	"go/types"

	"golang.org/x/tools/go/ssa"
)

func ptrTo(t *ssa.Type) types.Type { return types.NewPointer(t.Type()) }

const pkgMain = "github.com/mdlayher/corerad/cmd/corerad"

type structResult struct {
	ID     string
	OK     bool
	Detail string
}

func calleeName(c *ssa.CallCommon) string {
	if f := c.StaticCallee(); f != nil {
		return f.String()
	}
	if c.IsInvoke() {
		return "invoke " + c.Method.FullName()
	}
	return ""
}

// mainCalls returns the call instructions of main.main (and its closures).
func mainCalls(prog *ssa.Program) (map[string][]*ssa.Call, *ssa.Function) {
	var mainFn *ssa.Function
	for _, p := range prog.AllPackages() {
		if p.Pkg.Path() == pkgMain {
			mainFn = p.Func("main")
		}
	}
	out := map[string][]*ssa.Call{}
	if mainFn == nil {
		return out, nil
	}
	var visit func(fn *ssa.Function)
	visit = func(fn *ssa.Function) {
		for _, b := range fn.Blocks {
			for _, in := range b.Instrs {
				if c, ok := in.(*ssa.Call); ok {
					n := calleeName(c.Common())
					out[n] = append(out[n], c)
				}
			}
		}
		for _, af := range fn.AnonFuncs {
			visit(af)
		}
	}
	visit(mainFn)
	return out, mainFn
}

// baseOf strips loads / field addresses / extracts down to the defining value.
func baseOf(v ssa.Value) ssa.Value {
	for {
		switch x := v.(type) {
		case *ssa.UnOp:
			if x.Op == token.MUL {
				v = x.X
				continue
			}
		case *ssa.FieldAddr:
			v = x.X
			continue
		case *ssa.Field:
			v = x.X
			continue
		}
		return v
	}
}

func structuralChecks(prog *ssa.Program, which string) []structResult {
	var res []structResult
	calls, mainFn := mainCalls(prog)
	if mainFn == nil {
		return []structResult{{which, false, "package " + pkgMain + " not loaded"}}
	}
	parse := calls["github.com/mdlayher/corerad/internal/config.Parse"]
	switch which {
	case "S16":
		// epoch captured once at start: config.Parse is called exactly once
		// and its epoch argument is the result of a time.Now() call
		ok := len(parse) == 1
		detail := fmt.Sprintf("%d call(s) to config.Parse in main", len(parse))
		if ok {
			arg := parse[0].Common().Args[1]
			c, isCall := arg.(*ssa.Call)
			ok = isCall && calleeName(c.Common()) == "time.Now"
			detail = "epoch argument of config.Parse: " + arg.String()
		}
		res = append(res, structResult{"S16/epoch-is-time-now-at-startup", ok, detail})
	case "S17":
		// the same configuration value reaches the metrics, the debug handler
		// and the server tasks (so plugin objects are shared between them)
		get := func(name string, idx int) ssa.Value {
			cs := calls[name]
			if len(cs) != 1 || len(cs[0].Common().Args) <= idx {
				return nil
			}
			return baseOf(cs[0].Common().Args[idx])
		}
		if len(parse) != 1 {
			res = append(res, structResult{"S17/one-configuration", false, "config.Parse not called exactly once"})
			break
		}
		var cfgV ssa.Value
		for _, r := range *parse[0].Referrers() {
			if ex, ok := r.(*ssa.Extract); ok && ex.Index == 0 {
				cfgV = ex
			}
		}
		m := get("github.com/mdlayher/corerad/internal/corerad.NewMetrics", 4)
		h := get("github.com/mdlayher/corerad/internal/crhttp.NewHandler", 2)
		b := get("(*github.com/mdlayher/corerad/internal/corerad.Server).BuildTasks", 1)
		ok := cfgV != nil && m == cfgV && h == cfgV && b == cfgV
		res = append(res, structResult{"S17/same-configuration-to-metrics-debug-api-and-tasks", ok,
			fmt.Sprintf("cfg=%v metrics<-%v handler<-%v tasks<-%v", cfgV, m, h, b)})
	case "H01d":
		// a single constructor: Interface.RouterAdvertisement is called only
		// from the advertiser, the metrics scrape and the debug API
		allowed := map[string]bool{
			"(*github.com/mdlayher/corerad/internal/corerad.Advertiser).buildRA":   true,
			"(*github.com/mdlayher/corerad/internal/corerad.Metrics).constScrape": true,
			"(*github.com/mdlayher/corerad/internal/crhttp.Handler).interfaces":   true,
		}
		var others []string
		seen := map[string]bool{}
		for fn := range ssaAllFunctions(prog) {
			if fn.Pkg == nil || !strings.HasPrefix(fn.Pkg.Pkg.Path(), modPath) {
				continue
			}
			name := fn.String()
			if strings.Contains(fn.Name(), "zz") || (fn.Parent() != nil && strings.Contains(fn.Parent().Name(), "zz")) {
				continue
			}
			for _, blk := range fn.Blocks {
				for _, in := range blk.Instrs {
					c, ok := in.(ssa.CallInstruction)
					if !ok {
						continue
					}
					if calleeName(c.Common()) == "(github.com/mdlayher/corerad/internal/config.Interface).RouterAdvertisement" {
						root := fn
						for root.Parent() != nil {
							root = root.Parent()
						}
						if !allowed[root.String()] && !seen[name] {
							seen[name] = true
							others = append(others, name)
						}
					}
				}
			}
		}
		sort.Strings(others)
		res = append(res, structResult{"H01d/router-advertisement-built-only-by-advertiser-scrape-and-debug-api", len(others) == 0, "other callers: " + strings.Join(others, ", ")})
	}
	return res
}

func ssaAllFunctions(prog *ssa.Program) map[*ssa.Function]bool {
	out := map[*ssa.Function]bool{}
	var visit func(fn *ssa.Function)
	visit = func(fn *ssa.Function) {
		if fn == nil || out[fn] {
			return
		}
		out[fn] = true
		for _, af := range fn.AnonFuncs {
			visit(af)
		}
	}
	for _, p := range prog.AllPackages() {
		for _, m := range p.Members {
			switch x := m.(type) {
			case *ssa.Function:
				visit(x)
			case *ssa.Type:
				for _, t := range []interface{ NumMethods() int }{} {
					_ = t
				}
				mset := prog.MethodSets.MethodSet(x.Type())
				for i := 0; i < mset.Len(); i++ {
					visit(prog.MethodValue(mset.At(i)))
				}
				pm := prog.MethodSets.MethodSet(ptrTo(x))
				for i := 0; i < pm.Len(); i++ {
					visit(prog.MethodValue(pm.At(i)))
				}
			}
		}
	}
	return out
}
