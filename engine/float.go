package main

// Floating point. Concrete float64 values are computed natively. Symbolic
// floats arise only in the shapes corerad uses:
//   float64(intTerm)                       Kind "int"
//   d.Seconds()                            Kind "secs" (Int = the duration term)
//   <either> * const, / const              Ops
//   math.Round(...)                        Ops
// and are consumed by float->int conversions and comparisons with constants.
// The exact IEEE-754 semantics of these shapes is encoded in softfloat.go.

import (
	"fmt"
	"go/token"
	"go/types"
	"math"

	"golang.org/x/tools/go/ssa"
)

func (e *Exec) intToFloat(s *State, x *Term, signed bool, to types.Type) Value {
	is32 := under(to).(*types.Basic).Kind() == types.Float32
	if x.IsConst() {
		var fv float64
		if signed {
			fv = float64(x.Signed())
		} else {
			fv = float64(x.Val)
		}
		if is32 {
			fv = float64(float32(fv))
		}
		return FloatV{C: fv}
	}
	if is32 {
		panic(unsupported("symbolic int -> float32"))
	}
	var t *Term
	if signed {
		t = Sext(x, 64)
	} else {
		if x.W == 64 {
			panic(unsupported("symbolic uint64 -> float64"))
		}
		t = Zext(x, 64)
	}
	return FloatV{Sym: &FloatSym{Kind: "int", Int: t}}
}

func (e *Exec) floatToInt(s *State, fv FloatV, w int, signed bool) Value {
	if fv.Sym == nil {
		if fv.C != fv.C {
			panic(unsupported("NaN -> int"))
		}
		t := math.Trunc(fv.C)
		if signed {
			lo, hi := -math.Ldexp(1, w-1), math.Ldexp(1, w-1)
			if t < lo || t >= hi {
				panic(unsupported(fmt.Sprintf("float %g out of range of int%d (implementation-defined)", fv.C, w)))
			}
			return BV(w, uint64(int64(t)))
		}
		if t < 0 || t >= math.Ldexp(1, w) {
			panic(unsupported(fmt.Sprintf("float %g out of range of uint%d (implementation-defined)", fv.C, w)))
		}
		return BV(w, uint64(t))
	}
	return e.softFloatToInt(s, fv.Sym, w, signed)
}

func (e *Exec) symFloatBin(s *State, op token.Token, a, b FloatV) Value {
	switch op {
	case token.MUL:
		if a.Sym != nil && b.Sym == nil {
			return FloatV{Sym: a.Sym.with(FloatOp{"mul", b.C})}
		}
		if b.Sym != nil && a.Sym == nil {
			return FloatV{Sym: b.Sym.with(FloatOp{"mul", a.C})}
		}
	case token.QUO:
		if a.Sym != nil && b.Sym == nil {
			return FloatV{Sym: a.Sym.with(FloatOp{"div", b.C})}
		}
	case token.LSS, token.LEQ, token.GTR, token.GEQ:
		return e.floatCmp(s, op, a, b)
	}
	panic(unsupported("symbolic float op " + op.String()))
}

func (fs *FloatSym) with(op FloatOp) *FloatSym {
	n := *fs
	n.Ops = append(append([]FloatOp(nil), fs.Ops...), op)
	return &n
}

func (e *Exec) floatCmp(s *State, op token.Token, a, b FloatV) *Term {
	return e.softFloatCmp(s, op, a, b)
}

func mergeFloat(c *Term, x, y FloatV) (Value, bool) {
	if x.Sym != nil && y.Sym != nil && x.Sym.Kind == y.Sym.Kind && len(x.Sym.Ops) == len(y.Sym.Ops) {
		for i := range x.Sym.Ops {
			if x.Sym.Ops[i] != y.Sym.Ops[i] {
				return nil, false
			}
		}
		n := *x.Sym
		n.Int = Ite(c, x.Sym.Int, y.Sym.Int)
		return FloatV{Sym: &n}, true
	}
	// concrete vs concrete differing, or mixed: lift concrete integers
	lift := func(f FloatV) (*FloatSym, bool) {
		if f.Sym != nil {
			return f.Sym, true
		}
		if f.C == math.Trunc(f.C) && math.Abs(f.C) < 1<<62 {
			return &FloatSym{Kind: "int", Int: BV(64, uint64(int64(f.C)))}, true
		}
		return nil, false
	}
	xs, ok1 := lift(x)
	ys, ok2 := lift(y)
	if ok1 && ok2 && xs.Kind == "int" && ys.Kind == "int" && len(xs.Ops) == 0 && len(ys.Ops) == 0 {
		return FloatV{Sym: &FloatSym{Kind: "int", Int: Ite(c, xs.Int, ys.Int)}}, true
	}
	return nil, false
}

func inMathRound(e *Exec, s *State, f *Frame, fn *ssa.Function, args []Value, result ssa.Value) (stepResult, bool) {
	fv := args[0].(FloatV)
	if fv.Sym == nil {
		return e.ret(f, result, FloatV{C: math.Round(fv.C)})
	}
	return e.ret(f, result, FloatV{Sym: fv.Sym.with(FloatOp{"round", 0})})
}

func inDurSeconds(e *Exec, s *State, f *Frame, fn *ssa.Function, args []Value, result ssa.Value) (stepResult, bool) {
	d := args[0].(*Term)
	if d.IsConst() {
		return stepResult{}, false // real body, concrete
	}
	return e.ret(f, result, FloatV{Sym: &FloatSym{Kind: "secs", Int: d}})
}

// floatEq: equality of two float values of the supported shapes.
// float64(x) == float64(y) iff x == y holds when both |x|,|y| < 2^53, which is
// recorded as an assumption (all such values here are Unix seconds / counts).
func floatEq(a, b FloatV) *Term {
	if a.Sym == nil && b.Sym == nil {
		return Bool(a.C == b.C)
	}
	lift := func(f FloatV) *FloatSym {
		if f.Sym != nil {
			return f.Sym
		}
		if f.C == math.Trunc(f.C) && math.Abs(f.C) < 1<<53 {
			return &FloatSym{Kind: "int", Int: BV(64, uint64(int64(f.C)))}
		}
		return nil
	}
	x, y := lift(a), lift(b)
	if x != nil && y != nil && x.Kind == y.Kind && len(x.Ops) == len(y.Ops) {
		same := true
		for i := range x.Ops {
			if x.Ops[i] != y.Ops[i] {
				same = false
			}
		}
		if same && len(x.Ops) == 0 {
			// "int": exact below 2^53; "secs": a function of the duration
			return Eq(x.Int, y.Int)
		}
	}
	if x != nil && y != nil && x.Kind != y.Kind {
		// secs(d) vs an integer constant etc.: not comparable in the model
	}
	panic(unsupported("equality of symbolic floats of different shapes"))
}
