package main

import (
	"fmt"
	"go/types"

	"golang.org/x/tools/go/ssa"
)

// ---------- per-function static info ----------

type fnInfo struct {
	fn       *ssa.Function
	index    map[ssa.Value]int
	nLocals  int
	ipdom    []int  // per block index: immediate post-dominator block index, -1 = none
	inLoop   []bool // per block index: block lies on a cycle
	firstNon []int  // per block: index of first non-phi instruction
}

func buildFnInfo(fn *ssa.Function) *fnInfo {
	fi := &fnInfo{fn: fn, index: map[ssa.Value]int{}}
	n := 0
	for _, p := range fn.Params {
		fi.index[p] = n
		n++
	}
	for _, fv := range fn.FreeVars {
		fi.index[fv] = n
		n++
	}
	for _, b := range fn.Blocks {
		for _, in := range b.Instrs {
			if v, ok := in.(ssa.Value); ok {
				fi.index[v] = n
				n++
			}
		}
	}
	fi.nLocals = n
	nb := len(fn.Blocks)
	fi.firstNon = make([]int, nb)
	for i, b := range fn.Blocks {
		k := 0
		for k < len(b.Instrs) {
			if _, ok := b.Instrs[k].(*ssa.Phi); !ok {
				break
			}
			k++
		}
		fi.firstNon[i] = k
	}
	// post-dominators: iterative data-flow over sets (functions are small)
	exit := nb
	succ := make([][]int, nb+1)
	pred := make([][]int, nb+1)
	for i, b := range fn.Blocks {
		if len(b.Succs) == 0 {
			succ[i] = append(succ[i], exit)
			pred[exit] = append(pred[exit], i)
		}
		for _, s := range b.Succs {
			succ[i] = append(succ[i], s.Index)
			pred[s.Index] = append(pred[s.Index], i)
		}
	}
	// reverse reachability from exit
	reach := make([]bool, nb+1)
	stack := []int{exit}
	reach[exit] = true
	for len(stack) > 0 {
		x := stack[len(stack)-1]
		stack = stack[:len(stack)-1]
		for _, p := range pred[x] {
			if !reach[p] {
				reach[p] = true
				stack = append(stack, p)
			}
		}
	}
	words := (nb + 1 + 63) / 64
	type bitset []uint64
	full := make(bitset, words)
	for i := 0; i <= nb; i++ {
		full[i/64] |= 1 << uint(i%64)
	}
	pdom := make([]bitset, nb+1)
	for i := 0; i <= nb; i++ {
		pdom[i] = make(bitset, words)
		if i == exit {
			pdom[i][i/64] |= 1 << uint(i%64)
		} else {
			copy(pdom[i], full)
		}
	}
	changed := true
	for changed {
		changed = false
		for i := nb - 1; i >= 0; i-- {
			if !reach[i] {
				continue
			}
			nw := make(bitset, words)
			copy(nw, full)
			any := false
			for _, s := range succ[i] {
				if !reach[s] {
					continue
				}
				any = true
				for w := range nw {
					nw[w] &= pdom[s][w]
				}
			}
			if !any {
				continue
			}
			nw[i/64] |= 1 << uint(i%64)
			for w := range nw {
				if nw[w] != pdom[i][w] {
					changed = true
				}
			}
			pdom[i] = nw
		}
	}
	has := func(b bitset, i int) bool { return b[i/64]&(1<<uint(i%64)) != 0 }
	count := func(b bitset) int {
		c := 0
		for i := 0; i <= nb; i++ {
			if has(b, i) {
				c++
			}
		}
		return c
	}
	fi.ipdom = make([]int, nb)
	for i := 0; i < nb; i++ {
		fi.ipdom[i] = -1
		if !reach[i] {
			continue
		}
		// ipdom = the strict post-dominator with the largest pdom set
		best, bestN := -1, -1
		for j := 0; j <= nb; j++ {
			if j == i || !has(pdom[i], j) {
				continue
			}
			c := count(pdom[j])
			if c > bestN {
				best, bestN = j, c
			}
		}
		if best == exit {
			best = -1
		}
		fi.ipdom[i] = best
	}
	// inLoop: block can reach itself
	fi.inLoop = make([]bool, nb)
	for i := 0; i < nb; i++ {
		seen := make([]bool, nb)
		st := []int{}
		for _, s := range fn.Blocks[i].Succs {
			st = append(st, s.Index)
		}
		for len(st) > 0 {
			x := st[len(st)-1]
			st = st[:len(st)-1]
			if seen[x] {
				continue
			}
			seen[x] = true
			if x == i {
				fi.inLoop[i] = true
				break
			}
			for _, s := range fn.Blocks[x].Succs {
				st = append(st, s.Index)
			}
		}
	}
	return fi
}

// ---------- dynamic state ----------

type deferred struct {
	fn   Value // *FuncV
	args []Value
}

type Frame struct {
	fn      *ssa.Function
	info    *fnInfo
	block   *ssa.BasicBlock
	prev    *ssa.BasicBlock
	ip      int
	locals  []Value
	defers  []deferred
	act     int
	retTo   ssa.Value // value in the caller frame that receives the result (nil: discard)
	inDefer bool      // this frame was pushed by RunDefers of the frame below
	unwind  map[int]int
	panicking bool   // running defers because of a panic
	panicMsg  string
	env     []Value
}

func (f *Frame) clone() *Frame {
	nf := *f
	nf.locals = make([]Value, len(f.locals))
	copy(nf.locals, f.locals)
	if len(f.defers) > 0 {
		nf.defers = append([]deferred(nil), f.defers...)
	}
	if f.unwind != nil {
		nf.unwind = make(map[int]int, len(f.unwind))
		for k, v := range f.unwind {
			nf.unwind[k] = v
		}
	}
	return &nf
}

type GStatus int

const (
	GRunnable GStatus = iota
	GBlocked
	GDone
)

type G struct {
	id     int
	frames []*Frame
	status GStatus
	// set when another goroutine completed this goroutine's blocked
	// operation (rendezvous): the blocked instruction is finished with this
	// result instead of being re-executed.
	handoff    bool
	handoffVal Value
	idleWait   bool // blocked in zzWaitIdle
	waitKind   string
	waitPtr    PtrV
	waitPtr2   PtrV
	name       string
}

func (g *G) clone() *G {
	ng := *g
	ng.frames = make([]*Frame, len(g.frames))
	for i, f := range g.frames {
		ng.frames[i] = f.clone()
	}
	return &ng
}

func (g *G) top() *Frame { return g.frames[len(g.frames)-1] }

type GhostEntry struct {
	Kind string
	Args []Value
}

type Timer struct {
	Ch      ObjID
	Created *Term // monotonic ns (64-bit) at creation
	D       *Term // duration ns (64-bit)
	Fired   bool
	Stopped bool
}

type NondetRec struct {
	Name string
	Kind string // bool,int64,...
	Vars []*Term
	// concrete choice taken on this path (for zzNondetChoice and forks on
	// structured inputs)
	Choice int
	HasChoice bool
}

type State struct {
	heap    map[ObjID]Value
	nextObj ObjID
	nextAct int
	gs      []*G
	cur     int
	pc      []*Term
	ghost   []GhostEntry
	globals map[*ssa.Global]ObjID
	timers  []Timer
	clock   *Term // last monotonic reading (64-bit), nil = none yet
	nowSeq  int
	nondet  []NondetRec
	nondetN map[string]int
	known   map[string]*Term // known-finding class predicates
	sched   []string         // schedule trace (goroutine tier)
	steps   int
	initDone map[string]bool
	symStrN int
	fuel    int
	mergeN  int
	guards  []guard
	assumes int
	hardOps int
}

func newState() *State {
	return &State{
		heap:    map[ObjID]Value{},
		nextObj: 1,
		globals: map[*ssa.Global]ObjID{},
		nondetN: map[string]int{},
		known:   map[string]*Term{},
		initDone: map[string]bool{},
	}
}

func (s *State) clone() *State {
	ns := *s
	ns.heap = make(map[ObjID]Value, len(s.heap))
	for k, v := range s.heap {
		ns.heap[k] = v
	}
	ns.gs = make([]*G, len(s.gs))
	for i, g := range s.gs {
		ns.gs[i] = g.clone()
	}
	ns.pc = append([]*Term(nil), s.pc...)
	ns.ghost = append([]GhostEntry(nil), s.ghost...)
	ns.globals = make(map[*ssa.Global]ObjID, len(s.globals))
	for k, v := range s.globals {
		ns.globals[k] = v
	}
	ns.timers = append([]Timer(nil), s.timers...)
	ns.nondet = append([]NondetRec(nil), s.nondet...)
	ns.nondetN = make(map[string]int, len(s.nondetN))
	for k, v := range s.nondetN {
		ns.nondetN[k] = v
	}
	ns.known = make(map[string]*Term, len(s.known))
	for k, v := range s.known {
		ns.known[k] = v
	}
	ns.sched = append([]string(nil), s.sched...)
	ns.initDone = make(map[string]bool, len(s.initDone))
	for k, v := range s.initDone {
		ns.initDone[k] = v
	}
	return &ns
}

func (s *State) g() *G { return s.gs[s.cur] }

func (s *State) alloc(v Value) ObjID {
	id := s.nextObj
	s.nextObj++
	s.heap[id] = v
	return id
}

func (s *State) assume(c *Term) {
	if c.IsTrue() {
		return
	}
	s.assumes++
	s.pc = append(s.pc, c)
}

// assumeBranch records a branch condition (both sides are explored).
func (s *State) assumeBranch(c *Term) {
	if c.IsTrue() {
		return
	}
	s.pc = append(s.pc, c)
}

// load reads the value at a pointer.
func (s *State) load(p PtrV) Value {
	if p.Obj == 0 {
		panic(goPanic{"nil pointer dereference"})
	}
	v, ok := s.heap[p.Obj]
	if !ok {
		panic(fmt.Sprintf("engine: dangling object o%d", p.Obj))
	}
	for _, i := range pathElems(p.Path) {
		switch x := v.(type) {
		case StructV:
			v = x[i]
		case ArrayV:
			if i >= len(x) {
				panic(goPanic{"index out of range"})
			}
			v = x[i]
		default:
			panic(fmt.Sprintf("engine: load path through %T", v))
		}
	}
	return v
}

func (s *State) store(p PtrV, nv Value) {
	if p.Obj == 0 {
		panic(goPanic{"nil pointer dereference"})
	}
	root, ok := s.heap[p.Obj]
	if !ok {
		panic(fmt.Sprintf("engine: dangling object o%d", p.Obj))
	}
	s.heap[p.Obj] = updatePath(root, pathElems(p.Path), nv)
}

func updatePath(v Value, path []int, nv Value) Value {
	if len(path) == 0 {
		return nv
	}
	i := path[0]
	switch x := v.(type) {
	case StructV:
		c := make(StructV, len(x))
		copy(c, x)
		c[i] = updatePath(x[i], path[1:], nv)
		return c
	case ArrayV:
		if i >= len(x) {
			panic(goPanic{"index out of range"})
		}
		c := make(ArrayV, len(x))
		copy(c, x)
		c[i] = updatePath(x[i], path[1:], nv)
		return c
	}
	panic(fmt.Sprintf("engine: store path through %T", v))
}

type goPanic struct{ msg string }

// pathEnd is thrown to terminate the current path.
type pathEnd struct {
	kind string // "done", "assume-false", "panic", "unsupported", "budget"
	msg  string
}

func typeString(t types.Type) string { return types.TypeString(t, nil) }
