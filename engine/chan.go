package main

import (
	"fmt"
	"go/token"
	"go/types"

	"golang.org/x/tools/go/ssa"
)

func (e *Exec) chanObj(s *State, v Value) (*ChanObj, ObjID) {
	cv, ok := v.(ChanV)
	if !ok {
		panic(unsupported(fmt.Sprintf("chan op on %T", v)))
	}
	if cv.Obj == 0 {
		return nil, 0
	}
	return s.heap[cv.Obj].(*ChanObj), cv.Obj
}

// blocked describes why a goroutine at its current instruction cannot run.
// (Goroutines re-execute the blocking instruction when scheduled.)

// findBlockedSender: a goroutine blocked in a plain Send on chan id.
func (e *Exec) findBlockedSender(s *State, id ObjID) *G {
	for _, g := range s.gs {
		if g.status != GBlocked || g.handoff || len(g.frames) == 0 {
			continue
		}
		f := g.top()
		if f.ip >= len(f.block.Instrs) {
			continue
		}
		if sd, ok := f.block.Instrs[f.ip].(*ssa.Send); ok {
			if cv, ok := e.peek(s, f, sd.Chan).(ChanV); ok && cv.Obj == id {
				return g
			}
		}
	}
	return nil
}

func (e *Exec) peek(s *State, f *Frame, v ssa.Value) Value {
	defer func() { recover() }()
	return e.get(s, f, v)
}

// findBlockedReceiver: goroutine blocked in recv (or select with recv case) on chan id.
func (e *Exec) findBlockedReceiver(s *State, id ObjID) (*G, int) {
	for _, g := range s.gs {
		if g.status != GBlocked || g.handoff || len(g.frames) == 0 {
			continue
		}
		f := g.top()
		if f.ip >= len(f.block.Instrs) {
			continue
		}
		switch in := f.block.Instrs[f.ip].(type) {
		case *ssa.UnOp:
			if in.Op == token.ARROW {
				if cv, ok := e.peek(s, f, in.X).(ChanV); ok && cv.Obj == id {
					return g, -1
				}
			}
		case *ssa.Select:
			for i, st := range in.States {
				if st.Dir == types.RecvOnly {
					if cv, ok := e.peek(s, f, st.Chan).(ChanV); ok && cv.Obj == id {
						return g, i
					}
				}
			}
		}
	}
	return nil, 0
}

func (e *Exec) recvResult(in *ssa.UnOp, v Value, ok bool) Value {
	if in.CommaOk {
		return TupleV{v, Bool(ok)}
	}
	return v
}

func (e *Exec) execRecv(s *State, f *Frame, in *ssa.UnOp) stepResult {
	g := s.g()
	if g.handoff {
		g.handoff = false
		e.set(f, in, e.recvResult(in, g.handoffVal, true))
		g.handoffVal = nil
		f.ip++
		return stepResult{kind: kCont}
	}
	ch, id := e.chanObj(s, e.get(s, f, in.X))
	if ch == nil {
		return e.block(s)
	}
	if len(ch.Buf) > 0 {
		nc := *ch
		v := ch.Buf[0]
		nc.Buf = append([]Value(nil), ch.Buf[1:]...)
		s.heap[id] = &nc
		e.set(f, in, e.recvResult(in, v, true))
		f.ip++
		return stepResult{kind: kCont}
	}
	if ch.Closed {
		e.set(f, in, e.recvResult(in, zeroValue(ch.Elem), false))
		f.ip++
		return stepResult{kind: kCont}
	}
	if ch.Cap == 0 {
		if sg := e.findBlockedSender(s, id); sg != nil {
			sf := sg.top()
			sd := sf.block.Instrs[sf.ip].(*ssa.Send)
			v := e.get(s, sf, sd.X)
			sf.ip++
			sg.status = GRunnable
			e.set(f, in, e.recvResult(in, v, true))
			f.ip++
			return stepResult{kind: kCont}
		}
	}
	return e.block(s)
}

func (e *Exec) block(s *State) stepResult {
	s.g().status = GBlocked
	return stepResult{kind: kBlock}
}

func (e *Exec) execSend(s *State, f *Frame, in *ssa.Send) stepResult {
	ch, id := e.chanObj(s, e.get(s, f, in.Chan))
	if ch == nil {
		return e.block(s)
	}
	if ch.Closed {
		panic(goPanic{"send on closed channel"})
	}
	v := e.get(s, f, in.X)
	waiter, _ := e.findBlockedReceiver(s, id)
	if e.trySend(s, ch, id, v) {
		f.ip++
		if e.explore && waiter != nil {
			// a receiver became runnable: a visible scheduling point
			return stepResult{kind: kBlock}
		}
		return stepResult{kind: kCont}
	}
	return e.block(s)
}

// trySend performs a send if possible without blocking.
func (e *Exec) trySend(s *State, ch *ChanObj, id ObjID, v Value) bool {
	if len(ch.Buf) == 0 {
		// a receiver parked on this channel (plain receive or a select case) is
		// handed the value directly and its operation is complete -- also for
		// buffered channels: a parked select commits to the first case that
		// fires, it is not re-evaluated when the goroutine runs again
		if rg, caseIdx := e.findBlockedReceiver(s, id); rg != nil {
			e.completeRecv(s, rg, caseIdx, v)
			return true
		}
	}
	if len(ch.Buf) < ch.Cap {
		nc := *ch
		nc.Buf = append(append([]Value(nil), ch.Buf...), v)
		s.heap[id] = &nc
		return true
	}
	return false
}

// completeRecv finishes a blocked receiver's operation with value v.
func (e *Exec) completeRecv(s *State, rg *G, caseIdx int, v Value) {
	rf := rg.top()
	switch in := rf.block.Instrs[rf.ip].(type) {
	case *ssa.UnOp:
		e.set(rf, in, e.recvResult(in, v, true))
	case *ssa.Select:
		e.set(rf, in, e.selectResult(in, caseIdx, v, true))
	}
	rf.ip++
	rg.status = GRunnable
}

func (e *Exec) selectResult(in *ssa.Select, idx int, recv Value, ok bool) Value {
	tv := TupleV{BV(64, uint64(int64(idx))), Bool(ok)}
	for i, st := range in.States {
		if st.Dir == types.RecvOnly {
			et := under(st.Chan.Type()).(*types.Chan).Elem()
			if i == idx && recv != nil {
				tv = append(tv, recv)
			} else {
				tv = append(tv, zeroValue(et))
			}
		}
	}
	return tv
}

// selectReady lists the cases of a select that can proceed now.
func (e *Exec) selectReady(s *State, f *Frame, in *ssa.Select) []int {
	var ready []int
	for i, st := range in.States {
		ch, id := e.chanObj(s, e.get(s, f, st.Chan))
		if ch == nil {
			continue
		}
		if st.Dir == types.RecvOnly {
			if len(ch.Buf) > 0 || ch.Closed {
				ready = append(ready, i)
			} else if ch.Cap == 0 && e.findBlockedSender(s, id) != nil {
				ready = append(ready, i)
			}
		} else {
			if ch.Closed {
				ready = append(ready, i)
			} else if len(ch.Buf) < ch.Cap {
				ready = append(ready, i)
			} else if ch.Cap == 0 {
				if rg, _ := e.findBlockedReceiver(s, id); rg != nil {
					ready = append(ready, i)
				}
			}
		}
	}
	return ready
}

func (e *Exec) execSelect(s *State, f *Frame, in *ssa.Select) stepResult {
	ready := e.selectReady(s, f, in)
	if len(ready) == 0 {
		if !in.Blocking {
			e.set(f, in, e.selectResult(in, -1, nil, false))
			f.ip++
			return stepResult{kind: kCont}
		}
		return e.block(s)
	}
	do := func(st *State, idx int) {
		ff := st.g().top()
		c := in.States[idx]
		ch, id := e.chanObj(st, e.get(st, ff, c.Chan))
		if c.Dir == types.RecvOnly {
			if len(ch.Buf) > 0 {
				nc := *ch
				v := ch.Buf[0]
				nc.Buf = append([]Value(nil), ch.Buf[1:]...)
				st.heap[id] = &nc
				e.set(ff, in, e.selectResult(in, idx, v, true))
			} else if ch.Closed {
				e.set(ff, in, e.selectResult(in, idx, nil, false))
			} else {
				sg := e.findBlockedSender(st, id)
				sf := sg.top()
				sd := sf.block.Instrs[sf.ip].(*ssa.Send)
				v := e.get(st, sf, sd.X)
				sf.ip++
				sg.status = GRunnable
				e.set(ff, in, e.selectResult(in, idx, v, true))
			}
		} else {
			if ch.Closed {
				panic(goPanic{"send on closed channel (select)"})
			}
			v := e.get(st, ff, c.Send)
			if !e.trySend(st, ch, id, v) {
				panic("engine: select send case not ready")
			}
			e.set(ff, in, e.selectResult(in, idx, nil, false))
		}
		ff.ip++
	}
	if len(ready) == 1 {
		do(s, ready[0])
		return stepResult{kind: kCont}
	}
	// several ready cases: Go picks pseudo-randomly -> fork over all
	var forks []*State
	for k, idx := range ready {
		st := s
		if k < len(ready)-1 {
			st = s.clone()
			e.h.States++
		}
		st.sched = append(st.sched, fmt.Sprintf("select@%s:case%d", e.posOf(in), idx))
		do(st, idx)
		forks = append(forks, st)
	}
	return stepResult{kind: kForks, states: forks}
}

func (e *Exec) posOf(in ssa.Instruction) string {
	p := e.prog.Fset.Position(in.Pos())
	return fmt.Sprintf("%s:%d", shortFile(p.Filename), p.Line)
}

func (e *Exec) closeChan(s *State, v Value) {
	ch, id := e.chanObj(s, v)
	if ch == nil {
		panic(goPanic{"close of nil channel"})
	}
	if ch.Closed {
		panic(goPanic{"close of closed channel"})
	}
	nc := *ch
	nc.Closed = true
	s.heap[id] = &nc
	// every receiver parked on the channel completes now with (zero, false);
	// a parked select commits to this case
	if len(ch.Buf) == 0 {
		for {
			rg, caseIdx := e.findBlockedReceiver(s, id)
			if rg == nil {
				break
			}
			e.completeRecvClosed(s, rg, caseIdx, ch.Elem)
		}
	}
}

func (e *Exec) completeRecvClosed(s *State, rg *G, caseIdx int, elem types.Type) {
	rf := rg.top()
	switch in := rf.block.Instrs[rf.ip].(type) {
	case *ssa.UnOp:
		e.set(rf, in, e.recvResult(in, zeroValue(elem), false))
	case *ssa.Select:
		e.set(rf, in, e.selectResult(in, caseIdx, nil, false))
	}
	rf.ip++
	rg.status = GRunnable
}

// canRun: can a blocked goroutine make progress if scheduled now?
func (e *Exec) canRun(s *State, g *G) bool {
	if g.status == GRunnable {
		return true
	}
	if g.status == GDone || len(g.frames) == 0 {
		return false
	}
	if g.handoff {
		return true
	}
	if g.idleWait {
		return false
	}
	f := g.top()
	switch in := f.block.Instrs[f.ip].(type) {
	case *ssa.UnOp:
		ch, id := e.chanObj(s, e.get(s, f, in.X))
		if ch == nil {
			return false
		}
		return len(ch.Buf) > 0 || ch.Closed || (ch.Cap == 0 && e.findBlockedSender(s, id) != nil)
	case *ssa.Send:
		ch, id := e.chanObj(s, e.get(s, f, in.Chan))
		if ch == nil {
			return false
		}
		if ch.Closed || len(ch.Buf) < ch.Cap {
			return true
		}
		if ch.Cap == 0 {
			rg, _ := e.findBlockedReceiver(s, id)
			return rg != nil
		}
		return false
	case *ssa.Select:
		return len(e.selectReady(s, f, in)) > 0
	case *ssa.Call, *ssa.RunDefers, *ssa.Defer, *ssa.Go:
		// blocked inside an intrinsic (Mutex.Lock, WaitGroup.Wait, ...)
		return e.intrinsicReady(s, g)
	}
	return false
}

// schedule picks the next goroutine(s) to run after the current one blocked
// or finished. Returns successor states; empty = path over (deadlock or done).
func (e *Exec) schedule(s *State) []*State {
	var cands []int
	for i, g := range s.gs {
		if g.status != GDone && !g.idleWait && e.canRun(s, g) {
			cands = append(cands, i)
		}
	}
	if len(cands) == 0 {
		// quiescence: wake idle waiters
		for i, g := range s.gs {
			if g.status == GBlocked && g.idleWait {
				cands = append(cands, i)
			}
		}
		if len(cands) == 0 {
			e.h.deadlock(e, s)
			return nil
		}
		// lowest id idle waiter first (deterministic); exploring: all
		if !e.explore {
			cands = cands[:1]
		}
		var out []*State
		for k, gi := range cands {
			st := s
			if k < len(cands)-1 {
				st = s.clone()
				e.h.States++
			}
			g := st.gs[gi]
			g.idleWait = false
			g.status = GRunnable
			g.top().ip++ // past the zzWaitIdle call
			st.cur = gi
			out = append(out, st)
		}
		return out
	}
	if !e.explore || len(cands) == 1 {
		gi := cands[0]
		// prefer continuing round-robin after the current goroutine
		for _, c := range cands {
			if c > s.cur {
				gi = c
				break
			}
		}
		if !e.explore {
			gi = cands[0]
		}
		s.gs[gi].status = GRunnable
		s.cur = gi
		return []*State{s}
	}
	e.h.SchedForks++
	if e.h.SchedForks > e.h.schedBudget {
		// budget exhausted: continue with the first candidate only (recorded)
		e.h.SchedTruncated = true
		gi := cands[0]
		s.gs[gi].status = GRunnable
		s.cur = gi
		return []*State{s}
	}
	var out []*State
	for k, gi := range cands {
		st := s
		if k < len(cands)-1 {
			st = s.clone()
			e.h.States++
		}
		st.gs[gi].status = GRunnable
		st.cur = gi
		st.sched = append(st.sched, fmt.Sprintf("run:g%d(%s)", gi, shortName(st.gs[gi].name)))
		out = append(out, st)
	}
	return out
}

func shortName(n string) string {
	if len(n) > 40 {
		return n[len(n)-40:]
	}
	return n
}
