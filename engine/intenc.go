package main

// Integer (LIA/NIA) encoding of bit-vector queries with interval analysis.
//
// Bit-blasting 64-bit multiplication / division by 10^9 does not finish, and
// cvc5's automatic --solve-bv-as-int keeps a "mod 2^64" around every
// operation. Here every BV term t of width w is translated to an Int
// expression e with an interval [lo,hi] such that
//      value(e) ≡ bv(t)  (mod 2^w)   and   lo <= value(e) <= hi.
// add/sub/mul/neg/shl-by-constant stay un-normalised (no mod); operations
// that need a canonical value (comparisons, division, remainder, right
// shifts, extraction, equality) normalise to the unsigned or signed range,
// and the normalisation is dropped whenever the interval already fits.
// Variable ranges are read off the top-level conjuncts of the query itself
// (they are asserted, so using them is sound).
//
// Operations that have no arithmetic meaning (and/or/xor of two symbolic
// operands, shifts by symbolic amounts) make the translation fail; the query
// then goes to the bit-vector back ends.

import (
	"fmt"
	"math/big"
	"strings"
)

type ival struct {
	e      string
	lo, hi *big.Int
	tz     int // known zero low bits of the canonical unsigned value (0 = unknown)
}

type intEnc struct {
	sb      strings.Builder
	memo    map[int]*ival
	bmemo   map[int]string
	vlo     map[string]*big.Int
	vhi     map[string]*big.Int
	vars    map[string]*Term
	tloS, thiS map[int]*big.Int // signed-canonical bounds on arbitrary terms
	tloU, thiU map[int]*big.Int // unsigned-canonical bounds
	failed  string
	nameSeq int
	approx  bool     // some operation was over-approximated (sat answers are not trusted)
	side    []string // side constraints of over-approximated operations
}

var (
	bigZero = big.NewInt(0)
	bigOne  = big.NewInt(1)
)

func pow2(n int) *big.Int { return new(big.Int).Lsh(bigOne, uint(n)) }

func istr(b *big.Int) string {
	if b.Sign() < 0 {
		return "(- " + new(big.Int).Neg(b).String() + ")"
	}
	return b.String()
}

func bmin(a, b *big.Int) *big.Int {
	if a.Cmp(b) < 0 {
		return a
	}
	return b
}
func bmax(a, b *big.Int) *big.Int {
	if a.Cmp(b) > 0 {
		return a
	}
	return b
}

type encFail struct{ why string }

func (ie *intEnc) fail(why string) { panic(encFail{why}) }

// varSigned: representation chosen for a variable (signed canonical for
// 64/32-bit program integers, unsigned for everything else).
func varSigned(t *Term) bool {
	return t.W == 64 || t.W == 32
}

// collectRanges scans top-level conjuncts for var-vs-constant bounds.
func (ie *intEnc) collectRanges(asserts []*Term) {
	var visit func(t *Term, neg bool)
	setLo := func(v *Term, b *big.Int) {
		if cur, ok := ie.vlo[v.Name]; !ok || b.Cmp(cur) > 0 {
			ie.vlo[v.Name] = b
		}
	}
	setHi := func(v *Term, b *big.Int) {
		if cur, ok := ie.vhi[v.Name]; !ok || b.Cmp(cur) < 0 {
			ie.vhi[v.Name] = b
		}
	}
	sval := func(c *Term) *big.Int { // signed value of const
		v := new(big.Int).Set(c.bigVal())
		if v.Bit(c.W-1) == 1 {
			v.Sub(v, pow2(c.W))
		}
		return v
	}
	visit = func(t *Term, neg bool) {
		switch t.Op {
		case OpNot:
			visit(t.Args[0], !neg)
			return
		case OpAnd:
			if !neg {
				for _, a := range t.Args {
					visit(a, false)
				}
			}
			return
		case OpOr:
			if neg {
				for _, a := range t.Args {
					visit(a, true)
				}
			}
			return
		case OpSlt, OpSle, OpUlt, OpUle:
			a, b := t.Args[0], t.Args[1]
			signed := t.Op == OpSlt || t.Op == OpSle
			strict := t.Op == OpSlt || t.Op == OpUlt
			// normalise to: X (<|<=) Y ; negation: Y (<=|<) X
			if neg {
				a, b = b, a
				strict = !strict
			}
			if a.Op != OpVar && a.Op != OpConst && b.IsConst() {
				// bound on a compound term
				var c *big.Int
				if signed {
					c = sval(b)
				} else {
					c = new(big.Int).Set(b.bigVal())
				}
				if strict {
					c = new(big.Int).Sub(c, bigOne)
				}
				m := ie.thiU
				if signed {
					m = ie.thiS
				}
				if cur, ok := m[a.ID]; !ok || c.Cmp(cur) < 0 {
					m[a.ID] = c
				}
				return
			}
			if b.Op != OpVar && b.Op != OpConst && a.IsConst() {
				var c *big.Int
				if signed {
					c = sval(a)
				} else {
					c = new(big.Int).Set(a.bigVal())
				}
				if strict {
					c = new(big.Int).Add(c, bigOne)
				}
				m := ie.tloU
				if signed {
					m = ie.tloS
				}
				if cur, ok := m[b.ID]; !ok || c.Cmp(cur) > 0 {
					m[b.ID] = c
				}
				return
			}
			if a.Op == OpVar && b.IsConst() {
				if varSigned(a) != signed {
					// unsigned bound on a signed-represented var: x <=u H with H < 2^(w-1) => 0 <= x <= H
					if !signed {
						hi := new(big.Int).Set(b.bigVal())
						if strict {
							hi.Sub(hi, bigOne)
						}
						if hi.Sign() >= 0 && hi.Cmp(pow2(a.W-1)) < 0 {
							setHi(a, hi)
							setLo(a, new(big.Int))
						}
					}
					return
				}
				var c *big.Int
				if signed {
					c = sval(b)
				} else {
					c = new(big.Int).Set(b.bigVal())
				}
				if strict {
					c = new(big.Int).Sub(c, bigOne)
				}
				setHi(a, c)
			} else if b.Op == OpVar && a.IsConst() {
				if varSigned(b) != signed {
					return
				}
				var c *big.Int
				if signed {
					c = sval(a)
				} else {
					c = new(big.Int).Set(a.bigVal())
				}
				if strict {
					c = new(big.Int).Add(c, bigOne)
				}
				setLo(b, c)
			}
		case OpEq:
			if neg {
				return
			}
			a, b := t.Args[0], t.Args[1]
			if b.Op == OpVar {
				a, b = b, a
			}
			if a.Op == OpVar && a.W > 0 && b.IsConst() {
				var c *big.Int
				if varSigned(a) {
					c = sval(b)
				} else {
					c = new(big.Int).Set(b.bigVal())
				}
				setLo(a, c)
				setHi(a, c)
			}
		}
	}
	for _, a := range asserts {
		visit(a, false)
	}
}

func (ie *intEnc) define(sort, body string) string {
	ie.nameSeq++
	n := fmt.Sprintf("i%d", ie.nameSeq)
	fmt.Fprintf(&ie.sb, "(define-fun %s () %s %s)\n", n, sort, body)
	return n
}

func (ie *intEnc) mk(body string, lo, hi *big.Int) *ival {
	return &ival{e: ie.define("Int", body), lo: lo, hi: hi}
}

// normU: canonical unsigned value in [0, 2^w).
func (ie *intEnc) normU(a *ival, w int) *ival {
	m := pow2(w)
	mm1 := new(big.Int).Sub(m, bigOne)
	if a.lo.Sign() >= 0 && a.hi.Cmp(m) < 0 {
		return a
	}
	if a.lo.Cmp(new(big.Int).Neg(m)) >= 0 && a.hi.Cmp(m) < 0 {
		r := ie.mk(fmt.Sprintf("(ite (< %s 0) (+ %s %s) %s)", a.e, a.e, m, a.e), new(big.Int), mm1)
		if a.hi.Sign() < 0 {
			r.lo = new(big.Int).Add(a.lo, m)
			r.hi = new(big.Int).Add(a.hi, m)
		}
		r.tz = a.tz
		return r
	}
	if a.lo.Sign() >= 0 && a.hi.Cmp(new(big.Int).Lsh(m, 1)) < 0 {
		r := ie.mk(fmt.Sprintf("(ite (>= %s %s) (- %s %s) %s)", a.e, m, a.e, m, a.e), new(big.Int), mm1)
		r.tz = a.tz
		return r
	}
	r := ie.mk(fmt.Sprintf("(mod %s %s)", a.e, m), new(big.Int), mm1)
	r.tz = a.tz
	return r
}

// normS: canonical signed value in [-2^(w-1), 2^(w-1)).
func (ie *intEnc) normS(a *ival, w int) *ival {
	h := pow2(w - 1)
	m := pow2(w)
	nh := new(big.Int).Neg(h)
	hm1 := new(big.Int).Sub(h, bigOne)
	if a.lo.Cmp(nh) >= 0 && a.hi.Cmp(h) < 0 {
		return a
	}
	if a.lo.Sign() >= 0 && a.hi.Cmp(m) < 0 {
		if a.lo.Cmp(h) >= 0 {
			return ie.mk(fmt.Sprintf("(- %s %s)", a.e, m), new(big.Int).Sub(a.lo, m), new(big.Int).Sub(a.hi, m))
		}
		return ie.mk(fmt.Sprintf("(ite (>= %s %s) (- %s %s) %s)", a.e, h, a.e, m, a.e), nh, hm1)
	}
	return ie.mk(fmt.Sprintf("(- (mod (+ %s %s) %s) %s)", a.e, h, m, h), nh, hm1)
}

func (ie *intEnc) tr(t *Term) *ival {
	if t.W == 0 {
		panic("intEnc.tr on Bool")
	}
	if r, ok := ie.memo[t.ID]; ok {
		return r
	}
	r := ie.tr1(t)
	r = ie.clamp(t, r)
	// keep intervals from exploding
	if new(big.Int).Sub(r.hi, r.lo).BitLen() > 3*t.W+8 {
		r = ie.normU(r, t.W)
	}
	ie.memo[t.ID] = r
	return r
}

// clamp applies bounds asserted at top level on this very term.
func (ie *intEnc) clamp(t *Term, r *ival) *ival {
	lo, okl := ie.tloS[t.ID]
	hi, okh := ie.thiS[t.ID]
	if okl || okh {
		n := ie.normS(r, t.W)
		c := &ival{e: n.e, lo: n.lo, hi: n.hi, tz: n.tz}
		if okl && lo.Cmp(c.lo) > 0 {
			c.lo = lo
		}
		if okh && hi.Cmp(c.hi) < 0 {
			c.hi = hi
		}
		if c.lo.Cmp(c.hi) > 0 {
			c.hi = c.lo
		}
		r = c
	}
	lo, okl = ie.tloU[t.ID]
	hi, okh = ie.thiU[t.ID]
	if okl || okh {
		n := ie.normU(r, t.W)
		c := &ival{e: n.e, lo: n.lo, hi: n.hi, tz: n.tz}
		if okl && lo.Cmp(c.lo) > 0 {
			c.lo = lo
		}
		if okh && hi.Cmp(c.hi) < 0 {
			c.hi = hi
		}
		if c.lo.Cmp(c.hi) > 0 {
			c.hi = c.lo
		}
		r = c
	}
	return r
}

func (ie *intEnc) tr1(t *Term) *ival {
	w := t.W
	switch t.Op {
	case OpConst:
		v := new(big.Int).Set(t.bigVal())
		// represent "negative" constants of program-integer widths as negative ints
		if (w == 64 || w == 32) && v.Bit(w-1) == 1 {
			v.Sub(v, pow2(w))
		}
		tz := w
		if uv := t.bigVal(); uv.Sign() != 0 {
			tz = int(uv.TrailingZeroBits())
		}
		return &ival{e: istr(v), lo: v, hi: v, tz: tz}
	case OpVar:
		ie.vars[t.Name] = t
		var lo, hi *big.Int
		if varSigned(t) {
			lo, hi = new(big.Int).Neg(pow2(w-1)), new(big.Int).Sub(pow2(w-1), bigOne)
		} else {
			lo, hi = new(big.Int), new(big.Int).Sub(pow2(w), bigOne)
		}
		if b, ok := ie.vlo[t.Name]; ok && b.Cmp(lo) > 0 {
			lo = b
		}
		if b, ok := ie.vhi[t.Name]; ok && b.Cmp(hi) < 0 {
			hi = b
		}
		if lo.Cmp(hi) > 0 {
			hi = lo // contradictory bounds: query is unsat anyway
		}
		return &ival{e: t.ref(), lo: lo, hi: hi}
	case OpIte:
		c := ie.trb(t.Args[0])
		a, b := ie.tr(t.Args[1]), ie.tr(t.Args[2])
		// both branches must use congruent representatives that are *equal* as
		// bit-vectors only modulo 2^w; that is fine: result is congruent either way.
		r := ie.mk(fmt.Sprintf("(ite %s %s %s)", c, a.e, b.e), bmin(a.lo, b.lo), bmax(a.hi, b.hi))
		if a.tz < b.tz {
			r.tz = a.tz
		} else {
			r.tz = b.tz
		}
		return r
	case OpAdd:
		a, b := ie.tr(t.Args[0]), ie.tr(t.Args[1])
		r := ie.mk(fmt.Sprintf("(+ %s %s)", a.e, b.e), new(big.Int).Add(a.lo, b.lo), new(big.Int).Add(a.hi, b.hi))
		return r
	case OpSub:
		a, b := ie.tr(t.Args[0]), ie.tr(t.Args[1])
		return ie.mk(fmt.Sprintf("(- %s %s)", a.e, b.e), new(big.Int).Sub(a.lo, b.hi), new(big.Int).Sub(a.hi, b.lo))
	case OpNeg:
		a := ie.tr(t.Args[0])
		return ie.mk(fmt.Sprintf("(- %s)", a.e), new(big.Int).Neg(a.hi), new(big.Int).Neg(a.lo))
	case OpMul:
		a, b := ie.tr(t.Args[0]), ie.tr(t.Args[1])
		cs := []*big.Int{new(big.Int).Mul(a.lo, b.lo), new(big.Int).Mul(a.lo, b.hi), new(big.Int).Mul(a.hi, b.lo), new(big.Int).Mul(a.hi, b.hi)}
		lo, hi := cs[0], cs[0]
		for _, c := range cs[1:] {
			lo, hi = bmin(lo, c), bmax(hi, c)
		}
		return ie.mk(fmt.Sprintf("(* %s %s)", a.e, b.e), lo, hi)
	case OpUDiv, OpURem:
		a, b := ie.normU(ie.tr(t.Args[0]), w), ie.normU(ie.tr(t.Args[1]), w)
		if b.lo.Sign() > 0 {
			if t.Op == OpUDiv {
				return ie.mk(fmt.Sprintf("(div %s %s)", a.e, b.e), new(big.Int).Div(a.lo, b.hi), new(big.Int).Div(a.hi, b.lo))
			}
			hi := new(big.Int).Sub(b.hi, bigOne)
			return ie.mk(fmt.Sprintf("(mod %s %s)", a.e, b.e), new(big.Int), bmin(hi, a.hi))
		}
		if t.Op == OpUDiv {
			return ie.mk(fmt.Sprintf("(ite (= %s 0) %s (div %s %s))", b.e, new(big.Int).Sub(pow2(w), bigOne), a.e, b.e), new(big.Int), new(big.Int).Sub(pow2(w), bigOne))
		}
		return ie.mk(fmt.Sprintf("(ite (= %s 0) %s (mod %s %s))", b.e, a.e, a.e, b.e), new(big.Int), a.hi)
	case OpSDiv, OpSRem:
		a, b := ie.normS(ie.tr(t.Args[0]), w), ie.normS(ie.tr(t.Args[1]), w)
		if a.lo.Sign() >= 0 && b.lo.Sign() > 0 {
			if t.Op == OpSDiv {
				return ie.mk(fmt.Sprintf("(div %s %s)", a.e, b.e), new(big.Int).Div(a.lo, b.hi), new(big.Int).Div(a.hi, b.lo))
			}
			return ie.mk(fmt.Sprintf("(mod %s %s)", a.e, b.e), new(big.Int), bmin(new(big.Int).Sub(b.hi, bigOne), a.hi))
		}
		absA := ie.define("Int", fmt.Sprintf("(ite (< %s 0) (- %s) %s)", a.e, a.e, a.e))
		absB := ie.define("Int", fmt.Sprintf("(ite (< %s 0) (- %s) %s)", b.e, b.e, b.e))
		maxA := bmax(new(big.Int).Abs(a.lo), new(big.Int).Abs(a.hi))
		if t.Op == OpSDiv {
			q := ie.define("Int", fmt.Sprintf("(div %s %s)", absA, absB))
			body := fmt.Sprintf("(ite (= (< %s 0) (< %s 0)) %s (- %s))", a.e, b.e, q, q)
			if b.lo.Sign() <= 0 && b.hi.Sign() >= 0 {
				body = fmt.Sprintf("(ite (= %s 0) (ite (< %s 0) 1 (- 1)) %s)", b.e, a.e, body)
			}
			return ie.mk(body, new(big.Int).Neg(maxA), maxA)
		}
		r := ie.define("Int", fmt.Sprintf("(mod %s %s)", absA, absB))
		body := fmt.Sprintf("(ite (< %s 0) (- %s) %s)", a.e, r, r)
		if b.lo.Sign() <= 0 && b.hi.Sign() >= 0 {
			body = fmt.Sprintf("(ite (= %s 0) %s %s)", b.e, a.e, body)
		}
		return ie.mk(body, new(big.Int).Neg(maxA), maxA)
	case OpBAnd:
		a, b := t.Args[0], t.Args[1]
		if a.IsConst() {
			a, b = b, a
		}
		if b.IsConst() {
			cv := b.bigVal()
			// single-bit mask: test that bit (works through and/or/not/ite)
			if cv.Sign() > 0 && new(big.Int).And(cv, new(big.Int).Sub(cv, bigOne)).Sign() == 0 && cv.BitLen() > 1 {
				k := cv.BitLen() - 1
				bit := ie.bitOf(a, k)
				r := ie.mk(fmt.Sprintf("(ite %s %s 0)", bit, cv), new(big.Int), new(big.Int).Set(cv))
				r.tz = k
				return r
			}
			cp1 := new(big.Int).Add(cv, bigOne)
			if cp1.BitLen() > 0 && new(big.Int).And(cp1, cv).Sign() == 0 { // mask 2^k-1
				k := cp1.BitLen() - 1
				x := ie.normU(ie.tr(a), w)
				if x.hi.Cmp(cv) <= 0 {
					return x
				}
				return ie.mk(fmt.Sprintf("(mod %s %s)", x.e, cp1), new(big.Int), bmin(cv, x.hi))
				_ = k
			}
			// high mask: x & ~(2^k-1) = x - (x mod 2^k)
			inv := new(big.Int).Xor(cv, new(big.Int).Sub(pow2(w), bigOne))
			ip1 := new(big.Int).Add(inv, bigOne)
			if new(big.Int).And(ip1, inv).Sign() == 0 {
				x := ie.normU(ie.tr(a), w)
				r := ie.mk(fmt.Sprintf("(- %s (mod %s %s))", x.e, x.e, ip1), new(big.Int), x.hi)
				r.tz = ip1.BitLen() - 1
				return r
			}
		}
		return ie.approxBit("and", ie.normU(ie.tr(t.Args[0]), w), ie.normU(ie.tr(t.Args[1]), w), w)
	case OpBOr:
		{
			x, c := t.Args[0], t.Args[1]
			if x.IsConst() {
				x, c = c, x
			}
			if c.IsConst() {
				cv := c.bigVal()
				if cv.Sign() > 0 && new(big.Int).And(cv, new(big.Int).Sub(cv, bigOne)).Sign() == 0 {
					k := cv.BitLen() - 1
					a := ie.normU(ie.tr(x), w)
					if a.hi.Cmp(cv) < 0 {
						return ie.mk(fmt.Sprintf("(+ %s %s)", a.e, cv), new(big.Int).Add(a.lo, cv), new(big.Int).Add(a.hi, cv))
					}
					bit := ie.bitOf(x, k)
					return ie.mk(fmt.Sprintf("(ite %s %s (+ %s %s))", bit, a.e, a.e, cv), a.lo, bmin(new(big.Int).Add(a.hi, cv), new(big.Int).Sub(pow2(w), bigOne)))
				}
			}
		}
		a, b := ie.normU(ie.tr(t.Args[0]), w), ie.normU(ie.tr(t.Args[1]), w)
		if a.tz > 0 && b.hi.Cmp(pow2(a.tz)) < 0 {
			return ie.mk(fmt.Sprintf("(+ %s %s)", a.e, b.e), new(big.Int).Add(a.lo, b.lo), new(big.Int).Add(a.hi, b.hi))
		}
		if b.tz > 0 && a.hi.Cmp(pow2(b.tz)) < 0 {
			return ie.mk(fmt.Sprintf("(+ %s %s)", a.e, b.e), new(big.Int).Add(a.lo, b.lo), new(big.Int).Add(a.hi, b.hi))
		}
		return ie.approxBit("or", a, b, w)
	case OpBXor:
		return ie.approxBit("xor", ie.normU(ie.tr(t.Args[0]), w), ie.normU(ie.tr(t.Args[1]), w), w)
	case OpBNot:
		a := ie.normU(ie.tr(t.Args[0]), w)
		mm1 := new(big.Int).Sub(pow2(w), bigOne)
		return ie.mk(fmt.Sprintf("(- %s %s)", mm1, a.e), new(big.Int).Sub(mm1, a.hi), new(big.Int).Sub(mm1, a.lo))
	case OpShl:
		if !t.Args[1].IsConst() {
			ie.fail("shift by symbolic amount")
		}
		k := int(t.Args[1].bigVal().Int64())
		a := ie.tr(t.Args[0])
		p := pow2(k)
		lo, hi := new(big.Int).Mul(a.lo, p), new(big.Int).Mul(a.hi, p)
		r := ie.mk(fmt.Sprintf("(* %s %s)", a.e, p), lo, hi)
		// trailing zeros hold for the canonical value too (2^k divides, k < w)
		if k < w {
			r.tz = k
		}
		return r
	case OpLshr:
		if !t.Args[1].IsConst() {
			ie.fail("shift by symbolic amount")
		}
		k := int(t.Args[1].bigVal().Int64())
		a := ie.normU(ie.tr(t.Args[0]), w)
		p := pow2(k)
		return ie.mk(fmt.Sprintf("(div %s %s)", a.e, p), new(big.Int).Div(a.lo, p), new(big.Int).Div(a.hi, p))
	case OpAshr:
		if !t.Args[1].IsConst() {
			ie.fail("shift by symbolic amount")
		}
		k := int(t.Args[1].bigVal().Int64())
		if k >= w {
			k = w - 1
		}
		a := ie.normS(ie.tr(t.Args[0]), w)
		p := pow2(k)
		fl := func(x *big.Int) *big.Int { // floor division
			q := new(big.Int)
			m := new(big.Int)
			q.DivMod(x, p, m) // Euclidean: m >= 0 => q = floor
			return q
		}
		return ie.mk(fmt.Sprintf("(div %s %s)", a.e, p), fl(a.lo), fl(a.hi))
	case OpExtract:
		a := ie.normU(ie.tr(t.Args[0]), t.Args[0].W)
		e := a.e
		lo, hi := a.lo, a.hi
		if t.Lo > 0 {
			p := pow2(t.Lo)
			lo, hi = new(big.Int).Div(lo, p), new(big.Int).Div(hi, p)
			e = ie.define("Int", fmt.Sprintf("(div %s %s)", e, p))
		}
		m := pow2(t.Hi - t.Lo + 1)
		if hi.Cmp(m) < 0 {
			r := &ival{e: e, lo: lo, hi: hi}
			if t.Lo == 0 {
				r.tz = a.tz
			}
			return r
		}
		return ie.mk(fmt.Sprintf("(mod %s %s)", e, m), new(big.Int), new(big.Int).Sub(m, bigOne))
	case OpZext:
		return ie.normU(ie.tr(t.Args[0]), t.Args[0].W)
	case OpSext:
		return ie.normS(ie.tr(t.Args[0]), t.Args[0].W)
	case OpConcat:
		h, l := ie.normU(ie.tr(t.Args[0]), t.Args[0].W), ie.normU(ie.tr(t.Args[1]), t.Args[1].W)
		p := pow2(t.Args[1].W)
		return ie.mk(fmt.Sprintf("(+ (* %s %s) %s)", h.e, p, l.e), new(big.Int).Add(new(big.Int).Mul(h.lo, p), l.lo), new(big.Int).Add(new(big.Int).Mul(h.hi, p), l.hi))
	}
	ie.fail("op " + opSMT[t.Op])
	return nil
}

// approxBit over-approximates a bitwise operation on canonical operands by a
// fresh integer with the arithmetic facts that always hold. Proofs (unsat)
// under the over-approximation are sound; sat answers are not used.
func (ie *intEnc) approxBit(op string, a, b *ival, w int) *ival {
	ie.approx = true
	ie.nameSeq++
	n := fmt.Sprintf("bw%d", ie.nameSeq)
	fmt.Fprintf(&ie.sb, "(declare-const %s Int)\n", n)
	mm1 := new(big.Int).Sub(pow2(w), bigOne)
	switch op {
	case "or":
		ie.side = append(ie.side, fmt.Sprintf("(and (>= %s %s) (>= %s %s) (<= %s (+ %s %s)) (<= %s %s))", n, a.e, n, b.e, n, a.e, b.e, n, mm1))
		return &ival{e: n, lo: bmax(a.lo, b.lo), hi: bmin(new(big.Int).Add(a.hi, b.hi), mm1)}
	case "and":
		ie.side = append(ie.side, fmt.Sprintf("(and (>= %s 0) (<= %s %s) (<= %s %s))", n, n, a.e, n, b.e))
		return &ival{e: n, lo: new(big.Int), hi: bmin(a.hi, b.hi)}
	}
	ie.side = append(ie.side, fmt.Sprintf("(and (>= %s 0) (<= %s (+ %s %s)) (<= %s %s))", n, n, a.e, b.e, n, mm1))
	return &ival{e: n, lo: new(big.Int), hi: bmin(new(big.Int).Add(a.hi, b.hi), mm1)}
}

// bitOf: Bool expression for bit k of t.
func (ie *intEnc) bitOf(t *Term, k int) string {
	switch t.Op {
	case OpConst:
		if t.bigVal().Bit(k) == 1 {
			return "true"
		}
		return "false"
	case OpBAnd:
		return ie.define("Bool", fmt.Sprintf("(and %s %s)", ie.bitOf(t.Args[0], k), ie.bitOf(t.Args[1], k)))
	case OpBOr:
		return ie.define("Bool", fmt.Sprintf("(or %s %s)", ie.bitOf(t.Args[0], k), ie.bitOf(t.Args[1], k)))
	case OpBXor:
		return ie.define("Bool", fmt.Sprintf("(xor %s %s)", ie.bitOf(t.Args[0], k), ie.bitOf(t.Args[1], k)))
	case OpBNot:
		return ie.define("Bool", fmt.Sprintf("(not %s)", ie.bitOf(t.Args[0], k)))
	case OpIte:
		return ie.define("Bool", fmt.Sprintf("(ite %s %s %s)", ie.trb(t.Args[0]), ie.bitOf(t.Args[1], k), ie.bitOf(t.Args[2], k)))
	}
	x := ie.normU(ie.tr(t), t.W)
	p := pow2(k)
	if x.hi.Cmp(p) < 0 {
		return "false"
	}
	if k == t.W-1 {
		return ie.define("Bool", fmt.Sprintf("(>= %s %s)", x.e, p))
	}
	return ie.define("Bool", fmt.Sprintf("(= (mod (div %s %s) 2) 1)", x.e, p))
}

func (ie *intEnc) trb(t *Term) string {
	if t.W != 0 {
		panic("intEnc.trb on BV")
	}
	if r, ok := ie.bmemo[t.ID]; ok {
		return r
	}
	var r string
	switch t.Op {
	case OpConst:
		if t.Val == 1 {
			r = "true"
		} else {
			r = "false"
		}
	case OpVar:
		ie.vars[t.Name] = t
		r = t.ref()
	case OpNot:
		r = ie.define("Bool", "(not "+ie.trb(t.Args[0])+")")
	case OpAnd, OpOr:
		parts := make([]string, len(t.Args))
		for i, a := range t.Args {
			parts[i] = ie.trb(a)
		}
		r = ie.define("Bool", "("+opSMT[t.Op]+" "+strings.Join(parts, " ")+")")
	case OpIte:
		r = ie.define("Bool", fmt.Sprintf("(ite %s %s %s)", ie.trb(t.Args[0]), ie.trb(t.Args[1]), ie.trb(t.Args[2])))
	case OpEq:
		if t.Args[0].W == 0 {
			r = ie.define("Bool", fmt.Sprintf("(= %s %s)", ie.trb(t.Args[0]), ie.trb(t.Args[1])))
			break
		}
		w := t.Args[0].W
		a, b := ie.tr(t.Args[0]), ie.tr(t.Args[1])
		// a common window narrower than 2^w makes representatives unique
		lo, hi := bmin(a.lo, b.lo), bmax(a.hi, b.hi)
		if new(big.Int).Sub(hi, lo).Cmp(pow2(w)) >= 0 {
			a, b = ie.normU(a, w), ie.normU(b, w)
		}
		r = ie.define("Bool", fmt.Sprintf("(= %s %s)", a.e, b.e))
	case OpUlt, OpUle, OpSlt, OpSle:
		w := t.Args[0].W
		var a, b *ival
		if t.Op == OpUlt || t.Op == OpUle {
			a, b = ie.normU(ie.tr(t.Args[0]), w), ie.normU(ie.tr(t.Args[1]), w)
		} else {
			a, b = ie.normS(ie.tr(t.Args[0]), w), ie.normS(ie.tr(t.Args[1]), w)
		}
		op := "<"
		if t.Op == OpUle || t.Op == OpSle {
			op = "<="
		}
		r = ie.define("Bool", fmt.Sprintf("(%s %s %s)", op, a.e, b.e))
	default:
		ie.fail("bool op " + opSMT[t.Op])
	}
	ie.bmemo[t.ID] = r
	return r
}

// intEncode renders the query; ok=false when some operation has no integer
// translation.
func intEncode(asserts []*Term, vars []*Term) (text string, approx bool, ok bool, why string) {
	ie := &intEnc{memo: map[int]*ival{}, bmemo: map[int]string{}, vlo: map[string]*big.Int{}, vhi: map[string]*big.Int{}, vars: map[string]*Term{},
		tloS: map[int]*big.Int{}, thiS: map[int]*big.Int{}, tloU: map[int]*big.Int{}, thiU: map[int]*big.Int{}}
	defer func() {
		if r := recover(); r != nil {
			if f, isF := r.(encFail); isF {
				ok = false
				why = f.why
				return
			}
			panic(r)
		}
	}()
	ie.collectRanges(asserts)
	var tops []string
	for _, a := range asserts {
		tops = append(tops, ie.trb(a))
	}
	for _, v := range vars {
		if v.W == 0 {
			ie.trb(v)
		} else {
			ie.tr(v)
		}
	}
	var out strings.Builder
	for _, v := range ie.vars {
		if v.W == 0 {
			fmt.Fprintf(&out, "(declare-const %s Bool)\n", v.ref())
			continue
		}
		fmt.Fprintf(&out, "(declare-const %s Int)\n", v.ref())
		if varSigned(v) {
			fmt.Fprintf(&out, "(assert (and (<= %s %s) (< %s %s)))\n", istr(new(big.Int).Neg(pow2(v.W-1))), v.ref(), v.ref(), pow2(v.W-1))
		} else {
			fmt.Fprintf(&out, "(assert (and (<= 0 %s) (< %s %s)))\n", v.ref(), v.ref(), pow2(v.W))
		}
	}
	out.WriteString(ie.sb.String())
	for _, sc := range ie.side {
		fmt.Fprintf(&out, "(assert %s)\n", sc)
	}
	for _, t := range tops {
		fmt.Fprintf(&out, "(assert %s)\n", t)
	}
	return out.String(), ie.approx, true, ""
}

// debugIntEnc: given a model under which the integer encoding is satisfiable
// but the BV semantics is not, find the first sub-term whose integer
// translation evaluates differently (diagnostic only).
func debugIntEnc(pf *Portfolio, asserts []*Term, model map[string]*big.Int) string {
	var order []*Term
	seen := map[int]bool{}
	var visit func(t *Term)
	visit = func(t *Term) {
		if seen[t.ID] {
			return
		}
		seen[t.ID] = true
		for _, a := range t.Args {
			visit(a)
		}
		order = append(order, t)
	}
	for _, a := range asserts {
		visit(a)
	}
	memo := map[int]*Term{}
	var fix []*Term
	for _, t := range order {
		if t.Op == OpVar {
			v, ok := model[t.Name]
			if !ok {
				v = new(big.Int)
			}
			if t.W == 0 {
				if v.Sign() != 0 {
					fix = append(fix, t)
				} else {
					fix = append(fix, Not(t))
				}
			} else {
				fix = append(fix, Eq(t, BVBig(t.W, v)))
			}
		}
	}
	p := pf.getKey("z3new/int", "z3new")
	for _, t := range order {
		if t.Op == OpVar || t.Op == OpConst {
			continue
		}
		c := t.Eval(model, memo)
		var q *Term
		if t.W == 0 {
			q = Not(Eq(t, c))
		} else {
			q = Not(Eq(t, c))
		}
		as := append(append([]*Term(nil), fix...), q)
		txt, _, ok, why := intEncode(as, nil)
		if !ok {
			return "cannot encode: " + why
		}
		r := p.queryRaw(txt, nil, 10000, "dbg")
		if r.Status != Unsat {
			return fmt.Sprintf("term %s [%s w=%d] BV value %s but int encoding allows another (status %v)\nargs: %v", t.ref(), opSMT[t.Op], t.W, c.ref(), r.Status, func() []string {
				var o []string
				for _, a := range t.Args {
					o = append(o, a.ref()+"="+a.Eval(model, memo).ref()+fmt.Sprintf("(w%d)", a.W))
				}
				return o
			}())
		}
	}
	return "no differing sub-term found"
}
