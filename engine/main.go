package main

import (
	"encoding/json"
	"flag"
	"fmt"
	"os"
	"path/filepath"
	"runtime"
	"sort"
	"strconv"
	"strings"
	"sync"
	"time"

	"golang.org/x/tools/go/packages"
	"golang.org/x/tools/go/ssa"
	"golang.org/x/tools/go/ssa/ssautil"
)

var (
	verifDir = envOr("VERIF_DIR", "/verif")
	repoDir  = envOr("VERIF_REPO", "/repo")
	modPath  = "github.com/mdlayher/corerad"
)

func envOr(k, d string) string {
	if v := os.Getenv(k); v != "" {
		return v
	}
	return d
}

type KnownFinding struct {
	Property    string `json:"property"`
	Harness     string `json:"harness"`
	Obligation  string `json:"obligation"`
	Class       string `json:"class"`
	Status      string `json:"status"` // "known" or "fixed"
	Commit      string `json:"commit,omitempty"`
	Description string `json:"description"`
}

func loadKnown() []KnownFinding {
	b, err := os.ReadFile(filepath.Join(verifDir, "known_findings.json"))
	if err != nil {
		return nil
	}
	var out struct {
		Findings []KnownFinding `json:"findings"`
	}
	if err := json.Unmarshal(b, &out); err != nil {
		fmt.Fprintln(os.Stderr, "known_findings.json:", err)
		os.Exit(2)
	}
	return out.Findings
}

func main() {
	if len(os.Args) < 2 {
		fmt.Fprintln(os.Stderr, "usage: vcheck run <property|all> [--tier quick|thorough] [--harness NAME] | list | replay <file>")
		os.Exit(2)
	}
	switch os.Args[1] {
	case "run":
		os.Exit(cmdRun(os.Args[2:]))
	case "list":
		for _, h := range registry {
			fmt.Printf("%s %s %s tier=%s\n", h.Prop, h.Name, h.Pkg, h.Tier)
		}
	case "replay":
		os.Exit(cmdReplay(os.Args[2:]))
	default:
		fmt.Fprintln(os.Stderr, "unknown command", os.Args[1])
		os.Exit(2)
	}
}

// overlayFor builds the go/packages overlay: harness files + engine-side zz API.
func overlayFor(pkgs map[string]bool, native bool) (map[string][]byte, error) {
	ov := map[string][]byte{}
	api := "api_engine.go.txt"
	if native {
		api = "api_native.go.txt"
	}
	apiSrc, err := os.ReadFile(filepath.Join(verifDir, "harness", "zzapi", api))
	if err != nil {
		return nil, err
	}
	for p := range pkgs {
		if p == pkgMain {
			continue
		}
		rel := strings.TrimPrefix(strings.TrimPrefix(p, modPath), "/")
		hdir := filepath.Join(verifDir, "harness", rel)
		ents, err := os.ReadDir(hdir)
		if err != nil {
			return nil, fmt.Errorf("no harness dir for %s: %v", p, err)
		}
		pkgName := ""
		for _, en := range ents {
			n := en.Name()
			if !strings.HasSuffix(n, ".go") {
				continue
			}
			if native && strings.HasSuffix(n, "_engine.go") {
				continue
			}
			if !native && strings.HasSuffix(n, "_native.go") {
				continue
			}
			b, err := os.ReadFile(filepath.Join(hdir, n))
			if err != nil {
				return nil, err
			}
			ov[filepath.Join(repoDir, rel, n)] = b
			if pkgName == "" {
				for _, l := range strings.Split(string(b), "\n") {
					if strings.HasPrefix(l, "package ") {
						pkgName = strings.TrimSpace(strings.TrimPrefix(l, "package "))
						break
					}
				}
			}
		}
		if pkgName == "" {
			return nil, fmt.Errorf("no harness files in %s", hdir)
		}
		src := strings.Replace(string(apiSrc), "package PKGNAME", "package "+pkgName, 1)
		ov[filepath.Join(repoDir, rel, "zz_api_gen.go")] = []byte(src)
	}
	return ov, nil
}

type loaded struct {
	prog *ssa.Program
	pkgs map[string]*ssa.Package
}

// droppedHarnessFiles: harness files left out of the overlay because they do
// not compile against the current tree (file -> first error).
var droppedHarnessFiles = map[string]string{}

func loadProgram(pkgPaths map[string]bool) (*loaded, error) {
	ov, err := overlayFor(pkgPaths, false)
	if err != nil {
		return nil, err
	}
	var patterns []string
	for p := range pkgPaths {
		patterns = append(patterns, p)
	}
	sort.Strings(patterns)
	var initial []*packages.Package
	for attempt := 0; ; attempt++ {
		cfg := &packages.Config{
			Mode:    packages.LoadAllSyntax,
			Dir:     repoDir,
			Overlay: ov,
			Env:     append(os.Environ(), "GOFLAGS=-mod=mod", "GOPROXY=off", "GOSUMDB=off", "GOTOOLCHAIN=local", "CGO_ENABLED=0"),
			Tests:   false,
		}
		initial, err = packages.Load(cfg, patterns...)
		if err != nil {
			return nil, err
		}
		var errs []packages.Error
		packages.Visit(initial, nil, func(p *packages.Package) {
			errs = append(errs, p.Errors...)
		})
		if len(errs) == 0 {
			break
		}
		// A harness file that does not compile against this tree (it drives an
		// unexported function that a change renamed or re-shaped) must not take
		// the other harnesses of its package down: leave it out and load again;
		// its harnesses are reported inconclusive. Only files that hold nothing
		// but harness entry functions can be left out (stubs and shared helpers
		// live in zz_support*/zz_stubs* files, which every harness may need):
		// errors there, or outside harness files, are fatal.
		dropped := 0
		if attempt < 4 {
			for _, e := range errs {
				file := e.Pos
				if i := strings.Index(file, ":"); i >= 0 {
					file = file[:i]
				}
				base := filepath.Base(file)
				if _, inOverlay := ov[file]; inOverlay && strings.HasPrefix(base, "zz_") && !strings.HasPrefix(base, "zz_support") && !strings.HasPrefix(base, "zz_api") && !strings.HasPrefix(base, "zz_stubs") {
					if _, done := droppedHarnessFiles[file]; !done {
						droppedHarnessFiles[file] = e.Msg
						fmt.Fprintf(os.Stderr, "load: harness file %s does not compile against this tree (%s): left out\n", base, e.Msg)
					}
					delete(ov, file)
					dropped++
				}
			}
		}
		if dropped == 0 {
			for i, e := range errs {
				if i < 20 {
					fmt.Fprintln(os.Stderr, "load error:", e)
				}
			}
			return nil, fmt.Errorf("%d package load errors (does /repo build?)", len(errs))
		}
	}
	prog, _ := ssautil.AllPackages(initial, ssa.InstantiateGenerics)
	prog.Build()
	l := &loaded{prog: prog, pkgs: map[string]*ssa.Package{}}
	for _, p := range initial {
		l.pkgs[p.PkgPath] = prog.Package(p.Types)
	}
	return l, nil
}

func initAllowed(path string) bool {
	if strings.HasPrefix(path, modPath) {
		return true
	}
	switch path {
	case "github.com/mdlayher/ndp", "net/netip", "time", "errors", "context", "io", "io/fs",
		"strconv", "math/bits", "slices", "sort", "cmp", "encoding/binary",
		"golang.org/x/sync/errgroup", "golang.org/x/net/ipv6", "golang.org/x/net/internal/iana",
		"golang.org/x/net/icmp", "net", "net/url", "strings", "bytes", "unicode/utf8", "sync", "sync/atomic",
		"math", "math/rand", "golang.org/x/net/idna", "syscall", "os", "internal/oserror",
		"github.com/mdlayher/schedgroup", "github.com/mdlayher/metricslite", "container/heap",
		"internal/bytealg", "internal/itoa", "internal/stringslite", "unique", "fmt", "log",
		"github.com/jsimonetti/rtnetlink", "github.com/mdlayher/netlink", "golang.org/x/sys/unix",
		"github.com/mdlayher/sdnotify", "net/http", "encoding/json",
		"golang.org/x/text/unicode/norm", "golang.org/x/text/unicode/bidi", "golang.org/x/text/secure/bidirule", "unicode":
		return true
	}
	return false
}

// heavy packages whose initialisers are never executed even if whitelisted above
func initSkip(path string) bool {
	switch path {
	case "fmt", "log", "syscall", "net/http", "encoding/json", "golang.org/x/sys/unix",
		"github.com/mdlayher/netlink", "github.com/jsimonetti/rtnetlink", "net/url", "math/rand", "unique",
		"strings", "bytes", "github.com/mdlayher/sdnotify", "github.com/mdlayher/metricslite":
		return true
	}
	return false
}

// runInit executes the package initialiser of hpkg (and, recursively, of the
// whitelisted packages it imports) concretely.
func runInit(prog *ssa.Program, hpkg *ssa.Package) (*State, []string) {
	spec := &HarnessSpec{Name: "init", AllowPanic: true}
	h := newHarnessRun(spec, "quick")
	h.maxSteps = 50_000_000
	pf := NewPortfolio(h.Stats, 10000, false)
	defer pf.Close()
	e := &Exec{prog: prog, hpkg: hpkg, pf: pf, h: h, unwind: 1 << 30, initMode: true, noMerge: true}
	s := newState()
	s.gs = []*G{{id: 0, status: GRunnable, name: "init"}}
	s.initDone[hpkg.Pkg.Path()] = true
	initFn := hpkg.Func("init")
	e.pushFrame(s, initFn, nil, nil, nil)
	var final *State
	// run to completion, single path
	for {
		r := e.initStep(s)
		if r == kEnd {
			final = s
			break
		}
	}
	var notes []string
	for k, v := range h.EndKinds {
		notes = append(notes, fmt.Sprintf("%s=%d", k, v))
	}
	final.gs = nil
	final.steps = 0
	return final, notes
}

// initStep: one lenient step; failures poison the result and continue.
func (e *Exec) initStep(s *State) (kind stepKind) {
	g := s.g()
	if len(g.frames) == 0 {
		return kEnd
	}
	f := g.top()
	// intercept package initialisers that are not whitelisted
	if f.ip < len(f.block.Instrs) {
		if call, ok := f.block.Instrs[f.ip].(*ssa.Call); ok {
			if callee := call.Common().StaticCallee(); callee != nil && callee.Name() == "init" && callee.Pkg != nil && callee.Synthetic == "package initializer" {
				path := callee.Pkg.Pkg.Path()
				if !initAllowed(path) || initSkip(path) {
					e.set(f, call, TupleV{})
					f.ip++
					return kCont
				}
				s.initDone[path] = true
			}
		}
	}
	defer func() {
		if r := recover(); r != nil {
			switch r.(type) {
			case pathEnd:
				pe := r.(pathEnd)
				if pe.kind == "done" {
					kind = kEnd
					return
				}
				e.skipInstr(s)
				kind = kCont
			case goPanic, unsupportedErr:
				e.h.EndKinds["init-skip"]++
				if os.Getenv("VCHECK_INITDEBUG") != "" {
					fmt.Fprintf(os.Stderr, "init skip: %v at %s\n", r, e.where(s))
				}
				e.skipInstr(s)
				kind = kCont
			default:
				if _, isStr := r.(string); isStr {
					e.h.EndKinds["init-skip"]++
					if os.Getenv("VCHECK_INITDEBUG") != "" {
						fmt.Fprintf(os.Stderr, "init skip (engine): %v at %s\n", r, e.where(s))
					}
					e.skipInstr(s)
					kind = kCont
					return
				}
				fmt.Fprintf(os.Stderr, "engine panic during init at %s\n", e.where(s))
				panic(r)
			}
		}
	}()
	s.steps++
	r := e.step(s)
	switch r.kind {
	case kCont, kCall:
		return kCont
	case kEnd:
		return kEnd
	case kBlock:
		if len(s.gs[0].frames) == 0 {
			return kEnd
		}
		panic("engine: init blocked")
	default:
		panic("engine: init forked")
	}
}

func (e *Exec) skipInstr(s *State) {
	g := s.g()
	if len(g.frames) == 0 {
		return
	}
	f := g.top()
	if f.ip >= len(f.block.Instrs) {
		return
	}
	in := f.block.Instrs[f.ip]
	if v, ok := in.(ssa.Value); ok {
		e.set(f, v, poisonFor(v.Type(), "init: "+in.String()))
	}
	switch in.(type) {
	case *ssa.If, *ssa.Jump, *ssa.Return, *ssa.Panic:
		// cannot continue this function: return poison to the caller
		g.frames = g.frames[:len(g.frames)-1]
		if len(g.frames) > 0 && f.retTo != nil {
			e.set(g.top(), f.retTo, poisonFor(f.retTo.Type(), "init: aborted "+f.fn.String()))
		}
		return
	}
	f.ip++
}

type runResult struct {
	h *HarnessRun
}

func cmdRun(args []string) int {
	fs := flag.NewFlagSet("run", flag.ExitOnError)
	tier := fs.String("tier", envOr("VERIF_TIER", "quick"), "quick|thorough")
	only := fs.String("harness", "", "run only this harness")
	verbose := fs.Bool("v", false, "verbose")
	noEvidence := fs.Bool("no-evidence", false, "do not write evidence")
	jobs := fs.Int("j", runtime.NumCPU()/2, "parallel harnesses")
	trace := fs.Bool("trace", false, "trace instructions")
	var prop string
	if len(args) > 0 && !strings.HasPrefix(args[0], "-") {
		prop = args[0]
		args = args[1:]
	}
	fs.Parse(args)
	debugTrace = *trace
	if prop == "" {
		fmt.Fprintln(os.Stderr, "property id required")
		return 2
	}
	seed, _ := strconv.Atoi(envOr("VERIF_SEED", "0"))
	start := time.Now()
	var specs []*HarnessSpec
	for _, h := range registry {
		if prop != "all" && h.Prop != prop {
			continue
		}
		if *only != "" && h.Name != *only {
			continue
		}
		if h.Tier == "thorough" && *tier != "thorough" {
			continue
		}
		specs = append(specs, h)
	}
	if len(specs) == 0 {
		fmt.Fprintf(os.Stderr, "no harness registered for %s\n", prop)
		return 2
	}
	pkgSet := map[string]bool{}
	hpkgSet := map[string]bool{}
	for _, sp := range specs {
		if sp.Structural != "" {
			pkgSet[pkgMain] = true
			continue
		}
		pkgSet[sp.Pkg] = true
		hpkgSet[sp.Pkg] = true
		for _, x := range sp.Extra {
			pkgSet[x] = true
		}
	}
	ld, err := loadProgram(pkgSet)
	if err != nil {
		fmt.Fprintln(os.Stderr, "load:", err)
		return 2
	}
	loadT := time.Since(start)
	// package initialisers, once per harness package
	bases := map[string]*State{}
	for p := range hpkgSet {
		hp := ld.pkgs[p]
		if hp == nil {
			fmt.Fprintln(os.Stderr, "package not loaded:", p)
			return 2
		}
		st, notes := runInit(ld.prog, hp)
		bases[p] = st
		if *verbose {
			fmt.Printf("init %s: heap=%d %v\n", p, len(st.heap), notes)
		}
	}
	known := loadKnown()
	if *verbose {
		fmt.Printf("loaded in %.1fs, init done at %.1fs\n", loadT.Seconds(), time.Since(start).Seconds())
	}
	runs := make([]*HarnessRun, len(specs))
	sem := make(chan struct{}, max(1, *jobs))
	var wg sync.WaitGroup
	for i, sp := range specs {
		wg.Add(1)
		go func(i int, sp *HarnessSpec) {
			defer wg.Done()
			sem <- struct{}{}
			defer func() { <-sem }()
			h := newHarnessRun(sp, *tier)
			h.params = paramsFor(sp, *tier)
			if sp.Structural != "" {
				t0 := time.Now()
				for _, r := range structuralChecks(ld.prog, sp.Structural) {
					if r.Unknown {
						// not a shape the scan understands: skipped (supporting
						// evidence only), stated in the evidence file
						h.Samples = append(h.Samples, map[string]string{"structural-skipped": r.ID, "detail": r.Detail})
						fmt.Printf("NOTE structural obligation %s skipped: %s\n", r.ID, r.Detail)
						continue
					}
					h.Obligations++
					h.ObligationIDs[r.ID]++
					if r.OK {
						h.Discharged++
						h.DischargedIDs[r.ID]++
					} else {
						h.Cex = append(h.Cex, &Counterexample{Harness: sp.Name, Obligation: r.ID, Kind: "structural", Where: r.Detail, Model: map[string]string{"detail": r.Detail}, Replayed: "no-replay-needed"})
					}
					h.Samples = append(h.Samples, map[string]string{"structural": r.ID, "detail": r.Detail})
				}
				h.PathsDone, h.States = 1, 1
				h.Wall = time.Since(t0).Seconds()
				runs[i] = h
				return
			}
			h.run(ld.prog, ld.pkgs[sp.Pkg], bases[sp.Pkg], *tier, known)
			runs[i] = h
			if *verbose {
				fmt.Printf("  %-28s %6.1fs states=%d merges=%d oblig=%d/%d paths=%d ends=%v cex=%d incon=%d\n", sp.Name, h.Wall, h.States, h.Merges, h.Discharged, h.Obligations, h.Paths, h.EndKinds, len(h.Cex), len(h.Incon))
				fmt.Printf("    solver: queries=%v time=%v raced=%d intenc-fail=%d %v\n", h.Stats.Queries, roundMap(h.Stats.Time), h.Stats.Raced, h.Stats.IntEncFail, h.Stats.IntEncWhy)
			}
		}(i, sp)
	}
	wg.Wait()
	return report(prop, *tier, seed, runs, known, start, !*noEvidence, *verbose)
}

func paramsFor(sp *HarnessSpec, tier string) map[string]int {
	out := map[string]int{}
	for k, v := range sp.Params {
		if strings.HasSuffix(k, "@thorough") {
			continue
		}
		out[k] = v
	}
	if tier == "thorough" {
		for k, v := range sp.Params {
			if strings.HasSuffix(k, "@thorough") {
				out[strings.TrimSuffix(k, "@thorough")] = v
			}
		}
	}
	return out
}

func harnessDirHasFiles(pkg string) bool {
	rel := strings.TrimPrefix(strings.TrimPrefix(pkg, modPath), "/")
	ents, err := os.ReadDir(filepath.Join(verifDir, "harness", rel))
	if err != nil {
		return false
	}
	for _, en := range ents {
		if strings.HasSuffix(en.Name(), ".go") {
			return true
		}
	}
	return false
}
