package main

// Lock-discipline ("guarded by") obligations. A harness declares with
// zzGuardedBy(&x.field, &x.mu, name) that everything reachable from the
// location is protected by the mutex. From then on every load/store of the
// location (or of slice backing arrays reachable from it) and every map
// read/update/range of a map reachable from it, executed by non-harness code,
// must happen while the mutex is held (write accesses: exclusively). The
// cooperative scheduler cannot observe a data race directly; this obligation is
// the lockset formulation of "safe under concurrency" and it is decided on
// every explored path and schedule. A violation is replayed natively under the
// Go race detector.

import (
	"go/token"
	"go/types"
	"strings"

	"golang.org/x/tools/go/ssa"
)

type guard struct {
	name string
	root PtrV
	mu   PtrV
	rw   bool
	wOff string // path of the writer word
	rOff string // path of the reader count (rw only)

	atomicOnly bool // no mutex in the owner: every access must go through sync/atomic
}

// zzGuardedIn(&x.field, x, name): like zzGuardedBy, but the mutex is looked up
// in the owner struct (its first sync.Mutex / sync.RWMutex field), so that the
// harness does not depend on how the implementation names or chooses its
// lock. An owner without a mutex must access the location through sync/atomic
// only.
func inGuardedIn(e *Exec, s *State, f *Frame, fn *ssa.Function, args []Value, result ssa.Value) (stepResult, bool) {
	root := args[0].(IfaceV)
	owner := args[1].(IfaceV)
	name := args[2].(StrV).C
	g := guard{name: name, root: root.V.(PtrV)}
	op := owner.V.(PtrV)
	st, ok := under(under(owner.T).(*types.Pointer).Elem()).(*types.Struct)
	if !ok {
		panic(unsupported("zzGuardedIn: owner is not a pointer to a struct"))
	}
	found := false
	for i := 0; i < st.NumFields() && !found; i++ {
		ft := st.Field(i).Type()
		switch ft.String() {
		case "sync.RWMutex":
			g.rw = true
			g.mu = PtrV{op.Obj, pathAppend(op.Path, i)}
			g.wOff = fieldPathByName(ft, "w", "state")
			g.rOff = fieldPathByName(ft, "readerCount", "v")
			found = true
		case "sync.Mutex":
			g.mu = PtrV{op.Obj, pathAppend(op.Path, i)}
			g.wOff = fieldPathByName(ft, "state")
			found = true
		}
	}
	if !found {
		g.atomicOnly = true
	}
	s.guards = append(append([]guard(nil), s.guards...), g)
	return e.ret(f, result, TupleV{})
}

func inGuardedBy(e *Exec, s *State, f *Frame, fn *ssa.Function, args []Value, result ssa.Value) (stepResult, bool) {
	root := args[0].(IfaceV)
	mu := args[1].(IfaceV)
	name := args[2].(StrV).C
	g := guard{name: name, root: root.V.(PtrV), mu: mu.V.(PtrV)}
	mt := under(mu.T).(*types.Pointer).Elem()
	switch mt.String() {
	case "sync.RWMutex":
		g.rw = true
		g.wOff = fieldPathByName(mt, "w", "state")
		g.rOff = fieldPathByName(mt, "readerCount", "v")
	case "sync.Mutex":
		g.wOff = fieldPathByName(mt, "state")
	default:
		panic(unsupported("zzGuardedBy: mutex type " + mt.String()))
	}
	s.guards = append(append([]guard(nil), s.guards...), g)
	return e.ret(f, result, TupleV{})
}

func harnessCode(fn *ssa.Function) bool {
	for fn != nil {
		if strings.HasPrefix(fn.Name(), "zz") || strings.HasPrefix(fn.Name(), "ZZ") {
			return true
		}
		fn = fn.Parent()
	}
	return false
}

// reachable objects (maps and slice backing arrays) from the guarded location
func (s *State) guardReach(g guard) map[ObjID]bool {
	out := map[ObjID]bool{}
	var walk func(v Value, depth int)
	walk = func(v Value, depth int) {
		if depth > 4 {
			return
		}
		switch x := v.(type) {
		case MapV:
			if x.Obj == 0 || out[x.Obj] {
				return
			}
			out[x.Obj] = true
			if m, ok := s.heap[x.Obj].(*MapObj); ok {
				for _, en := range m.Entries {
					walk(en.V, depth+1)
				}
			}
		case SliceV:
			if x.Obj != 0 {
				out[x.Obj] = true
			}
		case StructV:
			for _, fv := range x {
				walk(fv, depth+1)
			}
		}
	}
	walk(s.load(g.root), 0)
	return out
}

func (e *Exec) guardAccess(s *State, f *Frame, obj ObjID, p *PtrV, write bool) {
	if len(s.guards) == 0 || e.initMode || harnessCode(f.fn) {
		return
	}
	for _, g := range s.guards {
		hit := false
		if p != nil && p.Obj == g.root.Obj && strings.HasPrefix(p.Path, g.root.Path) {
			hit = true
		}
		if !hit {
			id := obj
			if p != nil {
				id = p.Obj
			}
			if id != 0 && id != g.root.Obj && s.guardReach(g)[id] {
				hit = true
			}
		}
		if !hit {
			continue
		}
		held := false
		if !g.atomicOnly {
			held = e.loadInt(s, sub(g.mu, g.wOff)) != 0
			if !held && g.rw && !write {
				held = e.loadInt(s, sub(g.mu, g.rOff)) > 0
			}
		}
		kind := "read"
		if write {
			kind = "write"
		}
		id := "guarded-by/" + g.name
		if held {
			e.h.Obligations++
			e.h.ObligationIDs[id]++
			e.h.Discharged++
			e.h.DischargedIDs[id]++
			continue
		}
		if e.h.cexSeen[id+"|lock-discipline"] {
			// one counterexample per guard is replayed; later unguarded accesses
			// are counted (undischarged) and the path continues
			e.h.Obligations++
			e.h.ObligationIDs[id]++
			continue
		}
		how := "without holding its mutex"
		if g.atomicOnly {
			how = "not through sync/atomic (its owner has no mutex)"
		}
		e.h.obligationAt(e, s, False, id, "lock-discipline", kind+" of "+g.name+" "+how+" at "+e.where(s)+" in "+f.fn.String())
	}
}

var _ = token.MUL
