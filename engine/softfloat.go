package main

// Exact integer encodings of the float64 computations corerad performs.
//
// (1) intN(c * float64(x)) for a float constant c > 0 and an integer term x:
//     float64(x) is exact when |x| < 2^53 (checked by a solver query, else
//     unsupported). c = m * 2^e with m a 53-bit integer. The exact product
//     P = m*|x| is rounded to nearest-even at 53 bits by a case split over the
//     bit length of P, then scaled by 2^e and truncated toward zero.
//
// (2) intN(d.Seconds()) -- "SecondsOf" contract (DESIGN §2.6): for
//     |d| < 2^23 s the truncation is exactly d/1e9; above that (any int64
//     duration) it is d/1e9 or d/1e9+1 (the latter only when d%1e9 != 0).
//     The contract is validated against the SSA body of time.Duration.Seconds
//     by the "contract" harness (FloatingPoint theory).
//
// (3) intN(math.Round(d.Seconds()/8)): division by a power of two is exact;
//     round-half-away on [sec, sec+1) equals (sec+4)/8 (see DESIGN).
//
// Out-of-range float->int conversions follow amd64 behaviour for the widths
// used (convert to int64, then truncate), which is what the real build does;
// this is recorded as an assumption.

import (
	"fmt"
	"sync"
	"go/token"
	"math"
	"math/big"
)

func (e *Exec) softFloatCmp(s *State, op token.Token, a, b FloatV) *Term {
	panic(unsupported("comparison of symbolic floats"))
}

func absTerm(x *Term) (*Term, *Term) {
	neg := Cmp(OpSlt, x, BV(x.W, 0))
	return Ite(neg, Neg(x), x), neg
}

// bitBound finds (by binary search over solver queries) the smallest k such
// that pc => |x| < 2^k (k <= 53; -1 if none) and the largest j such that
// pc => |x| >= 2^j (j >= 0; -1 if x may be 0).
func (e *Exec) bitBound(s *State, ax *Term) (int, int) {
	if e.feasible(s, Cmp(OpUle, BV(64, 1<<53), ax)) {
		return -1, -1
	}
	lo, hi := 1, 53 // invariant: bound holds for hi
	for lo < hi {
		mid := (lo + hi) / 2
		if e.feasible(s, Cmp(OpUle, BV(64, 1<<uint(mid)), ax)) {
			lo = mid + 1
		} else {
			hi = mid
		}
	}
	k := hi
	// lower bound
	if e.feasible(s, Eq(ax, BV(64, 0))) {
		return k, -1
	}
	l, h := 0, k-1 // invariant: |x| >= 2^l always holds
	for l < h {
		mid := (l + h + 1) / 2
		if e.feasible(s, Cmp(OpUlt, ax, BV(64, 1<<uint(mid)))) {
			h = mid - 1
		} else {
			l = mid
		}
	}
	return k, l
}

func (e *Exec) softFloatToInt(s *State, fs *FloatSym, w int, signed bool) Value {
	switch fs.Kind {
	case "int":
		ax, neg := absTerm(fs.Int)
		k, j := e.bitBound(s, ax)
		if k < 0 {
			panic(unsupported("float64(x) with |x| possibly >= 2^53"))
		}
		if len(fs.Ops) == 0 {
			return narrow(fs.Int, w)
		}
		if len(fs.Ops) == 1 && fs.Ops[0].Op == "mul" && fs.Ops[0].C > 0 {
			r := mulConstTrunc(ax, k, j, fs.Ops[0].C)
			return narrow(Ite(neg, Neg(r), r), w)
		}
	case "secs":
		d := fs.Int
		ad, neg := absTerm(d)
		// regime bounds
		lim1 := BV(64, uint64(1<<23)*1000000000)
		lim2 := uint64(1<<33) * 1000000000
		// Every int64 duration is covered: sec <= 9.3e9 < 2^53 is exact as a
		// float, frac' = RN(nsec/1e9) < 1, and rounding is monotone, so
		// RN(sec+frac') lies in [sec, sec+1]; it equals sec when nsec == 0, and
		// below 2^23 s the spacing of floats (<= 2^-30) is finer than 1e-9, so
		// the sum stays below sec+1.
		_ = lim2
		pick := func(exact *Term) Value {
			return narrow(exact, w)
		}
		sec := BinBV(OpUDiv, ad, BV(64, 1000000000))
		rem := BinBV(OpURem, ad, BV(64, 1000000000))
		e.h.noteAssumption("SecondsOf: trunc(d.Seconds()) == d/1e9 + [d/1e9 in [2^k,2^(k+1)) and d%1e9 >= N_k], thresholds N_k (k=24..33) computed from the float64 arithmetic of this machine at start-up and cross-checked on sampled values")
		// exact: the float sum rounds up to sec+1 only in the binades where the
		// spacing of float64 exceeds 2e-9, and only above a per-binade
		// threshold on the nanosecond part (secondsThresholds)
		slack := False
		for _, th := range secondsThresholds() {
			lo := BV(64, uint64(1)<<uint(th.k))
			in := Cmp(OpUle, lo, sec)
			if th.k < 63 {
				in = And(in, Cmp(OpUlt, sec, BV(64, uint64(1)<<uint(th.k+1))))
			}
			slack = Or(slack, And(in, Cmp(OpUle, BV(64, uint64(th.n)), rem)))
		}
		_ = lim1
		secp := BinBV(OpAdd, sec, BoolToBV(slack, 64))
		if len(fs.Ops) == 0 {
			return pick(Ite(neg, Neg(secp), secp))
		}
		if len(fs.Ops) == 2 && fs.Ops[0].Op == "div" && fs.Ops[1].Op == "round" {
			c := fs.Ops[0].C
			if c > 1 && c <= 1<<20 && math.Trunc(c) == c && (uint64(c)&(uint64(c)-1)) == 0 {
				half := uint64(c) / 2
				r := BinBV(OpUDiv, BinBV(OpAdd, secp, BV(64, half)), BV(64, uint64(c)))
				return pick(Ite(neg, Neg(r), r))
			}
		}
	}
	panic(unsupported(fmt.Sprintf("float->int of %s with ops %v", fs.Kind, fs.Ops)))
}

func narrow(x *Term, w int) *Term {
	if w >= x.W {
		return Sext(x, w)
	}
	return Extract(w-1, 0, x)
}

// mulConstTrunc returns trunc(RN(c * x)) as a 64-bit term for 0 <= x < 2^k.
func mulConstTrunc(x *Term, k, j int, c float64) *Term {
	fr, ex := math.Frexp(c) // c = fr * 2^ex, fr in [0.5,1)
	m := uint64(math.Ldexp(fr, 53))
	e2 := ex - 53 // c = m * 2^e2
	// drop trailing zeros of m
	for m&1 == 0 {
		m >>= 1
		e2++
	}
	mb := new(big.Int).SetUint64(m)
	mbits := mb.BitLen()
	W := k + mbits + 2
	X := Zext(Extract(k-1, 0, x), W)
	P := BinBV(OpMul, X, BVBig(W, mb))
	pow := func(n int) *Term { return BVBig(W, new(big.Int).Lsh(big.NewInt(1), uint(n))) }
	// result for P == 0
	var res *Term = BV(64, 0)
	scale := func(q *Term, sh int) *Term {
		// q * 2^sh truncated toward zero, as 64-bit
		if sh >= 0 {
			if sh >= 64 {
				return BV(64, 0) // out of range; excluded by callers' ranges
			}
			v := BinBV(OpShl, q, BV(W, uint64(sh)))
			return narrowU(v, 64)
		}
		if -sh >= W {
			return BV(64, 0)
		}
		v := BinBV(OpLshr, q, BV(W, uint64(-sh)))
		return narrowU(v, 64)
	}
	minL := 1
	if j >= 0 {
		minL = j + mbits - 1 // P >= 2^j * 2^(mbits-1)
		if minL < 1 {
			minL = 1
		}
	}
	for L := k + mbits; L >= minL; L-- {
		inL := And(Cmp(OpUle, pow(L-1), P), Cmp(OpUlt, P, pow(L)))
		var val *Term
		if L <= 53 {
			val = scale(P, e2)
		} else {
			sh := L - 53
			q := BinBV(OpLshr, P, BV(W, uint64(sh)))
			r := BinBV(OpBAnd, P, BVBig(W, new(big.Int).Sub(new(big.Int).Lsh(big.NewInt(1), uint(sh)), big.NewInt(1))))
			half := pow(sh - 1)
			odd := Eq(Extract(0, 0, q), BV(1, 1))
			up := Or(Cmp(OpUlt, half, r), And(Eq(r, half), odd))
			q2 := BinBV(OpAdd, q, BoolToBV(up, W))
			val = scale(q2, sh+e2)
		}
		res = Ite(inL, val, res)
	}
	return res
}

func narrowU(x *Term, w int) *Term {
	if x.W >= w {
		return Extract(w-1, 0, x)
	}
	return Zext(x, w)
}

type secThreshold struct {
	k int
	n int64
}

var secThr []secThreshold
var secThrOnce sync.Once

// secondsOfNative is the body of time.Duration.Seconds followed by truncation.
func secondsOfNative(sec, nsec int64) int64 {
	return int64(float64(sec) + float64(nsec)/1e9)
}

// secondsThresholds: for every binade [2^k, 2^(k+1)) of whole seconds that an
// int64 duration can reach, the smallest nanosecond part for which
// float64(sec)+float64(nsec)/1e9 rounds up to sec+1 (none below 2^24 s). The
// threshold is independent of sec within the binade (the addend is the same
// and the float spacing is constant); this is cross-checked on the binade's
// end points and on pseudo-random seconds, and the engine refuses to run if a
// check fails.
func secondsThresholds() []secThreshold {
	secThrOnce.Do(func() {
		for k := 0; k <= 33; k++ {
			lo := int64(1) << uint(k)
			hi := int64(1)<<uint(k+1) - 1
			if hi > math.MaxInt64/1000000000 {
				hi = math.MaxInt64 / 1000000000
			}
			if lo > hi {
				break
			}
			if secondsOfNative(lo, 999999999) == lo {
				// never rounds up in this binade
				if secondsOfNative(hi, 999999999) != hi {
					panic("engine: Seconds threshold not uniform in binade")
				}
				continue
			}
			a, b := int64(0), int64(999999999) // smallest n with round-up
			for a < b {
				mid := (a + b) / 2
				if secondsOfNative(lo, mid) == lo+1 {
					b = mid
				} else {
					a = mid + 1
				}
			}
			n := a
			x := uint64(88172645463325252)
			secs := []int64{lo, hi, lo + 1, hi - 1}
			for i := 0; i < 2000; i++ {
				x ^= x << 13
				x ^= x >> 7
				x ^= x << 17
				secs = append(secs, lo+int64(x%uint64(hi-lo+1)))
			}
			for _, sc := range secs {
				if sc < lo || sc > hi {
					continue
				}
				for _, ns := range []int64{0, 1, n - 2, n - 1, n, n + 1, 999999998, 999999999} {
					if ns < 0 || ns > 999999999 {
						continue
					}
					want := sc
					if ns >= n {
						want++
					}
					if secondsOfNative(sc, ns) != want {
						panic(fmt.Sprintf("engine: Seconds threshold model wrong at sec=%d nsec=%d", sc, ns))
					}
				}
			}
			secThr = append(secThr, secThreshold{k, n})
		}
	})
	return secThr
}
