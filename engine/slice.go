package main

// Constraint independence: a query only needs the conjuncts of the path
// condition that are connected (through shared variables) to the formula being
// decided. The remaining conjuncts are checked separately only when the
// relevant part is satisfiable (so that an infeasible path is never reported
// as a counterexample).

import (
	"sort"
	"sync"
)

var varsCache sync.Map // term ID -> []int (sorted IDs of variables)

func termVars(t *Term) []int {
	if t.Op == OpConst {
		return nil
	}
	if v, ok := varsCache.Load(t.ID); ok {
		return v.([]int)
	}
	var out []int
	if t.Op == OpVar {
		out = []int{t.ID}
	} else {
		seen := map[int]bool{}
		for _, a := range t.Args {
			for _, v := range termVars(a) {
				if !seen[v] {
					seen[v] = true
					out = append(out, v)
				}
			}
		}
		sort.Ints(out)
	}
	varsCache.Store(t.ID, out)
	return out
}

// sliceRelevant splits pc into the conjuncts connected to the targets and the rest.
func sliceRelevant(pc []*Term, targets []*Term) (rel, rest []*Term) {
	parent := map[int]int{}
	var find func(x int) int
	find = func(x int) int {
		p, ok := parent[x]
		if !ok {
			parent[x] = x
			return x
		}
		if p == x {
			return x
		}
		r := find(p)
		parent[x] = r
		return r
	}
	union := func(a, b int) {
		ra, rb := find(a), find(b)
		if ra != rb {
			parent[ra] = rb
		}
	}
	for _, c := range pc {
		vs := termVars(c)
		for i := 1; i < len(vs); i++ {
			union(vs[0], vs[i])
		}
	}
	want := map[int]bool{}
	for _, t := range targets {
		vs := termVars(t)
		for i := 1; i < len(vs); i++ {
			union(vs[0], vs[i])
		}
	}
	for _, t := range targets {
		for _, v := range termVars(t) {
			want[find(v)] = true
		}
	}
	for _, c := range pc {
		vs := termVars(c)
		if len(vs) == 0 {
			// variable-free, non-constant conjunct: keep it relevant
			rel = append(rel, c)
			continue
		}
		if want[find(vs[0])] {
			rel = append(rel, c)
		} else {
			rest = append(rest, c)
		}
	}
	return
}
