package main

import (
	"fmt"
	"go/constant"
	"go/token"
	"go/types"
	"math"
	"math/big"
	"sort"
	"strings"
	"sync"

	"golang.org/x/tools/go/ssa"
)

type stepKind int

const (
	kCont stepKind = iota
	kEnd
	kBlock
	kForks  // independent forks, no merge region
	kBranch // forks with a merge region
	kCall   // single state entered a callee: region until it returns
)

type stepResult struct {
	kind     stepKind
	states   []*State
	stop     *stopCond
	pc0      int
	assumes0 int
	hard0    int
}

type stopCond struct {
	gid   int
	depth int // index of the frame the region belongs to
	act   int
	block *ssa.BasicBlock // nil: only "frame popped"
}

func (st *stopCond) hit(s *State) (bool, string) {
	if s.cur != st.gid {
		return false, ""
	}
	g := s.gs[st.gid]
	if len(g.frames) <= st.depth || g.frames[st.depth].act != st.act {
		return true, "ret"
	}
	if st.block != nil && len(g.frames) == st.depth+1 {
		f := g.frames[st.depth]
		if f.block == st.block && f.ip == f.info.firstNon[st.block.Index] && !f.panicking {
			return true, "join"
		}
	}
	return false, ""
}

var fnInfoCache sync.Map

func infoOf(fn *ssa.Function) *fnInfo {
	if v, ok := fnInfoCache.Load(fn); ok {
		return v.(*fnInfo)
	}
	fi := buildFnInfo(fn)
	fnInfoCache.Store(fn, fi)
	return fi
}

type Exec struct {
	prog   *ssa.Program
	hpkg   *ssa.Package
	pf     *Portfolio
	h      *HarnessRun
	unwind int
	noMerge bool
	initMode bool // executing package initialisers: be lenient
	explore bool  // goroutine tier: fork over scheduler choices
	topQ    *workQ
}

// ---------- region exploration ----------

func (e *Exec) region(s0 *State, stop *stopCond) (parked []*State, why []string, escaped []*State, ended int) {
	work := []*State{s0}
	for len(work) > 0 {
		s := work[len(work)-1]
		work = work[:len(work)-1]
	run:
		for {
			if stop != nil {
				if hit, w := stop.hit(s); hit {
					parked = append(parked, s)
					why = append(why, w)
					break run
				}
			}
			r := e.safeStep(s)
			switch r.kind {
			case kCont:
			case kEnd:
				ended++
				break run
			case kBlock:
				escaped = append(escaped, s)
				break run
			case kForks:
				if stop == nil && e.topQ != nil && len(r.states) > 1 {
					// top level: share the forks with the other workers
					e.topQ.push(r.states[1:]...)
					work = append(work, r.states[0])
					break run
				}
				for i := len(r.states) - 1; i >= 0; i-- {
					work = append(work, r.states[i])
				}
				break run
			case kBranch, kCall:
				var ps []*State
				var ws []string
				lost := 0
				for _, c := range r.states {
					p, w, esc, en := e.region(c, r.stop)
					ps = append(ps, p...)
					ws = append(ws, w...)
					escaped = append(escaped, esc...)
					lost += en + len(esc)
				}
				ended += lost
				if len(ps) > 1 {
					// states that computed arithmetic-heavy terms since the fork are
					// checked for feasibility before they contaminate the merge
					var keep []*State
					var keepW []string
					for i, p := range ps {
						if p.hardOps > r.hard0 && len(keep)+len(ps)-i > 1 && !anyHard(p.pc) {
							if !e.feasible(p, True) {
								e.h.EndKinds["infeasible"]++
								continue
							}
						}
						keep = append(keep, p)
						keepW = append(keepW, ws[i])
					}
					ps, ws = keep, keepW
				}
				merged := e.mergeAll(ps, ws)
				if lost == 0 && len(merged) == 1 && len(ps) > 1 && merged[0].assumes == r.assumes0 && len(merged[0].pc) >= r.pc0 {
					// every path out of the fork arrived here and none added an
					// assumption: the disjunction of the branch conditions is
					// valid, so the path condition is the one at the fork.
					merged[0].pc = merged[0].pc[:r.pc0]
				}
				for i := len(merged) - 1; i >= 0; i-- {
					work = append(work, merged[i])
				}
				break run
			}
		}
	}
	return
}

// safeStep executes one instruction, converting engine panics into path ends.
func (e *Exec) safeStep(s *State) (res stepResult) {
	defer func() {
		if r := recover(); r != nil {
			switch x := r.(type) {
			case pathEnd:
				e.h.pathEnded(e, s, x)
				res = stepResult{kind: kEnd}
			case goPanic:
				e.h.goPanicked(e, s, x.msg)
				res = stepResult{kind: kEnd}
			case unsupportedErr:
				e.h.pathEnded(e, s, pathEnd{"unsupported", x.msg + " at " + e.where(s)})
				res = stepResult{kind: kEnd}
			case needConcrete:
				func() {
					defer func() {
						if r2 := recover(); r2 != nil {
							switch y := r2.(type) {
							case pathEnd:
								e.h.pathEnded(e, s, y)
							case unsupportedErr:
								e.h.pathEnded(e, s, pathEnd{"unsupported", y.msg + " at " + e.where(s)})
							default:
								panic(r2)
							}
							res = stepResult{kind: kEnd}
						}
					}()
					res = e.concretize(s, x)
				}()
			case string:
				panic(x + " at " + e.where(s))
			default:
				panic(r)
			}
		}
	}()
	s.steps++
	e.h.Transitions++
	if s.steps > e.h.maxSteps {
		panic(pathEnd{"budget", fmt.Sprintf("step budget %d exceeded", e.h.maxSteps)})
	}
	return e.step(s)
}

func (e *Exec) where(s *State) string {
	if s.cur >= len(s.gs) {
		return "?"
	}
	g := s.g()
	if len(g.frames) == 0 {
		return "?"
	}
	var parts []string
	for i := len(g.frames) - 1; i >= 0 && i >= len(g.frames)-6; i-- {
		f := g.frames[i]
		pos := token.NoPos
		if f.ip < len(f.block.Instrs) {
			pos = f.block.Instrs[f.ip].Pos()
		}
		p := e.prog.Fset.Position(pos)
		parts = append(parts, fmt.Sprintf("%s(%s:%d)", f.fn.String(), shortFile(p.Filename), p.Line))
	}
	return strings.Join(parts, " <- ")
}

func shortFile(f string) string {
	if i := strings.LastIndex(f, "/"); i >= 0 {
		return f[i+1:]
	}
	return f
}

// ---------- operand access ----------

func (e *Exec) get(s *State, f *Frame, v ssa.Value) Value {
	switch x := v.(type) {
	case *ssa.Const:
		return e.constValue(x)
	case *ssa.Function:
		return &FuncV{Fn: x}
	case *ssa.Builtin:
		return &FuncV{Builtin: x.Name()}
	case *ssa.Global:
		return PtrV{Obj: e.globalObj(s, x)}
	}
	idx, ok := f.info.index[v]
	if !ok {
		panic(fmt.Sprintf("engine: no local for %s (%T) in %s", v.Name(), v, f.fn))
	}
	r := f.locals[idx]
	if r == nil {
		panic(fmt.Sprintf("engine: unset local %s in %s", v.Name(), f.fn))
	}
	return r
}

func (e *Exec) set(f *Frame, v ssa.Value, val Value) {
	f.locals[f.info.index[v]] = val
}

func (e *Exec) globalObj(s *State, g *ssa.Global) ObjID {
	if id, ok := s.globals[g]; ok {
		return id
	}
	t := g.Type().(*types.Pointer).Elem()
	var zv Value
	func() {
		defer func() {
			if r := recover(); r != nil {
				if _, ok := r.(unsupportedErr); ok {
					zv = PoisonV{"global " + g.String()}
					return
				}
				panic(r)
			}
		}()
		zv = zeroValue(t)
	}()
	id := s.alloc(zv)
	s.globals[g] = id
	if g.Pkg != nil && !s.initDone[g.Pkg.Pkg.Path()] && !e.initMode {
		// global of a package whose initialiser was not run: opaque
		if !pureZeroInitOK(g) {
			s.heap[id] = PoisonV{"uninitialised global " + g.String()}
		}
	}
	return id
}

func pureZeroInitOK(g *ssa.Global) bool { return false }

// PoisonV marks a value the engine could not compute (opaque global etc.).
type PoisonV struct{ why string }

func (e *Exec) constValue(c *ssa.Const) Value {
	t := c.Type()
	if c.Value == nil {
		return zeroValue(t)
	}
	if tp, ok := t.(*types.TypeParam); ok {
		_ = tp
		panic(unsupported("const of type parameter"))
	}
	switch u := under(t).(type) {
	case *types.Basic:
		if w, signed, ok := intWidth(t); ok {
			if w == 0 {
				return Bool(constant.BoolVal(c.Value))
			}
			if signed {
				i, _ := constant.Int64Val(constant.ToInt(c.Value))
				return BV(w, uint64(i))
			}
			ui, _ := constant.Uint64Val(constant.ToInt(c.Value))
			return BV(w, ui)
		}
		if u.Info()&types.IsFloat != 0 {
			fv, _ := constant.Float64Val(c.Value)
			if u.Kind() == types.Float32 {
				fv = float64(float32(fv))
			}
			return FloatV{C: fv}
		}
		if u.Info()&types.IsString != 0 {
			return StrV{C: constant.StringVal(c.Value)}
		}
	}
	panic(unsupported("const " + c.String()))
}

// ---------- the step function ----------

func (e *Exec) step(s *State) stepResult {
	g := s.g()
	if g.status != GRunnable {
		panic("engine: stepping non-runnable goroutine")
	}
	f := g.top()
	if f.ip >= len(f.block.Instrs) {
		panic(fmt.Sprintf("engine: ip past block end in %s", f.fn))
	}
	instr := f.block.Instrs[f.ip]
	if debugTrace {
		fmt.Printf("  [g%d %s b%d.%d] %T %v\n", s.cur, f.fn.Name(), f.block.Index, f.ip, instr, instr)
	}
	switch in := instr.(type) {
	case *ssa.DebugRef:
		f.ip++
	case *ssa.Alloc:
		t := in.Type().(*types.Pointer).Elem()
		id := s.alloc(zeroValue(t))
		e.set(f, in, PtrV{Obj: id})
		f.ip++
	case *ssa.UnOp:
		if in.Op == token.ARROW {
			return e.execRecv(s, f, in)
		}
		if in.Op == token.MUL && len(s.guards) > 0 {
			if pp, ok := e.get(s, f, in.X).(PtrV); ok {
				e.guardAccess(s, f, 0, &pp, false)
			}
		}
		e.set(f, in, e.unop(s, f, in))
		f.ip++
	case *ssa.BinOp:
		x, y := e.get(s, f, in.X), e.get(s, f, in.Y)
		e.set(f, in, e.binop(s, in.Op, in.X.Type(), in.Y.Type(), x, y))
		f.ip++
	case *ssa.Store:
		p := e.get(s, f, in.Addr)
		v := e.get(s, f, in.Val)
		pp, ok := p.(PtrV)
		if !ok {
			panic(unsupported(fmt.Sprintf("store through %T", p)))
		}
		if len(s.guards) > 0 {
			e.guardAccess(s, f, 0, &pp, true)
		}
		s.store(pp, v)
		f.ip++
	case *ssa.FieldAddr:
		p := e.ptr(e.get(s, f, in.X))
		if p.Obj == 0 {
			panic(goPanic{"nil pointer dereference (field " + fieldName(in.X.Type(), in.Field) + ")"})
		}
		e.set(f, in, PtrV{p.Obj, pathAppend(p.Path, in.Field)})
		f.ip++
	case *ssa.Field:
		x := e.get(s, f, in.X)
		sv, ok := x.(StructV)
		if !ok {
			panic(unsupported(fmt.Sprintf("field of %T", x)))
		}
		e.set(f, in, sv[in.Field])
		f.ip++
	case *ssa.IndexAddr:
		return e.execIndexAddr(s, f, in)
	case *ssa.Index:
		return e.execIndex(s, f, in)
	case *ssa.Phi:
		// evaluate all phis of the block simultaneously
		blk := f.block
		var vals []Value
		k := f.ip
		for k < len(blk.Instrs) {
			ph, ok := blk.Instrs[k].(*ssa.Phi)
			if !ok {
				break
			}
			idx := -1
			for i, p := range blk.Preds {
				if p == f.prev {
					idx = i
					break
				}
			}
			if idx < 0 {
				panic("engine: phi without matching predecessor")
			}
			vals = append(vals, e.get(s, f, ph.Edges[idx]))
			k++
		}
		for i, v := range vals {
			e.set(f, blk.Instrs[f.ip+i].(*ssa.Phi), v)
		}
		f.ip = k
	case *ssa.Jump:
		e.jump(f, f.block.Succs[0])
	case *ssa.If:
		return e.execIf(s, f, in)
	case *ssa.Return:
		return e.execReturn(s, f, in)
	case *ssa.Call:
		return e.execCall(s, f, in, in.Common(), in)
	case *ssa.Go:
		return e.execGo(s, f, in)
	case *ssa.Defer:
		fn, args := e.callTarget(s, f, in.Common())
		f.defers = append(f.defers, deferred{fn, args})
		f.ip++
	case *ssa.RunDefers:
		return e.execRunDefers(s, f)
	case *ssa.Panic:
		x := e.get(s, f, in.X)
		panic(goPanic{"panic: " + showValue(x)})
	case *ssa.MakeInterface:
		x := e.get(s, f, in.X)
		e.set(f, in, IfaceV{T: in.X.Type(), V: x})
		f.ip++
	case *ssa.ChangeInterface:
		e.set(f, in, e.get(s, f, in.X))
		f.ip++
	case *ssa.ChangeType:
		e.set(f, in, e.get(s, f, in.X))
		f.ip++
	case *ssa.Convert:
		e.set(f, in, e.convert(s, in.X.Type(), in.Type(), e.get(s, f, in.X)))
		f.ip++
	case *ssa.MultiConvert:
		e.set(f, in, e.convert(s, in.X.Type(), in.Type(), e.get(s, f, in.X)))
		f.ip++
	case *ssa.TypeAssert:
		return e.execTypeAssert(s, f, in)
	case *ssa.Extract:
		t := e.get(s, f, in.Tuple)
		tv, ok := t.(TupleV)
		if !ok {
			panic(fmt.Sprintf("engine: extract from %T", t))
		}
		e.set(f, in, tv[in.Index])
		f.ip++
	case *ssa.MakeClosure:
		fn := in.Fn.(*ssa.Function)
		env := make([]Value, len(in.Bindings))
		for i, b := range in.Bindings {
			env[i] = e.get(s, f, b)
		}
		e.set(f, in, &FuncV{Fn: fn, Env: env})
		f.ip++
	case *ssa.MakeSlice:
		ln := e.concreteIntT(s, e.get(s, f, in.Len), in.Len.Type(), "make slice len")
		cp := e.concreteIntT(s, e.get(s, f, in.Cap), in.Cap.Type(), "make slice cap")
		et := under(in.Type()).(*types.Slice).Elem()
		if ln < 0 || cp < ln || cp > 1<<24 {
			panic(goPanic{fmt.Sprintf("makeslice: len out of range (%d, %d)", ln, cp)})
		}
		arr := make(ArrayV, cp)
		z := zeroValue(et)
		for i := range arr {
			arr[i] = z
		}
		id := s.alloc(arr)
		e.set(f, in, SliceV{Obj: id, Off: 0, Len: ln, Cap: cp, Elem: et})
		f.ip++
	case *ssa.MakeMap:
		mt := under(in.Type()).(*types.Map)
		id := s.alloc(&MapObj{KT: mt.Key(), VT: mt.Elem()})
		e.set(f, in, MapV{id})
		f.ip++
	case *ssa.MakeChan:
		sz := e.concreteIntT(s, e.get(s, f, in.Size), in.Size.Type(), "chan size")
		ct := under(in.Type()).(*types.Chan)
		id := s.alloc(&ChanObj{Cap: sz, Elem: ct.Elem()})
		e.set(f, in, ChanV{id})
		f.ip++
	case *ssa.Slice:
		e.set(f, in, e.sliceOp(s, f, in))
		f.ip++
	case *ssa.SliceToArrayPointer:
		x := e.get(s, f, in.X).(SliceV)
		n := int(under(in.Type().(*types.Pointer).Elem()).(*types.Array).Len())
		if x.Len < n {
			panic(goPanic{"slice to array pointer: length too short"})
		}
		arr := s.heap[x.Obj].(ArrayV)
		if x.Off == 0 && len(arr) == n {
			e.set(f, in, PtrV{Obj: x.Obj})
		} else {
			e.set(f, in, ArrViewV{Obj: x.Obj, Off: x.Off, N: n})
		}
		f.ip++
	case *ssa.Lookup:
		return e.execLookup(s, f, in)
	case *ssa.MapUpdate:
		return e.execMapUpdate(s, f, in)
	case *ssa.Range:
		if len(s.guards) > 0 {
			if mv, ok := e.get(s, f, in.X).(MapV); ok {
				e.guardAccess(s, f, mv.Obj, nil, false)
			}
		}
		e.set(f, in, e.makeRange(s, f, in))
		f.ip++
	case *ssa.Next:
		return e.execNext(s, f, in)
	case *ssa.Send:
		return e.execSend(s, f, in)
	case *ssa.Select:
		return e.execSelect(s, f, in)
	default:
		panic(unsupported(fmt.Sprintf("instruction %T", instr)))
	}
	return stepResult{kind: kCont}
}

var debugTrace = false

func fieldName(t types.Type, i int) string {
	if p, ok := under(t).(*types.Pointer); ok {
		if st, ok := under(p.Elem()).(*types.Struct); ok && i < st.NumFields() {
			return st.Field(i).Name()
		}
	}
	return fmt.Sprint(i)
}

func (e *Exec) ptr(v Value) PtrV {
	switch p := v.(type) {
	case PtrV:
		return p
	case PoisonV:
		panic(unsupported("pointer is opaque: " + p.why))
	}
	panic(unsupported(fmt.Sprintf("pointer value %T", v)))
}

func (e *Exec) jump(f *Frame, to *ssa.BasicBlock) {
	// unwinding counter on back edges (target dominates source or equal index order heuristic)
	if to.Index <= f.block.Index && f.info.inLoop[to.Index] {
		if f.unwind == nil {
			f.unwind = map[int]int{}
		}
		f.unwind[to.Index]++
		if f.unwind[to.Index] > e.unwind {
			panic(pathEnd{"unwind", fmt.Sprintf("loop bound %d exceeded in %s block %d", e.unwind, f.fn, to.Index)})
		}
	}
	f.prev = f.block
	f.block = to
	f.ip = 0
}

func (e *Exec) concreteInt(s *State, v Value, what string) int {
	t, ok := v.(*Term)
	if !ok {
		panic(unsupported(fmt.Sprintf("%s: %T", what, v)))
	}
	if !t.IsConst() {
		panic(needConcrete{t, what})
	}
	return int(t.Signed())
}

func idxInt(idx *Term, t types.Type) int {
	if _, signed, ok := intWidth(t); ok && !signed {
		return int(idx.Val)
	}
	return int(idx.Signed())
}

// concreteIntT: like concreteInt but honours the signedness of the Go type
// (an unsigned 8-bit 248 is 248, not -8).
func (e *Exec) concreteIntT(s *State, v Value, t types.Type, what string) int {
	if tt, ok := v.(*Term); ok && tt.IsConst() {
		if _, signed, ok := intWidth(t); ok && !signed {
			return int(tt.Val)
		}
	}
	return e.concreteInt(s, v, what)
}

// needConcrete: an operation needs a concrete integer but got a symbolic one;
// safeStep forks over the feasible values (bounded) and re-executes.
type needConcrete struct {
	t    *Term
	what string
}

func (e *Exec) concretize(s *State, nc needConcrete) stepResult {
	const maxVals = 40
	t := nc.t
	s.symStrN++
	x := Var(fmt.Sprintf("conc!%d!%d", t.ID, s.symStrN), t.W)
	base := append(append([]*Term(nil), s.pc...), Eq(x, t))
	var vals []*Term
	for len(vals) <= maxVals {
		r := e.pf.Check(base, []*Term{x})
		if r.Status == Unsat {
			break
		}
		if r.Status != Sat {
			panic(unsupported(nc.what + " is symbolic (solver could not enumerate its values)"))
		}
		v, ok := r.Model[x.Name]
		if !ok {
			v = new(big.Int)
		}
		c := BVBig(t.W, v)
		vals = append(vals, c)
		base = append(base, Not(Eq(x, c)))
	}
	if len(vals) > maxVals {
		panic(unsupported(fmt.Sprintf("%s is symbolic with more than %d feasible values", nc.what, maxVals)))
	}
	if len(vals) == 0 {
		panic(pathEnd{"infeasible", "no feasible value for " + nc.what})
	}
	var forks []*State
	for i, c := range vals {
		st := s
		if i < len(vals)-1 {
			st = s.clone()
			e.h.States++
		}
		st.assume(Eq(t, c))
		// substitute the constant for the term in the current frame
		f := st.g().top()
		for k, l := range f.locals {
			if lt, ok := l.(*Term); ok && lt == t {
				f.locals[k] = c
			}
		}
		forks = append(forks, st)
	}
	if len(forks) == 1 {
		return stepResult{kind: kCont}
	}
	return stepResult{kind: kForks, states: forks}
}

// ---------- control ----------

func (e *Exec) execIf(s *State, f *Frame, in *ssa.If) stepResult {
	c, ok := e.get(s, f, in.Cond).(*Term)
	if !ok {
		panic(unsupported("if on non-term condition"))
	}
	if c.IsConst() {
		if c.IsTrue() {
			e.jump(f, f.block.Succs[0])
		} else {
			e.jump(f, f.block.Succs[1])
		}
		return stepResult{kind: kCont}
	}
	// symbolic branch
	e.h.Forks++
	blk := f.block
	needFeas := f.info.inLoop[blk.Index] || e.h.alwaysFeas
	tOK, fOK := true, true
	if needFeas {
		tOK = e.feasible(s, c)
		fOK = e.feasible(s, Not(c))
	}
	if tOK && !fOK {
		// pc implies c: nothing to add
		e.jump(f, blk.Succs[0])
		return stepResult{kind: kCont}
	}
	if fOK && !tOK {
		e.jump(f, blk.Succs[1])
		return stepResult{kind: kCont}
	}
	if !tOK && !fOK {
		panic(pathEnd{"infeasible", "both branches infeasible"})
	}
	gidx := s.cur
	depth := len(s.g().frames) - 1
	pc0, assumes0 := len(s.pc), s.assumes
	sT := s
	sF := s.clone()
	e.h.States++
	fT := sT.gs[gidx].frames[depth]
	fF := sF.gs[gidx].frames[depth]
	sT.assumeBranch(c)
	sF.assumeBranch(Not(c))
	e.jump(fT, blk.Succs[0])
	e.jump(fF, blk.Succs[1])
	if e.noMerge {
		return stepResult{kind: kForks, states: []*State{sT, sF}}
	}
	var jb *ssa.BasicBlock
	if j := f.info.ipdom[blk.Index]; j >= 0 {
		jb = f.fn.Blocks[j]
	}
	st := &stopCond{gid: gidx, depth: depth, act: f.act, block: jb}
	return stepResult{kind: kBranch, states: []*State{sT, sF}, stop: st, pc0: pc0, assumes0: assumes0, hard0: s.hardOps}
}

func (e *Exec) feasible(s *State, extra *Term) bool {
	e.h.FeasQueries++
	if extra.IsFalse() {
		return false
	}
	if extra.IsTrue() {
		r := e.pf.Check(s.pc, nil)
		return r.Status != Unsat
	}
	// only the part of the path condition connected to extra matters (the path
	// itself is assumed feasible; if it is not, the answer is irrelevant)
	rel, _ := sliceRelevant(s.pc, []*Term{extra})
	r := e.pf.Check(append(rel, extra), nil)
	return r.Status != Unsat
}

func (e *Exec) execReturn(s *State, f *Frame, in *ssa.Return) stepResult {
	var res Value
	switch len(in.Results) {
	case 0:
		res = TupleV{}
	case 1:
		res = e.get(s, f, in.Results[0])
	default:
		tv := make(TupleV, len(in.Results))
		for i, r := range in.Results {
			tv[i] = e.get(s, f, r)
		}
		res = tv
	}
	return e.popFrame(s, res)
}

func (e *Exec) popFrame(s *State, res Value) stepResult {
	g := s.g()
	f := g.top()
	g.frames = g.frames[:len(g.frames)-1]
	if len(g.frames) == 0 {
		g.status = GDone
		if s.cur == 0 {
			panic(pathEnd{"done", ""})
		}
		return stepResult{kind: kBlock}
	}
	caller := g.top()
	if f.retTo != nil {
		e.set(caller, f.retTo, res)
	}
	return stepResult{kind: kCont}
}

func (e *Exec) pushFrame(s *State, fn *ssa.Function, args []Value, env []Value, retTo ssa.Value) *Frame {
	if fn.Blocks == nil {
		panic(unsupported("call of function without body: " + fn.String()))
	}
	g := s.g()
	if len(g.frames) > 200 {
		panic(pathEnd{"unwind", "call depth exceeded in " + fn.String()})
	}
	info := infoOf(fn)
	nf := &Frame{fn: fn, info: info, block: fn.Blocks[0], locals: make([]Value, info.nLocals), act: s.nextAct, retTo: retTo}
	s.nextAct++
	if len(args) != len(fn.Params) {
		panic(fmt.Sprintf("engine: %s called with %d args, wants %d", fn, len(args), len(fn.Params)))
	}
	for i, p := range fn.Params {
		nf.locals[info.index[p]] = args[i]
	}
	if len(env) != len(fn.FreeVars) {
		panic(fmt.Sprintf("engine: %s closure env %d, wants %d", fn, len(env), len(fn.FreeVars)))
	}
	for i, fv := range fn.FreeVars {
		nf.locals[info.index[fv]] = env[i]
	}
	g.frames = append(g.frames, nf)
	return nf
}

// callTarget evaluates the callee and arguments of a call.
func (e *Exec) callTarget(s *State, f *Frame, c *ssa.CallCommon) (Value, []Value) {
	var args []Value
	var fn Value
	if c.IsInvoke() {
		recv := e.get(s, f, c.Value)
		iv, ok := recv.(IfaceV)
		if !ok {
			panic(unsupported(fmt.Sprintf("invoke on %T", recv)))
		}
		if iv.T == nil {
			panic(goPanic{"nil interface method call " + c.Method.Name()})
		}
		m := e.prog.LookupMethod(iv.T, c.Method.Pkg(), c.Method.Name())
		if m == nil {
			panic(unsupported("no method " + c.Method.Name() + " on " + iv.T.String()))
		}
		fn = &FuncV{Fn: m}
		args = append(args, iv.V)
	} else {
		fn = e.get(s, f, c.Value)
	}
	for _, a := range c.Args {
		args = append(args, e.get(s, f, a))
	}
	return fn, args
}

func (e *Exec) execCall(s *State, f *Frame, in ssa.Instruction, c *ssa.CallCommon, result ssa.Value) stepResult {
	fnv, args := e.callTarget(s, f, c)
	return e.invoke(s, f, fnv, args, result, true)
}

// invoke calls fnv with args from frame f (at f.ip, which is advanced).
func (e *Exec) invoke(s *State, f *Frame, fnv Value, args []Value, result ssa.Value, region bool) stepResult {
	fv, ok := fnv.(*FuncV)
	if !ok {
		if pv, isP := fnv.(PoisonV); isP {
			panic(unsupported("call of opaque func: " + pv.why))
		}
		panic(unsupported(fmt.Sprintf("call of %T", fnv)))
	}
	if fv == nil {
		panic(goPanic{"call of nil func"})
	}
	if fv.Builtin != "" {
		r, sr, handled := e.builtin(s, f, fv.Builtin, args, result)
		if handled {
			return sr
		}
		if result != nil {
			e.set(f, result, r)
		}
		f.ip++
		return stepResult{kind: kCont}
	}
	fn := fv.Fn
	// harness-provided stub?
	if stub := e.h.stubFor(e, fn, f.fn); stub != nil {
		fn = stub
		fv = &FuncV{Fn: stub}
	}
	if ifn := e.intrinsicFor(fn); ifn != nil {
		if sr, handled := ifn(e, s, f, fn, args, result); handled {
			return sr
		}
	}
	if fn.Blocks == nil {
		if e.initMode {
			if result != nil {
				e.set(f, result, poisonFor(result.Type(), "call "+fn.String()))
			}
			f.ip++
			return stepResult{kind: kCont}
		}
		panic(unsupported("call of body-less function " + fn.String()))
	}
	f.ip++
	e.h.noteFunc(fn)
	nf := e.pushFrame(s, fn, args, fv.Env, result)
	if !region || e.noMerge {
		return stepResult{kind: kCont}
	}
	st := &stopCond{gid: s.cur, depth: len(s.g().frames) - 1, act: nf.act}
	return stepResult{kind: kCall, states: []*State{s}, stop: st, pc0: len(s.pc), assumes0: s.assumes, hard0: s.hardOps}
}

func poisonFor(t types.Type, why string) Value {
	if tp, ok := t.(*types.Tuple); ok {
		tv := make(TupleV, tp.Len())
		for i := range tv {
			tv[i] = PoisonV{why}
		}
		return tv
	}
	return PoisonV{why}
}

func (e *Exec) execRunDefers(s *State, f *Frame) stepResult {
	for len(f.defers) > 0 {
		d := f.defers[len(f.defers)-1]
		f.defers = f.defers[:len(f.defers)-1]
		fv := d.fn.(*FuncV)
		if fv == nil {
			panic(goPanic{"deferred nil func"})
		}
		if fv.Builtin != "" {
			_, sr, handled := e.builtin(s, f, fv.Builtin, d.args, nil)
			if handled {
				// builtin advanced ip; undo (RunDefers re-executes)
				f.ip--
				if sr.kind != kCont {
					return sr
				}
			}
			continue
		}
		fn := fv.Fn
		if stub := e.h.stubFor(e, fn, f.fn); stub != nil {
			fn = stub
			fv = &FuncV{Fn: stub}
		}
		if ifn := e.intrinsicFor(fn); ifn != nil {
			if sr, handled := ifn(e, s, f, fn, d.args, nil); handled {
				if sr.kind == kBlock {
					// blocked inside a deferred intrinsic: re-queue it
					f.defers = append(f.defers, d)
					return sr
				}
				// intrinsics advance ip; RunDefers must be re-executed
				f.ip--
				if sr.kind != kCont {
					return sr
				}
				continue
			}
		}
		// push a frame; RunDefers is re-executed when it returns
		e.h.noteFunc(fn)
		e.pushFrame(s, fn, d.args, fv.Env, nil)
		return stepResult{kind: kCont}
	}
	f.ip++
	return stepResult{kind: kCont}
}

func (e *Exec) execGo(s *State, f *Frame, in *ssa.Go) stepResult {
	fnv, args := e.callTarget(s, f, in.Common())
	fv := fnv.(*FuncV)
	if fv == nil || fv.Builtin != "" {
		panic(unsupported("go of builtin/nil"))
	}
	fn := fv.Fn
	if stub := e.h.stubFor(e, fn, f.fn); stub != nil {
		fn = stub
		fv = &FuncV{Fn: stub}
	}
	f.ip++
	ng := &G{id: len(s.gs), status: GRunnable, name: fn.String()}
	s.gs = append(s.gs, ng)
	cur := s.cur
	s.cur = ng.id
	if fn.Blocks == nil {
		// go of an intrinsic (e.g. go wg.Wait()): wrap not supported
		panic(unsupported("go of body-less function " + fn.String()))
	}
	e.h.noteFunc(fn)
	e.pushFrame(s, fn, args, fv.Env, nil)
	s.cur = cur
	return stepResult{kind: kCont}
}

// ---------- unary / binary ----------

func (e *Exec) unop(s *State, f *Frame, in *ssa.UnOp) Value {
	x := e.get(s, f, in.X)
	switch in.Op {
	case token.MUL: // load
		if av, ok := x.(ArrViewV); ok {
			arr := s.heap[av.Obj].(ArrayV)
			out := make(ArrayV, av.N)
			copy(out, arr[av.Off:av.Off+av.N])
			return out
		}
		return s.load(e.ptr(x))
	case token.NOT:
		return Not(x.(*Term))
	case token.SUB:
		switch v := x.(type) {
		case *Term:
			return Neg(v)
		case FloatV:
			if v.Sym == nil {
				return FloatV{C: -v.C}
			}
		}
		panic(unsupported("negation of " + fmt.Sprintf("%T", x)))
	case token.XOR:
		return BNot(x.(*Term))
	}
	panic(unsupported("unop " + in.Op.String()))
}

func (e *Exec) binop(s *State, op token.Token, xt, yt types.Type, x, y Value) Value {
	if _, ok := x.(PoisonV); ok {
		if e.initMode {
			return x
		}
		panic(unsupported("operand is opaque: " + x.(PoisonV).why))
	}
	if _, ok := y.(PoisonV); ok {
		if e.initMode {
			return y
		}
		panic(unsupported("operand is opaque: " + y.(PoisonV).why))
	}
	switch op {
	case token.EQL:
		return e.equal(s, xt, x, y)
	case token.NEQ:
		return Not(e.equal(s, xt, x, y))
	}
	switch a := x.(type) {
	case *Term:
		b, ok := y.(*Term)
		if !ok {
			panic(unsupported(fmt.Sprintf("binop %s on Term and %T", op, y)))
		}
		_, signed, _ := intWidth(xt)
		switch op {
		case token.ADD:
			return BinBV(OpAdd, a, b)
		case token.SUB:
			return BinBV(OpSub, a, b)
		case token.MUL:
			r := BinBV(OpMul, a, b)
			if r.hard {
				s.hardOps++
			}
			return r
		case token.QUO, token.REM:
			if b.IsConst() && b.Val == 0 && b.Big == nil {
				panic(goPanic{"integer divide by zero"})
			}
			if !b.IsConst() {
				e.h.implicitObligation(e, s, Not(Eq(b, BV(b.W, 0))), "div-by-zero")
			}
			var r *Term
			switch {
			case op == token.QUO && signed:
				r = BinBV(OpSDiv, a, b)
			case op == token.QUO:
				r = BinBV(OpUDiv, a, b)
			case signed:
				r = BinBV(OpSRem, a, b)
			default:
				r = BinBV(OpURem, a, b)
			}
			if r.hard {
				s.hardOps++
			}
			return r
		case token.AND:
			if a.W == 0 {
				return And(a, b)
			}
			return BinBV(OpBAnd, a, b)
		case token.OR:
			if a.W == 0 {
				return Or(a, b)
			}
			return BinBV(OpBOr, a, b)
		case token.XOR:
			return BinBV(OpBXor, a, b)
		case token.AND_NOT:
			return BinBV(OpBAnd, a, BNot(b))
		case token.SHL, token.SHR:
			amt := shiftAmount(b, a.W)
			if op == token.SHL {
				return BinBV(OpShl, a, amt)
			}
			if signed {
				return BinBV(OpAshr, a, amt)
			}
			return BinBV(OpLshr, a, amt)
		case token.LSS:
			if signed {
				return Cmp(OpSlt, a, b)
			}
			return Cmp(OpUlt, a, b)
		case token.LEQ:
			if signed {
				return Cmp(OpSle, a, b)
			}
			return Cmp(OpUle, a, b)
		case token.GTR:
			if signed {
				return Cmp(OpSlt, b, a)
			}
			return Cmp(OpUlt, b, a)
		case token.GEQ:
			if signed {
				return Cmp(OpSle, b, a)
			}
			return Cmp(OpUle, b, a)
		}
	case StrV:
		b := y.(StrV)
		if a.Sym == nil && b.Sym == nil {
			switch op {
			case token.ADD:
				return StrV{C: a.C + b.C}
			case token.LSS:
				return Bool(a.C < b.C)
			case token.LEQ:
				return Bool(a.C <= b.C)
			case token.GTR:
				return Bool(a.C > b.C)
			case token.GEQ:
				return Bool(a.C >= b.C)
			}
		}
		if op == token.ADD {
			if a.Sym == nil && a.C == "" {
				return b
			}
			if b.Sym == nil && b.C == "" {
				return a
			}
			return StrV{Sym: &StrSym{Kind: "concat", Args: []Value{a, b}}}
		}
		panic(unsupported("string " + op.String() + " on symbolic strings"))
	case FloatV:
		b := y.(FloatV)
		return e.floatBin(s, op, a, b)
	}
	panic(unsupported(fmt.Sprintf("binop %s on %T", op, x)))
}

func shiftAmount(b *Term, w int) *Term {
	if b.W == w {
		return b
	}
	if b.W < w {
		return Zext(b, w)
	}
	// wider count: saturate
	if b.IsConst() {
		if b.Val >= uint64(w) {
			return BV(w, uint64(w))
		}
		return BV(w, b.Val)
	}
	return Ite(Cmp(OpUle, BV(b.W, uint64(w)), b), BV(w, uint64(w)), Extract(w-1, 0, b))
}

// equal builds the Bool term for x == y.
func (e *Exec) equal(s *State, t types.Type, x, y Value) *Term {
	switch a := x.(type) {
	case *Term:
		b, ok := y.(*Term)
		if !ok {
			panic(unsupported(fmt.Sprintf("== Term vs %T", y)))
		}
		return Eq(a, b)
	case StrV:
		return strEq(a, y.(StrV))
	case FloatV:
		b := y.(FloatV)
		if a.Sym == nil && b.Sym == nil {
			return Bool(a.C == b.C)
		}
		return floatEq(a, b)
	case PtrV:
		b, ok := y.(PtrV)
		if !ok {
			panic(unsupported(fmt.Sprintf("== ptr vs %T", y)))
		}
		return Bool(a == b)
	case StructV:
		b := y.(StructV)
		st, _ := under(t).(*types.Struct)
		var cs []*Term
		for i := range a {
			var ft types.Type
			if st != nil {
				ft = st.Field(i).Type()
			}
			cs = append(cs, e.equal(s, ft, a[i], b[i]))
		}
		return And(cs...)
	case ArrayV:
		b := y.(ArrayV)
		var et types.Type
		if at, ok := under(t).(*types.Array); ok {
			et = at.Elem()
		}
		var cs []*Term
		for i := range a {
			cs = append(cs, e.equal(s, et, a[i], b[i]))
		}
		return And(cs...)
	case IfaceV:
		b, ok := y.(IfaceV)
		if !ok {
			panic(unsupported(fmt.Sprintf("== iface vs %T", y)))
		}
		if a.T == nil || b.T == nil {
			return Bool(a.T == nil && b.T == nil)
		}
		if !types.Identical(a.T, b.T) {
			return False
		}
		return e.equal(s, a.T, a.V, b.V)
	case ChanV:
		return Bool(a == y.(ChanV))
	case MapV:
		b := y.(MapV)
		return Bool(a.Obj == b.Obj) // only nil comparisons are legal
	case SliceV:
		b := y.(SliceV)
		return Bool(a.Obj == 0 && b.Obj == 0)
	case *FuncV:
		b, _ := y.(*FuncV)
		return Bool(a == nil && b == nil)
	}
	panic(unsupported(fmt.Sprintf("== on %T", x)))
}

func strEq(a, b StrV) *Term {
	if a.Sym == nil && b.Sym == nil {
		return Bool(a.C == b.C)
	}
	if a.Sym == nil || b.Sym == nil {
		sym, conc := a.Sym, b.C
		if a.Sym == nil {
			sym, conc = b.Sym, a.C
		}
		if strings.HasPrefix(sym.Kind, "atom:") {
			return False // atoms differ from every literal
		}
		if sym.Kind == "bytes" {
			// string(b) for symbolic bytes b: equal to a literal iff same
			// length and byte-wise equal
			if len(sym.Args) != len(conc) {
				return False
			}
			cs := make([]*Term, 0, len(conc))
			for i := 0; i < len(conc); i++ {
				bt, ok := sym.Args[i].(*Term)
				if !ok {
					return False
				}
				cs = append(cs, Eq(bt, BV(bt.W, uint64(conc[i]))))
			}
			return And(cs...)
		}
		if sym.Kind == "concat" {
			// a symbolic concat may equal a literal only if... be conservative
			if conc == "" {
				return False
			}
		}
		// Fmt terms are injective uninterpreted values: never equal to a literal
		return False
	}
	if a.Sym == b.Sym {
		return True
	}
	if a.Sym.Kind != b.Sym.Kind || len(a.Sym.Args) != len(b.Sym.Args) {
		return False
	}
	if strings.HasPrefix(a.Sym.Kind, "atom:") {
		// same name: same atom (checked above by Kind); different names are
		// different strings by construction
		return True
	}
	var cs []*Term
	for i := range a.Sym.Args {
		cs = append(cs, valueEq(a.Sym.Args[i], b.Sym.Args[i]))
	}
	return And(cs...)
}

// valueEq: structural equality term for engine values (used by string algebra
// and ghost comparisons).
func valueEq(x, y Value) *Term {
	switch a := x.(type) {
	case *Term:
		b, ok := y.(*Term)
		if !ok || a.W != b.W {
			return False
		}
		return Eq(a, b)
	case StrV:
		b, ok := y.(StrV)
		if !ok {
			return False
		}
		return strEq(a, b)
	case StructV:
		b, ok := y.(StructV)
		if !ok || len(a) != len(b) {
			return False
		}
		var cs []*Term
		for i := range a {
			cs = append(cs, valueEq(a[i], b[i]))
		}
		return And(cs...)
	case ArrayV:
		b, ok := y.(ArrayV)
		if !ok || len(a) != len(b) {
			return False
		}
		var cs []*Term
		for i := range a {
			cs = append(cs, valueEq(a[i], b[i]))
		}
		return And(cs...)
	case PtrV:
		b, ok := y.(PtrV)
		return Bool(ok && a == b)
	case IfaceV:
		b, ok := y.(IfaceV)
		if !ok {
			return False
		}
		if a.T == nil || b.T == nil {
			return Bool(a.T == nil && b.T == nil)
		}
		if !types.Identical(a.T, b.T) {
			return False
		}
		return valueEq(a.V, b.V)
	case FloatV:
		b, ok := y.(FloatV)
		if !ok {
			return False
		}
		return floatEq(a, b)
	}
	return Bool(identical(x, y))
}

// ---------- conversions ----------

func (e *Exec) convert(s *State, from, to types.Type, x Value) Value {
	if _, ok := x.(PoisonV); ok {
		return x
	}
	fu, tu := under(from), under(to)
	// pointer <-> unsafe.Pointer
	if _, ok := x.(PtrV); ok {
		return x
	}
	if fw, fsigned, ok := intWidth(from); ok && fw > 0 {
		xt := x.(*Term)
		if tw, _, ok2 := intWidth(to); ok2 && tw > 0 {
			if tw <= fw {
				return Extract(tw-1, 0, xt)
			}
			if fsigned {
				return Sext(xt, tw)
			}
			return Zext(xt, tw)
		}
		if isFloat(to) {
			return e.intToFloat(s, xt, fsigned, to)
		}
		if isString(to) {
			if xt.IsConst() {
				return StrV{C: string(rune(xt.Signed()))}
			}
			panic(unsupported("string(symbolic rune)"))
		}
	}
	if isFloat(from) {
		fv := x.(FloatV)
		if isFloat(to) {
			if fv.Sym == nil && under(to).(*types.Basic).Kind() == types.Float32 {
				return FloatV{C: float64(float32(fv.C))}
			}
			return fv
		}
		if tw, tsigned, ok := intWidth(to); ok && tw > 0 {
			return e.floatToInt(s, fv, tw, tsigned)
		}
	}
	if isString(from) {
		sv := x.(StrV)
		if sl, ok := tu.(*types.Slice); ok {
			if sv.Sym != nil {
				panic(unsupported("[]byte(symbolic string)"))
			}
			if b, ok := under(sl.Elem()).(*types.Basic); ok && b.Kind() == types.Uint8 {
				arr := make(ArrayV, len(sv.C))
				for i := 0; i < len(sv.C); i++ {
					arr[i] = BV(8, uint64(sv.C[i]))
				}
				if len(arr) == 0 {
					id := s.alloc(ArrayV{})
					return SliceV{Obj: id, Elem: sl.Elem()}
				}
				id := s.alloc(arr)
				return SliceV{Obj: id, Len: len(arr), Cap: len(arr), Elem: sl.Elem()}
			}
			rs := []rune(sv.C)
			arr := make(ArrayV, len(rs))
			for i, r := range rs {
				arr[i] = BV(32, uint64(r))
			}
			id := s.alloc(arr)
			return SliceV{Obj: id, Len: len(arr), Cap: len(arr), Elem: sl.Elem()}
		}
		if isString(to) {
			return x
		}
	}
	if sl, ok := fu.(*types.Slice); ok && isString(to) {
		sv := x.(SliceV)
		if sv.Len == 0 {
			return StrV{}
		}
		arr := s.heap[sv.Obj].(ArrayV)
		b, _ := under(sl.Elem()).(*types.Basic)
		var sb strings.Builder
		for i := 0; i < sv.Len; i++ {
			t := arr[sv.Off+i].(*Term)
			if !t.IsConst() {
				// symbolic bytes: opaque string keyed by content
				elems := make([]Value, sv.Len)
				for j := 0; j < sv.Len; j++ {
					elems[j] = arr[sv.Off+j]
				}
				return StrV{Sym: &StrSym{Kind: "bytes", Args: elems}}
			}
			if b != nil && b.Kind() == types.Uint8 {
				sb.WriteByte(byte(t.Val))
			} else {
				sb.WriteRune(rune(t.Signed()))
			}
		}
		return StrV{C: sb.String()}
	}
	if types.Identical(fu, tu) {
		return x
	}
	panic(unsupported(fmt.Sprintf("convert %s -> %s", from, to)))
}

// ---------- memory ops ----------

func (e *Exec) execIndexAddr(s *State, f *Frame, in *ssa.IndexAddr) stepResult {
	x := e.get(s, f, in.X)
	idx := e.get(s, f, in.Index).(*Term)
	var base PtrV
	var n, off int
	switch v := x.(type) {
	case PtrV: // *array
		if v.Obj == 0 {
			panic(goPanic{"nil pointer dereference"})
		}
		n = int(under(in.X.Type().(*types.Pointer).Elem()).(*types.Array).Len())
		base = v
	case SliceV:
		n = v.Len
		off = v.Off
		base = PtrV{Obj: v.Obj}
	case ArrViewV:
		n = v.N
		off = v.Off
		base = PtrV{Obj: v.Obj}
	case PoisonV:
		panic(unsupported("index of opaque value: " + v.why))
	default:
		panic(unsupported(fmt.Sprintf("IndexAddr on %T", x)))
	}
	if idx.IsConst() {
		i := idxInt(idx, in.Index.Type())
		if i < 0 || i >= n {
			panic(goPanic{fmt.Sprintf("index out of range [%d] with length %d", i, n)})
		}
		e.set(f, in, PtrV{base.Obj, pathAppend(base.Path, off+i)})
		f.ip++
		return stepResult{kind: kCont}
	}
	// symbolic index: bounds obligation, then fork over feasible concrete values
	inb := Cmp(OpUlt, Zext(idx, 64), BV(64, uint64(n)))
	if idx.W == 64 {
		inb = Cmp(OpUlt, idx, BV(64, uint64(n)))
	}
	e.h.implicitObligation(e, s, inb, "index-in-range")
	if n > 64 {
		panic(unsupported("symbolic index into large array"))
	}
	var forks []*State
	for i := 0; i < n; i++ {
		c := Eq(idx, BV(idx.W, uint64(i)))
		if !e.feasible(s, c) {
			continue
		}
		ns := s.clone()
		e.h.States++
		ns.assume(c)
		nf := ns.g().top()
		e.set(nf, in, PtrV{base.Obj, pathAppend(base.Path, off+i)})
		nf.ip++
		forks = append(forks, ns)
	}
	if len(forks) == 0 {
		panic(pathEnd{"infeasible", "no feasible index"})
	}
	return stepResult{kind: kForks, states: forks}
}

func (e *Exec) execIndex(s *State, f *Frame, in *ssa.Index) stepResult {
	x := e.get(s, f, in.X)
	idx := e.get(s, f, in.Index).(*Term)
	switch v := x.(type) {
	case ArrayV:
		if idx.IsConst() {
			i := idxInt(idx, in.Index.Type())
			if i < 0 || i >= len(v) {
				panic(goPanic{"index out of range"})
			}
			e.set(f, in, v[i])
		} else {
			e.set(f, in, e.selectElem(s, v, idx))
		}
	case StrV:
		if v.Sym != nil {
			panic(unsupported("index of symbolic string"))
		}
		if idx.IsConst() {
			i := idxInt(idx, in.Index.Type())
			if i < 0 || i >= len(v.C) {
				panic(goPanic{"string index out of range"})
			}
			e.set(f, in, BV(8, uint64(v.C[i])))
		} else {
			arr := make(ArrayV, len(v.C))
			for i := range arr {
				arr[i] = BV(8, uint64(v.C[i]))
			}
			e.set(f, in, e.selectElem(s, arr, idx))
		}
	default:
		panic(unsupported(fmt.Sprintf("Index on %T", x)))
	}
	f.ip++
	return stepResult{kind: kCont}
}

// selectElem: ite-chain over elements for a symbolic index (scalar elements).
func (e *Exec) selectElem(s *State, arr ArrayV, idx *Term) Value {
	n := len(arr)
	e.h.implicitObligation(e, s, Cmp(OpUlt, idx, BV(idx.W, uint64(n))), "index-in-range")
	if n == 0 {
		panic(goPanic{"index out of range (empty)"})
	}
	res := arr[n-1]
	for i := n - 2; i >= 0; i-- {
		m, ok := mergeValue(Eq(idx, BV(idx.W, uint64(i))), arr[i], res)
		if !ok {
			panic(unsupported("symbolic index over non-scalar elements"))
		}
		res = m
	}
	return res
}

func (e *Exec) sliceOp(s *State, f *Frame, in *ssa.Slice) Value {
	x := e.get(s, f, in.X)
	geti := func(v ssa.Value, def int) int {
		if v == nil {
			return def
		}
		return e.concreteIntT(s, e.get(s, f, v), v.Type(), "slice bound")
	}
	switch v := x.(type) {
	case SliceV:
		lo := geti(in.Low, 0)
		hi := geti(in.High, v.Len)
		mx := geti(in.Max, v.Cap)
		if lo < 0 || hi < lo || mx < hi || mx > v.Cap {
			panic(goPanic{fmt.Sprintf("slice bounds out of range [%d:%d:%d] cap %d", lo, hi, mx, v.Cap)})
		}
		if v.Obj == 0 {
			return v
		}
		return SliceV{Obj: v.Obj, Off: v.Off + lo, Len: hi - lo, Cap: mx - lo, Elem: v.Elem}
	case PtrV: // *array
		at := under(in.X.Type().(*types.Pointer).Elem()).(*types.Array)
		n := int(at.Len())
		lo := geti(in.Low, 0)
		hi := geti(in.High, n)
		mx := geti(in.Max, n)
		if lo < 0 || hi < lo || mx < hi || mx > n {
			panic(goPanic{"slice bounds out of range"})
		}
		if v.Path != "" {
			// array embedded in a larger object: slices need a root array object.
			// Copy-free support is not possible with (obj,off) slices; materialise
			// an alias is unsound, so refuse.
			panic(unsupported("slice of array embedded in struct"))
		}
		return SliceV{Obj: v.Obj, Off: lo, Len: hi - lo, Cap: mx - lo, Elem: at.Elem()}
	case StrV:
		if v.Sym != nil {
			panic(unsupported("slice of symbolic string"))
		}
		lo := geti(in.Low, 0)
		hi := geti(in.High, len(v.C))
		if lo < 0 || hi < lo || hi > len(v.C) {
			panic(goPanic{"string slice bounds out of range"})
		}
		return StrV{C: v.C[lo:hi]}
	}
	panic(unsupported(fmt.Sprintf("slice of %T", x)))
}

// sliceElems returns the current elements of a slice.
func (s *State) sliceElems(v SliceV) []Value {
	if v.Obj == 0 || v.Len == 0 {
		return nil
	}
	arr := s.heap[v.Obj].(ArrayV)
	return arr[v.Off : v.Off+v.Len]
}

func (s *State) newSlice(elems []Value, et types.Type) SliceV {
	arr := make(ArrayV, len(elems))
	copy(arr, elems)
	id := s.alloc(arr)
	return SliceV{Obj: id, Len: len(arr), Cap: len(arr), Elem: et}
}

// ---------- type assertions ----------

func (e *Exec) execTypeAssert(s *State, f *Frame, in *ssa.TypeAssert) stepResult {
	x := e.get(s, f, in.X)
	iv, ok := x.(IfaceV)
	if !ok {
		panic(unsupported(fmt.Sprintf("type assert on %T", x)))
	}
	okv := false
	var res Value
	if iv.T != nil {
		if it, isI := under(in.AssertedType).(*types.Interface); isI {
			okv = types.Implements(iv.T, it)
			if !okv {
				// methods with pointer receivers on addressable... Implements handles *T
			}
			res = iv
		} else {
			okv = types.Identical(iv.T, in.AssertedType)
			res = iv.V
		}
	}
	if !okv {
		if !in.CommaOk {
			panic(goPanic{fmt.Sprintf("interface conversion: %s is not %s", typeStr(iv.T), in.AssertedType)})
		}
		res = zeroValue(in.AssertedType)
	}
	if in.CommaOk {
		e.set(f, in, TupleV{res, Bool(okv)})
	} else {
		e.set(f, in, res)
	}
	f.ip++
	return stepResult{kind: kCont}
}

func typeStr(t types.Type) string {
	if t == nil {
		return "nil"
	}
	return t.String()
}

// ---------- maps ----------

func (e *Exec) mapObj(s *State, v Value) *MapObj {
	mv, ok := v.(MapV)
	if !ok {
		panic(unsupported(fmt.Sprintf("map op on %T", v)))
	}
	if mv.Obj == 0 {
		return nil
	}
	return s.heap[mv.Obj].(*MapObj)
}

func (e *Exec) execLookup(s *State, f *Frame, in *ssa.Lookup) stepResult {
	x := e.get(s, f, in.X)
	k := e.get(s, f, in.Index)
	if sv, ok := x.(StrV); ok { // string index
		idx := k.(*Term)
		if sv.Sym != nil || !idx.IsConst() {
			panic(unsupported("symbolic string lookup"))
		}
		i := idxInt(idx, in.Index.Type())
		if i < 0 || i >= len(sv.C) {
			panic(goPanic{"string index out of range"})
		}
		e.set(f, in, BV(8, uint64(sv.C[i])))
		f.ip++
		return stepResult{kind: kCont}
	}
	if mv, ok := x.(MapV); ok && len(s.guards) > 0 {
		e.guardAccess(s, f, mv.Obj, nil, false)
	}
	m := e.mapObj(s, x)
	vt := under(in.X.Type()).(*types.Map).Elem()
	var res Value = zeroValue(vt)
	found := False
	mergeOK := true
	if m != nil {
		// ite-chain from the last entry to the first; keys are pairwise distinct
		for i := len(m.Entries) - 1; i >= 0; i-- {
			en := m.Entries[i]
			c := valueEq(k, en.K)
			if c.IsFalse() {
				continue
			}
			if c.IsTrue() {
				res = en.V
				found = True
				continue
			}
			mv, ok := mergeValue(c, en.V, res)
			if !ok {
				mergeOK = false
				break
			}
			res = mv
			found = Or(c, found)
		}
	}
	setRes := func(st *State, v Value, ok *Term) {
		ff := st.g().top()
		if in.CommaOk {
			e.set(ff, in, TupleV{v, ok})
		} else {
			e.set(ff, in, v)
		}
		ff.ip++
	}
	if mergeOK {
		setRes(s, res, found)
		return stepResult{kind: kCont}
	}
	// values cannot be merged: fork over which entry the key equals
	var forks []*State
	var conds []*Term
	for _, en := range m.Entries {
		c := valueEq(k, en.K)
		conds = append(conds, c)
		if c.IsFalse() || !e.feasible(s, c) {
			continue
		}
		ns := s.clone()
		e.h.States++
		ns.assume(c)
		setRes(ns, en.V, True)
		forks = append(forks, ns)
	}
	none := Not(Or(conds...))
	if e.feasible(s, none) {
		s.assume(none)
		setRes(s, zeroValue(vt), False)
		forks = append(forks, s)
	}
	if len(forks) == 0 {
		panic(pathEnd{"infeasible", "map lookup"})
	}
	return stepResult{kind: kForks, states: forks}
}

func (e *Exec) execMapUpdate(s *State, f *Frame, in *ssa.MapUpdate) stepResult {
	x := e.get(s, f, in.Map)
	mv := x.(MapV)
	if mv.Obj == 0 {
		panic(goPanic{"assignment to entry in nil map"})
	}
	if len(s.guards) > 0 {
		e.guardAccess(s, f, mv.Obj, nil, true)
	}
	m := s.heap[mv.Obj].(*MapObj)
	k := e.get(s, f, in.Key)
	v := e.get(s, f, in.Value)
	nm := &MapObj{KT: m.KT, VT: m.VT, Entries: append([]MapEntry(nil), m.Entries...)}
	// existing key?
	var conds []*Term
	for i, en := range nm.Entries {
		c := valueEq(k, en.K)
		if c.IsTrue() {
			nm.Entries[i].V = v
			s.heap[mv.Obj] = nm
			f.ip++
			return stepResult{kind: kCont}
		}
		conds = append(conds, c)
	}
	anySym := false
	for _, c := range conds {
		if !c.IsFalse() {
			anySym = true
		}
	}
	if !anySym {
		nm.Entries = append(nm.Entries, MapEntry{k, v})
		s.heap[mv.Obj] = nm
		f.ip++
		return stepResult{kind: kCont}
	}
	// symbolic key possibly equal to existing entries: fork on which
	var forks []*State
	for i, c := range conds {
		if c.IsFalse() || !e.feasible(s, c) {
			continue
		}
		ns := s.clone()
		e.h.States++
		ns.assume(c)
		m2 := &MapObj{KT: m.KT, VT: m.VT, Entries: append([]MapEntry(nil), m.Entries...)}
		m2.Entries[i].V = v
		ns.heap[mv.Obj] = m2
		ns.g().top().ip++
		forks = append(forks, ns)
	}
	none := Not(Or(conds...))
	if e.feasible(s, none) {
		s.assume(none)
		nm.Entries = append(nm.Entries, MapEntry{k, v})
		s.heap[mv.Obj] = nm
		f.ip++
		forks = append(forks, s)
	}
	if len(forks) == 0 {
		panic(pathEnd{"infeasible", "map update"})
	}
	if len(forks) == 1 && forks[0] == s {
		return stepResult{kind: kCont}
	}
	return stepResult{kind: kForks, states: forks}
}

// iterators live in the heap as immutable records
type IterV struct {
	Obj ObjID
}
type iterObj struct {
	str   string
	isStr bool
	keys  []Value
	vals  []Value
	pos   int
}

func (e *Exec) makeRange(s *State, f *Frame, in *ssa.Range) Value {
	x := e.get(s, f, in.X)
	switch v := x.(type) {
	case StrV:
		if v.Sym != nil {
			panic(unsupported("range over symbolic string"))
		}
		return IterV{s.alloc(&iterObj{str: v.C, isStr: true})}
	case MapV:
		it := &iterObj{}
		if v.Obj != 0 {
			m := s.heap[v.Obj].(*MapObj)
			idx := make([]int, len(m.Entries))
			for i := range idx {
				idx[i] = i
			}
			// iteration order: insertion order rotated by a harness-selectable amount
			rot := 0
			if len(idx) > 1 {
				rot = e.h.mapOrder(e, s, len(idx))
			}
			for i := range idx {
				en := m.Entries[(i+rot)%len(idx)]
				it.keys = append(it.keys, en.K)
				it.vals = append(it.vals, en.V)
			}
			if e.h.mapReverse(e, s) {
				for i, j := 0, len(it.keys)-1; i < j; i, j = i+1, j-1 {
					it.keys[i], it.keys[j] = it.keys[j], it.keys[i]
					it.vals[i], it.vals[j] = it.vals[j], it.vals[i]
				}
			}
		}
		return IterV{s.alloc(it)}
	}
	panic(unsupported(fmt.Sprintf("range over %T", x)))
}

func (e *Exec) execNext(s *State, f *Frame, in *ssa.Next) stepResult {
	iv := e.get(s, f, in.Iter).(IterV)
	it := s.heap[iv.Obj].(*iterObj)
	tt := in.Type().(*types.Tuple)
	if it.isStr {
		if it.pos >= len(it.str) {
			e.set(f, in, TupleV{False, BV(64, 0), BV(32, 0)})
		} else {
			r, sz := decodeRune(it.str[it.pos:])
			e.set(f, in, TupleV{True, BV(64, uint64(it.pos)), BV(32, uint64(r))})
			ni := *it
			ni.pos += sz
			s.heap[iv.Obj] = &ni
		}
	} else {
		if it.pos >= len(it.keys) {
			e.set(f, in, TupleV{False, zeroOrNil(tt.At(1).Type()), zeroOrNil(tt.At(2).Type())})
		} else {
			e.set(f, in, TupleV{True, it.keys[it.pos], it.vals[it.pos]})
			ni := *it
			ni.pos++
			s.heap[iv.Obj] = &ni
		}
	}
	f.ip++
	return stepResult{kind: kCont}
}

func zeroOrNil(t types.Type) Value {
	if b, ok := t.(*types.Basic); ok && b.Kind() == types.Invalid {
		return False
	}
	return zeroValue(t)
}

func decodeRune(s string) (rune, int) {
	for i, r := range s {
		_ = i
		n := len(string(r))
		if r == 0xFFFD {
			n = 1
		}
		return r, n
	}
	return 0, 0
}

// ---------- float stubs (concrete); symbolic handled in float.go ----------

func (e *Exec) floatBin(s *State, op token.Token, a, b FloatV) Value {
	if a.Sym == nil && b.Sym == nil {
		switch op {
		case token.ADD:
			return FloatV{C: a.C + b.C}
		case token.SUB:
			return FloatV{C: a.C - b.C}
		case token.MUL:
			return FloatV{C: a.C * b.C}
		case token.QUO:
			return FloatV{C: a.C / b.C}
		case token.LSS:
			return Bool(a.C < b.C)
		case token.LEQ:
			return Bool(a.C <= b.C)
		case token.GTR:
			return Bool(a.C > b.C)
		case token.GEQ:
			return Bool(a.C >= b.C)
		}
		panic(unsupported("float op " + op.String()))
	}
	return e.symFloatBin(s, op, a, b)
}

var _ = math.Abs
var _ = big.NewInt
var _ = sort.Ints
