package main

import (
	"path/filepath"
	"fmt"
	"go/constant"
	"os"
	"runtime"
	"runtime/debug"
	"math/big"
	"sort"
	"strings"
	"sync"
	"time"

	"golang.org/x/tools/go/ssa"
)

// HarnessSpec describes one harness function (registered in props.go).
type HarnessSpec struct {
	Prop     string
	Name     string // function name, e.g. zzH05a
	Pkg      string // import path of the package the harness is overlaid into
	Extra    []string // further packages whose harness overlays are needed
	Tier     string // "quick" (both tiers) or "thorough" (thorough only)
	Unwind   int
	Explore  bool // goroutine tier
	Sched    int  // schedule budget
	SchedThorough int // schedule budget in the thorough tier (0: same)
	MaxSteps int
	AllowPanic bool
	AlwaysFeas bool
	Race       bool   // native replay / validation runs under the Go race detector
	Structural string // non-empty: a structural obligation (structural.go), not a harness
	NoNative   bool // harness cannot run natively (engine-only scheduling features)
	MonoTime   bool // model Time arithmetic on monotonic readings as int64 arithmetic
	Bounds   string // human description of the bounds
	Outside  string
	Params   map[string]int // harness parameters by tier, read via zzParam
	// NotOf: obligations of a shared harness that state another property; they
	// are not evaluated under this registration (they are under the other one)
	NotOf []string
}

type Counterexample struct {
	Harness    string
	Obligation string
	Kind       string // "assert", "panic", "deadlock", implicit kinds
	Where      string
	Model      map[string]string // nondet name -> value (decimal / bool)
	Choices    map[string]int
	Sched      []string
	Known      string // matched known-finding class (if any)
	Replayed   string // "", "confirmed", "not-reproduced", "no-replay"
	ReplayPath string
	ReplayOut  string
}

type Inconclusive struct {
	Harness string
	Kind    string
	Msg     string
}

type HarnessRun struct {
	Spec *HarnessSpec
	mu   sync.Mutex

	States, Transitions, Forks, Merges int
	FeasQueries                       int
	SchedForks                        int
	SchedTruncated                    bool
	Obligations, Discharged           int
	ObligationIDs                     map[string]int
	DischargedIDs                     map[string]int
	Paths, PathsDone                  int
	EndKinds                          map[string]int
	Covers                            map[string]int
	Cex                               []*Counterexample
	Incon                             []Inconclusive
	KnownHits                         map[string]string // class -> sample description
	Funcs                             map[string]bool
	Assumptions                       map[string]bool
	Samples                           []map[string]string
	Wall                              float64
	Stats                             *SolverStats
	StaticIDs                         []string // constant obligation ids in the harness source

	maxSteps    int
	schedBudget int
	alwaysFeas  bool
	stubs       map[*ssa.Function]*ssa.Function
	stubs2      map[stubKey]*ssa.Function
	stubNames   map[string]*ssa.Function
	cexSeen     map[string]bool
	known       []KnownFinding
	params      map[string]int
}

func newHarnessRun(spec *HarnessSpec, tier string) *HarnessRun {
	h := &HarnessRun{
		Spec: spec, ObligationIDs: map[string]int{}, DischargedIDs: map[string]int{},
		EndKinds: map[string]int{}, Covers: map[string]int{}, KnownHits: map[string]string{},
		Funcs: map[string]bool{}, Assumptions: map[string]bool{}, Stats: newStats(),
		stubs: map[*ssa.Function]*ssa.Function{}, stubs2: map[stubKey]*ssa.Function{}, cexSeen: map[string]bool{},
	}
	h.maxSteps = spec.MaxSteps
	if h.maxSteps == 0 {
		h.maxSteps = 3_000_000
	}
	h.schedBudget = spec.Sched
	if tier == "thorough" && spec.SchedThorough > 0 {
		h.schedBudget = spec.SchedThorough
	}
	if h.schedBudget == 0 {
		h.schedBudget = 300
		if tier == "thorough" {
			h.schedBudget = 30000
		}
	}
	h.alwaysFeas = spec.AlwaysFeas
	return h
}

func (h *HarnessRun) noteFunc(fn *ssa.Function) {
	n := fn.String()
	if !h.Funcs[n] {
		h.Funcs[n] = true
	}
}

func (h *HarnessRun) noteAssumption(a string) { h.Assumptions[a] = true }

// stubFor returns the harness-provided replacement for fn, if any.
func (h *HarnessRun) stubFor(e *Exec, fn *ssa.Function, caller *ssa.Function) *ssa.Function {
	if caller != nil && strings.HasPrefix(caller.Name(), "zz") {
		// harness code calls the real thing -- except errors.Is/As, whose
		// real bodies need reflectlite (the Go-level models are used instead)
		if n := fn.String(); n != "errors.Is" && n != "errors.As" || strings.HasPrefix(caller.Name(), "zzStub_errors") || strings.HasPrefix(caller.Name(), "zzErrIs") {
			return nil
		}
	}
	var cpkg *ssa.Package
	if caller != nil {
		cpkg = caller.Pkg
		if cpkg == nil && caller.Parent() != nil {
			cpkg = caller.Parent().Pkg
		}
	}
	key := stubKey{fn, cpkg}
	if st, ok := h.stubs2[key]; ok {
		return st
	}
	var st *ssa.Function
	if fn.Pkg != nil || fn.Signature.Recv() != nil {
		name := stubName(fn)
		if name != "" {
			if cpkg != nil && cpkg != e.hpkg {
				if f := cpkg.Func(name); f != nil && f != fn {
					st = f
				}
			}
			if st == nil {
				if f := e.hpkg.Func(name); f != nil && f != fn {
					st = f
				}
			}
		}
	}
	h.stubs2[key] = st
	return st
}

type stubKey struct {
	fn  *ssa.Function
	pkg *ssa.Package
}

// stubName: zzStub_<pkgname>_<Recv>_<Name>
func stubName(fn *ssa.Function) string {
	if fn.Synthetic != "" && !strings.HasPrefix(fn.Synthetic, "instance of") {
		// wrappers / bound methods / thunks are never redirected themselves
		return ""
	}
	var pkgName string
	if fn.Pkg != nil {
		pkgName = fn.Pkg.Pkg.Name()
	} else if o := fn.Object(); o != nil && o.Pkg() != nil {
		pkgName = o.Pkg().Name()
	} else {
		return ""
	}
	name := "zzStub_" + pkgName + "_"
	if recv := fn.Signature.Recv(); recv != nil {
		t := recv.Type()
		if p, ok := t.(interface{ Elem() interface{} }); ok {
			_ = p
		}
		ts := typeString(t)
		ts = strings.TrimPrefix(ts, "*")
		if i := strings.LastIndex(ts, "."); i >= 0 {
			ts = ts[i+1:]
		}
		if i := strings.Index(ts, "["); i >= 0 {
			ts = ts[:i]
		}
		name += ts + "_"
	}
	return name + baseName(fn.Name())
}

// ---------- path bookkeeping ----------

func (h *HarnessRun) pathEnded(e *Exec, s *State, pe pathEnd) {
	h.EndKinds[pe.kind]++
	if progressLog {
		fmt.Fprintf(os.Stderr, "[%s] path end %s %s steps=%d pc=%d feas=%d at %s\n", h.Spec.Name, pe.kind, pe.msg, s.steps, len(s.pc), h.FeasQueries, e.where(s))
	}
	switch pe.kind {
	case "done":
		h.PathsDone++
		h.sampleFromPath(e, s)
	case "assume-false", "infeasible":
	case "unsupported", "budget", "unwind":
		// is the path feasible at all? otherwise it does not matter
		r := e.pf.Check(s.pc, nil)
		if r.Status == Unsat {
			h.EndKinds[pe.kind+"(infeasible)"]++
			return
		}
		h.Incon = append(h.Incon, Inconclusive{h.Spec.Name, pe.kind, pe.msg})
	}
}

func (h *HarnessRun) sampleFromPath(e *Exec, s *State) {
	if len(h.Samples) >= 3 {
		return
	}
	vars := nondetVars(s)
	r := e.pf.Check(s.pc, vars)
	if r.Status == Sat {
		h.Samples = append(h.Samples, modelStrings(s, r.Model))
	}
}

func nondetVars(s *State) []*Term {
	var vars []*Term
	for _, nr := range s.nondet {
		vars = append(vars, nr.Vars...)
	}
	return vars
}

func modelStrings(s *State, m map[string]*big.Int) map[string]string {
	out := map[string]string{}
	for _, nr := range s.nondet {
		if nr.HasChoice {
			out[nr.Name] = fmt.Sprint(nr.Choice)
			continue
		}
		for _, v := range nr.Vars {
			val, ok := m[v.Name]
			if !ok {
				val = new(big.Int)
			}
			out[v.Name] = val.String()
		}
	}
	return out
}

func (h *HarnessRun) goPanicked(e *Exec, s *State, msg string) {
	h.EndKinds["panic"]++
	if e.initMode {
		return
	}
	if h.Spec.AllowPanic {
		return
	}
	// a reachable panic violates the implicit "no panic" obligation
	h.obligationAt(e, s, False, "no-panic", "panic", msg+" at "+e.where(s))
}

func (h *HarnessRun) deadlock(e *Exec, s *State) {
	h.EndKinds["deadlock"]++
	var blocked []string
	for _, g := range s.gs {
		if g.status == GBlocked && len(g.frames) > 0 {
			f := g.top()
			blocked = append(blocked, fmt.Sprintf("g%d %s@%s", g.id, f.fn.Name(), e.posOf(f.block.Instrs[f.ip])))
		}
	}
	h.obligationAt(e, s, False, "no-deadlock", "deadlock", strings.Join(blocked, "; "))
}

func (h *HarnessRun) cover(e *Exec, s *State, id string) {
	if h.Covers[id] > 0 {
		h.Covers[id]++
		return
	}
	r := e.pf.Check(s.pc, nil)
	if r.Status == Sat {
		h.Covers[id]++
	}
}

func (h *HarnessRun) implicitObligation(e *Exec, s *State, cond *Term, kind string) {
	if e.initMode {
		return
	}
	if cond.IsTrue() {
		return
	}
	if h.Spec.AllowPanic {
		s.assume(cond)
		return
	}
	h.obligationAt(e, s, cond, "no-panic", kind, kind+" at "+e.where(s))
}

func (h *HarnessRun) obligation(e *Exec, s *State, cond *Term, id string, implicit bool) {
	h.obligationAt(e, s, cond, id, "assert", e.where(s))
}

func (h *HarnessRun) obligationAt(e *Exec, s *State, cond *Term, id, kind, where string) {
	h.Obligations++
	h.ObligationIDs[id]++
	if cond.IsTrue() {
		h.Discharged++
		h.DischargedIDs[id]++
		return
	}
	// known-finding classes registered for this obligation
	var classes []*Term
	var classNames []string
	for _, kf := range h.known {
		if kf.Harness == h.Spec.Name && kf.Obligation == id && kf.Status != "fixed" {
			if c, ok := s.known[kf.Class]; ok {
				classes = append(classes, c)
				classNames = append(classNames, kf.Class)
			}
		}
	}
	neg := Not(cond)
	base := append(append([]*Term(nil), s.pc...), neg)
	if len(classes) > 0 {
		// (ii) each listed class: is the known defect still there?
		for i, c := range classes {
			hk := classNames[i] + "|" + id
			if _, seen := h.KnownHits[hk]; seen {
				continue
			}
			r := e.pf.Check(append(append([]*Term(nil), base...), c), nondetVars(s))
			if r.Status == Sat {
				h.KnownHits[hk] = fmt.Sprintf("%s/%s %v", h.Spec.Name, id, compactModel(modelStrings(s, r.Model)))
			}
		}
		// (i) outside every listed class the obligation must hold
		for _, c := range classes {
			base = append(base, Not(c))
		}
	}
	key := id + "|" + kind
	if h.cexSeen[key] && len(classes) == 0 {
		// already have a counterexample for this obligation: do not spend more
		// solver time on it (the first one is replayed); keep exploring.
		s.assume(cond)
		return
	}
	// constraint independence: decide the part connected to the obligation first
	extra := base[len(s.pc):]
	rel, rest := sliceRelevant(s.pc, extra)
	r := e.pf.Check(append(append([]*Term(nil), rel...), extra...), nondetVars(s))
	if r.Status == Sat && len(rest) > 0 {
		// the rest must be satisfiable too, otherwise the path is infeasible
		r2 := e.pf.Check(rest, nondetVars(s))
		switch r2.Status {
		case Unsat:
			r = r2
		case Sat:
			for k, v := range r2.Model {
				if _, ok := r.Model[k]; !ok {
					r.Model[k] = v
				}
			}
			// variables of the rest take their own witness values
			relVars := map[string]bool{}
			for _, c := range append(append([]*Term(nil), rel...), extra...) {
				for _, id := range termVars(c) {
					relVars[varNameByID(id)] = true
				}
			}
			for k, v := range r2.Model {
				if !relVars[k] {
					r.Model[k] = v
				}
			}
		default:
			r = r2
		}
	}
	switch r.Status {
	case Unsat:
		h.Discharged++
		h.DischargedIDs[id]++
	case Sat:
		h.cexSeen[key] = true
		cx := &Counterexample{Harness: h.Spec.Name, Obligation: id, Kind: kind, Where: where,
			Model: modelStrings(s, r.Model), Choices: map[string]int{}, Sched: append([]string(nil), s.sched...)}
		for _, nr := range s.nondet {
			if nr.HasChoice {
				cx.Choices[nr.Name] = nr.Choice
			}
		}
		h.Cex = append(h.Cex, cx)
	default:
		h.Incon = append(h.Incon, Inconclusive{h.Spec.Name, "solver-unknown", id + ": " + r.Err})
	}
	if cond.IsFalse() {
		return
	}
	s.assume(cond)
}

func compactModel(m map[string]string) string {
	keys := make([]string, 0, len(m))
	for k := range m {
		keys = append(keys, k)
	}
	sort.Strings(keys)
	var sb strings.Builder
	for i, k := range keys {
		if i > 12 {
			sb.WriteString(" …")
			break
		}
		fmt.Fprintf(&sb, " %s=%s", k, m[k])
	}
	return strings.TrimSpace(sb.String())
}

// map iteration order hooks (default: insertion order)
func (h *HarnessRun) mapOrder(e *Exec, s *State, n int) int { return 0 }
func (h *HarnessRun) mapReverse(e *Exec, s *State) bool      { return false }

// ---------- running one harness ----------

// work queue shared by the workers of one harness
type workQ struct {
	mu     sync.Mutex
	cond   *sync.Cond
	items  []*State
	active int
}

func newWorkQ() *workQ {
	q := &workQ{}
	q.cond = sync.NewCond(&q.mu)
	return q
}

func (q *workQ) push(ss ...*State) {
	q.mu.Lock()
	q.items = append(q.items, ss...)
	q.mu.Unlock()
	q.cond.Broadcast()
}

func (q *workQ) pop() (*State, bool) {
	q.mu.Lock()
	defer q.mu.Unlock()
	for len(q.items) == 0 {
		if q.active == 0 {
			q.cond.Broadcast()
			return nil, false
		}
		q.cond.Wait()
	}
	s := q.items[len(q.items)-1]
	q.items = q.items[:len(q.items)-1]
	q.active++
	return s, true
}

func (q *workQ) done() {
	q.mu.Lock()
	q.active--
	q.mu.Unlock()
	q.cond.Broadcast()
}

var cpuSem = make(chan struct{}, runtime.NumCPU())

func (h *HarnessRun) run(prog *ssa.Program, hpkg *ssa.Package, base *State, tier string, known []KnownFinding) {
	start := time.Now()
	h.known = known
	fn := hpkg.Func(h.Spec.Name)
	if fn == nil {
		msg := "harness function not found in " + hpkg.Pkg.Path()
		for f, e := range droppedHarnessFiles {
			msg += "; " + filepath.Base(f) + " was left out: it does not compile against this tree (" + e + ")"
		}
		h.Incon = append(h.Incon, Inconclusive{h.Spec.Name, "missing", msg})
		return
	}
	h.StaticIDs = staticObligationIDs(fn)
	timeout := 60000
	if tier == "thorough" {
		timeout = 600000
	}
	nw := runtime.NumCPU()
	if h.Spec.Explore {
		nw = runtime.NumCPU()
	}
	q := newWorkQ()
	shards := make([]*HarnessRun, nw)
	var wg sync.WaitGroup
	mkExec := func(sh *HarnessRun) *Exec {
		pf := NewPortfolio(h.Stats, timeout, tier == "thorough")
		e := &Exec{prog: prog, hpkg: hpkg, pf: pf, h: sh, unwind: h.Spec.Unwind, explore: h.Spec.Explore, topQ: q}
		if e.unwind == 0 {
			e.unwind = 64
		}
		return e
	}
	// initial state
	s := base.clone()
	s.gs = []*G{{id: 0, status: GRunnable, name: "harness"}}
	s.cur = 0
	{
		e0 := mkExec(h)
		e0.pushFrame(s, fn, nil, nil, nil)
		e0.pf.Close()
		h.noteFunc(fn)
		h.States = 1
	}
	q.push(s)
	for i := 0; i < nw; i++ {
		sh := newHarnessRun(h.Spec, tier)
		sh.Stats = h.Stats
		sh.known = known
		sh.params = h.params
		sh.maxSteps = h.maxSteps
		sh.schedBudget = h.schedBudget/nw + 1
		shards[i] = sh
		wg.Add(1)
		go func(sh *HarnessRun) {
			defer wg.Done()
			var e *Exec
			defer func() {
				if e != nil {
					e.pf.Close()
				}
			}()
			for {
				st, ok := q.pop()
				if !ok {
					return
				}
				cpuSem <- struct{}{}
				if e == nil {
					e = mkExec(sh)
				}
				func() {
					defer func() {
						if r := recover(); r != nil {
							sh.Incon = append(sh.Incon, Inconclusive{h.Spec.Name, "engine-error", fmt.Sprintf("%v\n%s", r, debug.Stack())})
						}
					}()
					e.process(st)
				}()
				<-cpuSem
				q.done()
			}
		}(sh)
	}
	wg.Wait()
	for _, sh := range shards {
		h.absorb(sh)
	}
	h.Wall = time.Since(start).Seconds()
}

func (h *HarnessRun) absorb(o *HarnessRun) {
	h.States += o.States
	h.Transitions += o.Transitions
	h.Forks += o.Forks
	h.Merges += o.Merges
	h.FeasQueries += o.FeasQueries
	h.SchedForks += o.SchedForks
	h.SchedTruncated = h.SchedTruncated || o.SchedTruncated
	h.Obligations += o.Obligations
	h.Discharged += o.Discharged
	h.Paths += o.Paths
	h.PathsDone += o.PathsDone
	for k, v := range o.ObligationIDs {
		h.ObligationIDs[k] += v
	}
	for k, v := range o.DischargedIDs {
		h.DischargedIDs[k] += v
	}
	for k, v := range o.EndKinds {
		h.EndKinds[k] += v
	}
	for k, v := range o.Covers {
		h.Covers[k] += v
	}
	seen := map[string]bool{}
	for _, c := range h.Cex {
		seen[c.Obligation+"|"+c.Kind] = true
	}
	for _, c := range o.Cex {
		if !seen[c.Obligation+"|"+c.Kind] {
			seen[c.Obligation+"|"+c.Kind] = true
			h.Cex = append(h.Cex, c)
		}
	}
	h.Incon = append(h.Incon, o.Incon...)
	for k, v := range o.KnownHits {
		if _, ok := h.KnownHits[k]; !ok {
			h.KnownHits[k] = v
		}
	}
	for k := range o.Funcs {
		h.Funcs[k] = true
	}
	for k := range o.Assumptions {
		h.Assumptions[k] = true
	}
	for _, sm := range o.Samples {
		if len(h.Samples) < 4 {
			h.Samples = append(h.Samples, sm)
		}
	}
}

// process explores one top-level state: regions + scheduling; forks at the
// top level go back to the shared queue.
func (e *Exec) process(s *State) {
	e.h.Paths++
	_, _, escaped, _ := e.region(s, nil)
	for _, es := range escaped {
		var next []*State
		func() {
			defer func() {
				if r := recover(); r != nil {
					switch x := r.(type) {
					case pathEnd:
						e.h.pathEnded(e, es, x)
					case unsupportedErr:
						e.h.pathEnded(e, es, pathEnd{"unsupported", x.msg})
					case goPanic:
						e.h.goPanicked(e, es, x.msg)
					default:
						panic(r)
					}
				}
			}()
			next = e.schedule(es)
		}()
		e.topQ.push(next...)
	}
}

var progressLog = os.Getenv("VCHECK_PROGRESS") != ""

// staticObligationIDs lists the constant ids passed to zzAssert in the harness
// function and the zz helpers it calls (same package), for the vacuity report.
func staticObligationIDs(root *ssa.Function) []string {
	seen := map[*ssa.Function]bool{}
	ids := map[string]bool{}
	var visit func(fn *ssa.Function)
	visit = func(fn *ssa.Function) {
		if fn == nil || seen[fn] || fn.Blocks == nil {
			return
		}
		seen[fn] = true
		for _, af := range fn.AnonFuncs {
			visit(af)
		}
		for _, b := range fn.Blocks {
			for _, in := range b.Instrs {
				var cc *ssa.CallCommon
				switch c := in.(type) {
				case *ssa.Call:
					cc = c.Common()
				case *ssa.Defer:
					cc = c.Common()
				case *ssa.Go:
					cc = c.Common()
				}
				if cc == nil {
					continue
				}
				callee := cc.StaticCallee()
				if callee == nil {
					continue
				}
				if callee.Name() == "zzAssert" && len(cc.Args) == 2 {
					if k, ok := cc.Args[1].(*ssa.Const); ok && k.Value != nil {
						ids[constant.StringVal(k.Value)] = true
					}
					continue
				}
				if callee.Pkg == root.Pkg && strings.HasPrefix(callee.Name(), "zz") {
					visit(callee)
				}
			}
		}
	}
	visit(root)
	out := make([]string, 0, len(ids))
	for k := range ids {
		out = append(out, k)
	}
	sort.Strings(out)
	return out
}
