package main

import (
	"fmt"
	"go/types"
	"os"
)

// identical reports whether two values are the same value (no solver).
func identical(a, b Value) bool {
	switch x := a.(type) {
	case nil:
		return b == nil
	case *Term:
		y, ok := b.(*Term)
		return ok && x == y
	case StrV:
		y, ok := b.(StrV)
		if !ok {
			return false
		}
		if x.Sym == nil || y.Sym == nil {
			return x.Sym == nil && y.Sym == nil && x.C == y.C
		}
		if x.Sym == y.Sym {
			return true
		}
		if x.Sym.Kind != y.Sym.Kind || len(x.Sym.Args) != len(y.Sym.Args) {
			return false
		}
		for i := range x.Sym.Args {
			if !identical(x.Sym.Args[i], y.Sym.Args[i]) {
				return false
			}
		}
		return true
	case FloatV:
		y, ok := b.(FloatV)
		if !ok {
			return false
		}
		if x.Sym == nil || y.Sym == nil {
			return x.Sym == nil && y.Sym == nil && (x.C == y.C || (x.C != x.C && y.C != y.C))
		}
		if x.Sym == y.Sym {
			return true
		}
		if x.Sym.Kind != y.Sym.Kind || x.Sym.Int != y.Sym.Int || len(x.Sym.Ops) != len(y.Sym.Ops) {
			return false
		}
		for i := range x.Sym.Ops {
			if x.Sym.Ops[i] != y.Sym.Ops[i] {
				return false
			}
		}
		return true
	case StructV:
		y, ok := b.(StructV)
		if !ok || len(x) != len(y) {
			return false
		}
		if len(x) > 0 && &x[0] == &y[0] {
			return true
		}
		for i := range x {
			if !identical(x[i], y[i]) {
				return false
			}
		}
		return true
	case ArrayV:
		y, ok := b.(ArrayV)
		if !ok || len(x) != len(y) {
			return false
		}
		if len(x) > 0 && &x[0] == &y[0] {
			return true
		}
		for i := range x {
			if !identical(x[i], y[i]) {
				return false
			}
		}
		return true
	case TupleV:
		y, ok := b.(TupleV)
		if !ok || len(x) != len(y) {
			return false
		}
		for i := range x {
			if !identical(x[i], y[i]) {
				return false
			}
		}
		return true
	case PtrV:
		y, ok := b.(PtrV)
		return ok && x == y
	case SliceV:
		y, ok := b.(SliceV)
		return ok && x.Obj == y.Obj && x.Off == y.Off && x.Len == y.Len && x.Cap == y.Cap
	case MapV:
		y, ok := b.(MapV)
		return ok && x == y
	case ChanV:
		y, ok := b.(ChanV)
		return ok && x == y
	case IterV:
		y, ok := b.(IterV)
		return ok && x == y
	case ArrViewV:
		y, ok := b.(ArrViewV)
		return ok && x == y
	case IfaceV:
		y, ok := b.(IfaceV)
		if !ok {
			return false
		}
		if x.T == nil || y.T == nil {
			return x.T == nil && y.T == nil
		}
		return types.Identical(x.T, y.T) && identical(x.V, y.V)
	case *FuncV:
		y, ok := b.(*FuncV)
		if !ok {
			return false
		}
		if x == nil || y == nil {
			return x == nil && y == nil
		}
		if x.Fn != y.Fn || x.Builtin != y.Builtin || len(x.Env) != len(y.Env) {
			return false
		}
		for i := range x.Env {
			if !identical(x.Env[i], y.Env[i]) {
				return false
			}
		}
		return true
	case *MapObj:
		y, ok := b.(*MapObj)
		if !ok {
			return false
		}
		if x == y {
			return true
		}
		if len(x.Entries) != len(y.Entries) {
			return false
		}
		for i := range x.Entries {
			if !identical(x.Entries[i].K, y.Entries[i].K) || !identical(x.Entries[i].V, y.Entries[i].V) {
				return false
			}
		}
		return true
	case *ChanObj:
		y, ok := b.(*ChanObj)
		if !ok {
			return false
		}
		if x == y {
			return true
		}
		if x.Cap != y.Cap || x.Closed != y.Closed || len(x.Buf) != len(y.Buf) || x.Timer != y.Timer {
			return false
		}
		for i := range x.Buf {
			if !identical(x.Buf[i], y.Buf[i]) {
				return false
			}
		}
		return true
	case *iterObj:
		y, ok := b.(*iterObj)
		if !ok {
			return false
		}
		if x == y {
			return true
		}
		if x.isStr != y.isStr || x.str != y.str || x.pos != y.pos || len(x.keys) != len(y.keys) {
			return false
		}
		for i := range x.keys {
			if !identical(x.keys[i], y.keys[i]) || !identical(x.vals[i], y.vals[i]) {
				return false
			}
		}
		return true
	case PoisonV:
		_, ok := b.(PoisonV)
		return ok
	}
	return false
}

// mergeValue builds ite(c, a, b) where possible.
func mergeValue(c *Term, a, b Value) (Value, bool) {
	if identical(a, b) {
		return a, true
	}
	switch x := a.(type) {
	case *Term:
		y, ok := b.(*Term)
		if !ok || x.W != y.W {
			return nil, false
		}
		return Ite(c, x, y), true
	case StructV:
		y, ok := b.(StructV)
		if !ok || len(x) != len(y) {
			return nil, false
		}
		out := make(StructV, len(x))
		for i := range x {
			m, ok := mergeValue(c, x[i], y[i])
			if !ok {
				return nil, false
			}
			out[i] = m
		}
		return out, true
	case ArrayV:
		y, ok := b.(ArrayV)
		if !ok || len(x) != len(y) {
			return nil, false
		}
		out := make(ArrayV, len(x))
		for i := range x {
			m, ok := mergeValue(c, x[i], y[i])
			if !ok {
				return nil, false
			}
			out[i] = m
		}
		return out, true
	case TupleV:
		y, ok := b.(TupleV)
		if !ok || len(x) != len(y) {
			return nil, false
		}
		out := make(TupleV, len(x))
		for i := range x {
			m, ok := mergeValue(c, x[i], y[i])
			if !ok {
				return nil, false
			}
			out[i] = m
		}
		return out, true
	case IfaceV:
		y, ok := b.(IfaceV)
		if !ok || x.T == nil || y.T == nil || !types.Identical(x.T, y.T) {
			return nil, false
		}
		m, ok := mergeValue(c, x.V, y.V)
		if !ok {
			return nil, false
		}
		return IfaceV{T: x.T, V: m}, true
	case *FuncV:
		y, ok := b.(*FuncV)
		if !ok || x == nil || y == nil || x.Fn != y.Fn || x.Builtin != y.Builtin || len(x.Env) != len(y.Env) {
			return nil, false
		}
		env := make([]Value, len(x.Env))
		for i := range env {
			m, ok := mergeValue(c, x.Env[i], y.Env[i])
			if !ok {
				return nil, false
			}
			env[i] = m
		}
		return &FuncV{Fn: x.Fn, Builtin: x.Builtin, Env: env}, true
	case FloatV:
		y, ok := b.(FloatV)
		if !ok {
			return nil, false
		}
		return mergeFloat(c, x, y)
	case StrV:
		y, ok := b.(StrV)
		if !ok || x.Sym == nil || y.Sym == nil {
			return nil, false
		}
		if x.Sym.Kind != y.Sym.Kind || len(x.Sym.Args) != len(y.Sym.Args) {
			return nil, false
		}
		args := make([]Value, len(x.Sym.Args))
		for i := range args {
			m, ok := mergeValue(c, x.Sym.Args[i], y.Sym.Args[i])
			if !ok {
				return nil, false
			}
			args[i] = m
		}
		return StrV{Sym: &StrSym{Kind: x.Sym.Kind, Args: args}}, true
	case *MapObj:
		y, ok := b.(*MapObj)
		if !ok || len(x.Entries) != len(y.Entries) {
			return nil, false
		}
		nm := &MapObj{KT: x.KT, VT: x.VT, Entries: make([]MapEntry, len(x.Entries))}
		for i := range x.Entries {
			if !identical(x.Entries[i].K, y.Entries[i].K) {
				return nil, false
			}
			m, ok := mergeValue(c, x.Entries[i].V, y.Entries[i].V)
			if !ok {
				return nil, false
			}
			nm.Entries[i] = MapEntry{x.Entries[i].K, m}
		}
		return nm, true
	case *ChanObj:
		y, ok := b.(*ChanObj)
		if !ok || x.Cap != y.Cap || x.Closed != y.Closed || len(x.Buf) != len(y.Buf) || x.Timer != y.Timer {
			return nil, false
		}
		nc := *x
		nc.Buf = make([]Value, len(x.Buf))
		for i := range x.Buf {
			m, ok := mergeValue(c, x.Buf[i], y.Buf[i])
			if !ok {
				return nil, false
			}
			nc.Buf[i] = m
		}
		return &nc, true
	}
	return nil, false
}

func lcp(a, b []*Term) int {
	n := 0
	for n < len(a) && n < len(b) && a[n] == b[n] {
		n++
	}
	return n
}

// sameShape: frames of all goroutines at identical control locations.
func sameShape(a, b *State) bool {
	if len(a.gs) != len(b.gs) || a.cur != b.cur {
		return false
	}
	for i := range a.gs {
		ga, gb := a.gs[i], b.gs[i]
		if ga.status != gb.status || len(ga.frames) != len(gb.frames) || ga.handoff != gb.handoff || ga.idleWait != gb.idleWait {
			return false
		}
		for j := range ga.frames {
			fa, fb := ga.frames[j], gb.frames[j]
			if fa.fn != fb.fn || fa.block != fb.block || fa.ip != fb.ip || fa.act != fb.act ||
				len(fa.defers) != len(fb.defers) || fa.retTo != fb.retTo || fa.panicking != fb.panicking {
				return false
			}
			// note: prev may differ (phis already evaluated at join points)
		}
	}
	if len(a.ghost) != len(b.ghost) || len(a.timers) != len(b.timers) || len(a.nondet) != len(b.nondet) {
		return false
	}
	for i := range a.ghost {
		if a.ghost[i].Kind != b.ghost[i].Kind || len(a.ghost[i].Args) != len(b.ghost[i].Args) {
			return false
		}
	}
	for i := range a.nondet {
		if a.nondet[i].Name != b.nondet[i].Name || a.nondet[i].Choice != b.nondet[i].Choice || len(a.nondet[i].Vars) != len(b.nondet[i].Vars) {
			return false
		}
		for k := range a.nondet[i].Vars {
			if a.nondet[i].Vars[k] != b.nondet[i].Vars[k] {
				return false
			}
		}
	}
	if len(a.sched) != len(b.sched) {
		return false
	}
	for i := range a.sched {
		if a.sched[i] != b.sched[i] {
			return false
		}
	}
	return true
}

// tryMerge merges b into a (returns new state) or reports failure.
var mergeDebug = os.Getenv("VCHECK_MERGEDEBUG") != ""

func mdbg(format string, args ...interface{}) {
	if mergeDebug {
		fmt.Fprintf(os.Stderr, "merge-fail: "+format+"\n", args...)
	}
}

func (e *Exec) tryMerge(a, b *State) (*State, bool) {
	if !sameShape(a, b) {
		mdbg("shape differs at %s (nondet %d/%d ghost %d/%d)", e.where(a), len(a.nondet), len(b.nondet), len(a.ghost), len(b.ghost))
		return nil, false
	}
	n := lcp(a.pc, b.pc)
	// conjuncts common to both sides stay separate conjuncts of the merged
	// path condition (this keeps unrelated constraints independent)
	inB := map[*Term]bool{}
	for _, t := range b.pc[n:] {
		inB[t] = true
	}
	var common, onlyA, onlyB []*Term
	inCommon := map[*Term]bool{}
	for _, t := range a.pc[n:] {
		if inB[t] {
			common = append(common, t)
			inCommon[t] = true
		} else {
			onlyA = append(onlyA, t)
		}
	}
	for _, t := range b.pc[n:] {
		if !inCommon[t] {
			onlyB = append(onlyB, t)
		}
	}
	ga := And(onlyA...)
	gb := And(onlyB...)
	c := ga
	// globals must agree
	if len(a.globals) != len(b.globals) {
		// allow: one side touched a new global; require same ids where both exist
	}
	for g, id := range a.globals {
		if id2, ok := b.globals[g]; ok && id2 != id {
			return nil, false
		}
	}
	ok := e.mergeInto(a, b, c, false)
	if !ok {
		gcState(a)
		gcState(b)
		ok = e.mergeInto(a, b, c, false)
		if !ok {
			return nil, false
		}
	}
	m := a.clone()
	e.mergeInto(m, b, c, true)
	m.pc = append(append([]*Term(nil), a.pc[:n]...), common...)
	if d := Or(ga, gb); !d.IsTrue() {
		m.pc = append(m.pc, d)
	}
	if b.nextObj > m.nextObj {
		m.nextObj = b.nextObj
	}
	if b.nextAct > m.nextAct {
		m.nextAct = b.nextAct
	}
	if b.steps > m.steps {
		m.steps = b.steps
	}
	if b.hardOps > m.hardOps {
		m.hardOps = b.hardOps
	}
	if b.assumes > m.assumes {
		m.assumes = b.assumes
	}
	for g, id := range b.globals {
		if _, ok := m.globals[g]; !ok {
			m.globals[g] = id
		}
	}
	for k, v := range b.initDone {
		if v {
			m.initDone[k] = true
		}
	}
	for k, v := range b.nondetN {
		if v > m.nondetN[k] {
			m.nondetN[k] = v
		}
	}
	for k, v := range b.known {
		if _, ok := m.known[k]; !ok {
			m.known[k] = v
		}
	}
	e.h.Merges++
	return m, true
}

// mergeInto checks (apply=false) or performs (apply=true) the value merge of b into a.
func (e *Exec) mergeInto(a, b *State, c *Term, apply bool) bool {
	// heap
	for id, va := range a.heap {
		vb, ok := b.heap[id]
		if !ok {
			mdbg("heap o%d only on one side: %s", id, showValue(va))
			return false
		}
		m, ok := mergeValue(c, va, vb)
		if !ok {
			mdbg("heap o%d: %s vs %s", id, showValue(va), showValue(vb))
			return false
		}
		if apply {
			a.heap[id] = m
		}
	}
	for id := range b.heap {
		if _, ok := a.heap[id]; !ok {
			mdbg("heap o%d only on other side: %s", id, showValue(b.heap[id]))
			return false
		}
	}
	// frames
	for i := range a.gs {
		for j := range a.gs[i].frames {
			fa, fb := a.gs[i].frames[j], b.gs[i].frames[j]
			for k := range fa.locals {
				la, lb := fa.locals[k], fb.locals[k]
				if la == nil && lb == nil {
					continue
				}
				if la == nil || lb == nil {
					// dead on one path: keep whichever is set
					if apply && la == nil {
						fa.locals[k] = lb
					}
					continue
				}
				m, ok := mergeValue(c, la, lb)
				if !ok {
					mdbg("local %d of %s: %s vs %s", k, fa.fn.Name(), showValue(la), showValue(lb))
					return false
				}
				if apply {
					fa.locals[k] = m
				}
			}
			for k := range fa.defers {
				da, db := fa.defers[k], fb.defers[k]
				if !identical(da.fn, db.fn) || len(da.args) != len(db.args) {
					return false
				}
				for q := range da.args {
					m, ok := mergeValue(c, da.args[q], db.args[q])
					if !ok {
						return false
					}
					if apply {
						fa.defers[k].args[q] = m
					}
				}
			}
		}
		ga, gb := a.gs[i], b.gs[i]
		if ga.handoff {
			m, ok := mergeValue(c, ga.handoffVal, gb.handoffVal)
			if !ok {
				return false
			}
			if apply {
				ga.handoffVal = m
			}
		}
	}
	for i := range a.ghost {
		for k := range a.ghost[i].Args {
			m, ok := mergeValue(c, a.ghost[i].Args[k], b.ghost[i].Args[k])
			if !ok {
				return false
			}
			if apply {
				na := append([]Value(nil), a.ghost[i].Args...)
				na[k] = m
				a.ghost[i].Args = na
			}
		}
	}
	for i := range a.timers {
		ta, tb := a.timers[i], b.timers[i]
		if ta.Ch != tb.Ch || ta.Fired != tb.Fired || ta.Stopped != tb.Stopped {
			return false
		}
		if apply {
			a.timers[i].Created = Ite(c, ta.Created, tb.Created)
			a.timers[i].D = Ite(c, ta.D, tb.D)
		}
	}
	if (a.clock == nil) != (b.clock == nil) {
		return false
	}
	if a.clock != nil && apply {
		a.clock = Ite(c, a.clock, b.clock)
	}
	if a.nowSeq != b.nowSeq {
		return false
	}
	// known classes
	for k, va := range a.known {
		if vb, ok := b.known[k]; ok && apply {
			a.known[k] = Ite(c, va, vb)
		}
	}
	return true
}

func minObj(a, b *State) ObjID {
	if a.nextObj < b.nextObj {
		return a.nextObj
	}
	return b.nextObj
}

// gcState drops heap objects unreachable from frames, globals, ghost log.
func gcState(s *State) {
	mark := map[ObjID]bool{}
	var visit func(v Value)
	var stack []ObjID
	visit = func(v Value) {
		switch x := v.(type) {
		case PtrV:
			if x.Obj != 0 && !mark[x.Obj] {
				mark[x.Obj] = true
				stack = append(stack, x.Obj)
			}
		case SliceV:
			if x.Obj != 0 && !mark[x.Obj] {
				mark[x.Obj] = true
				stack = append(stack, x.Obj)
			}
		case MapV:
			if x.Obj != 0 && !mark[x.Obj] {
				mark[x.Obj] = true
				stack = append(stack, x.Obj)
			}
		case ChanV:
			if x.Obj != 0 && !mark[x.Obj] {
				mark[x.Obj] = true
				stack = append(stack, x.Obj)
			}
		case ArrViewV:
			if x.Obj != 0 && !mark[x.Obj] {
				mark[x.Obj] = true
				stack = append(stack, x.Obj)
			}
		case IterV:
			if x.Obj != 0 && !mark[x.Obj] {
				mark[x.Obj] = true
				stack = append(stack, x.Obj)
			}
		case StructV:
			for _, f := range x {
				visit(f)
			}
		case ArrayV:
			for _, f := range x {
				visit(f)
			}
		case TupleV:
			for _, f := range x {
				visit(f)
			}
		case IfaceV:
			visit(x.V)
		case *FuncV:
			if x != nil {
				for _, f := range x.Env {
					visit(f)
				}
			}
		case StrV:
			if x.Sym != nil {
				for _, f := range x.Sym.Args {
					visit(f)
				}
			}
		case *MapObj:
			for _, en := range x.Entries {
				visit(en.K)
				visit(en.V)
			}
		case *ChanObj:
			for _, f := range x.Buf {
				visit(f)
			}
		case *iterObj:
			for _, f := range x.keys {
				visit(f)
			}
			for _, f := range x.vals {
				visit(f)
			}
		}
	}
	for _, g := range s.gs {
		for _, f := range g.frames {
			for _, l := range f.locals {
				visit(l)
			}
			for _, d := range f.defers {
				visit(d.fn)
				for _, a := range d.args {
					visit(a)
				}
			}
		}
		visit(g.handoffVal)
	}
	for _, id := range s.globals {
		if !mark[id] {
			mark[id] = true
			stack = append(stack, id)
		}
	}
	for _, ge := range s.ghost {
		for _, a := range ge.Args {
			visit(a)
		}
	}
	for _, t := range s.timers {
		if !mark[t.Ch] {
			mark[t.Ch] = true
			stack = append(stack, t.Ch)
		}
	}
	for len(stack) > 0 {
		id := stack[len(stack)-1]
		stack = stack[:len(stack)-1]
		visit(s.heap[id])
	}
	for id := range s.heap {
		if !mark[id] {
			delete(s.heap, id)
		}
	}
}

// mergeAll merges parked states that arrived at the same location.
func (e *Exec) mergeAll(ps []*State, why []string) []*State {
	if len(ps) <= 1 {
		return ps
	}
	var out []*State
	var outWhy []string
	for i, p := range ps {
		merged := false
		for j := range out {
			if outWhy[j] != why[i] {
				continue
			}
			if m, ok := e.tryMerge(out[j], p); ok {
				out[j] = m
				merged = true
				break
			}
		}
		if !merged {
			out = append(out, p)
			outWhy = append(outWhy, why[i])
		}
	}
	return out
}
