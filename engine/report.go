package main

import (
	"encoding/json"
	"fmt"
	"os"
	"path/filepath"
	"sort"
	"strings"
	"time"
)

func report(prop, tier string, seed int, runs []*HarnessRun, known []KnownFinding, start time.Time, writeEvidence, verbose bool) int {
	byProp := map[string][]*HarnessRun{}
	for _, r := range runs {
		byProp[r.Spec.Prop] = append(byProp[r.Spec.Prop], r)
	}
	props := make([]string, 0, len(byProp))
	for p := range byProp {
		props = append(props, p)
	}
	sort.Strings(props)
	exit := 0
	for _, p := range props {
		if c := reportProp(p, tier, seed, byProp[p], known, start, writeEvidence, verbose); c > exit {
			exit = c
		}
	}
	return exit
}

func reportProp(prop, tier string, seed int, runs []*HarnessRun, known []KnownFinding, start time.Time, writeEvidence, verbose bool) int {
	violations := 0
	inconclusive := 0
	var lines []string
	var states, transitions, obligations, discharged, validated int
	funcs := map[string]bool{}
	assumptions := map[string]bool{}
	var samples []interface{}
	solverQ := map[string]int{}
	solverT := map[string]float64{}
	var bounds []string
	perHarness := []map[string]interface{}{}
	knownPrinted := map[string]bool{}
	for _, h := range runs {
		states += h.States
		transitions += h.Transitions
		obligations += h.Obligations
		discharged += h.Discharged
		for f := range h.Funcs {
			funcs[f] = true
		}
		for a := range h.Assumptions {
			assumptions[a] = true
		}
		for _, s := range h.Samples {
			if len(samples) < 6 {
				samples = append(samples, map[string]interface{}{"harness": h.Spec.Name, "path_witness": s})
			}
		}
		for k, v := range h.Stats.Queries {
			solverQ[k] += v
		}
		for k, v := range h.Stats.Time {
			solverT[k] += v
		}
		if h.Spec.Bounds != "" {
			bounds = append(bounds, h.Spec.Name+": "+h.Spec.Bounds)
		}
		// vacuity: at least one path must reach the end of the harness
		if h.PathsDone == 0 && len(h.Incon) == 0 {
			h.Incon = append(h.Incon, Inconclusive{h.Spec.Name, "vacuous", "no path reached the end of the harness"})
		}
		// translator validation: a witness of a completed, violation-free path
		// must also run clean natively (all assumptions hold, no assertion fails)
		if !h.Spec.NoNative && h.Spec.Structural == "" && len(h.Cex) == 0 {
			nval := 1
			if tier == "thorough" {
				nval = 3
			}
			for i, sm := range h.Samples {
				if i >= nval {
					break
				}
				doc := &ReplayDoc{Property: prop, Harness: h.Spec.Name, Package: h.Spec.Pkg, Extra: h.Spec.Extra, Obligation: "(validation)", Assignment: sm, Params: h.params, Race: h.Spec.Race}
				res, out := runNative(doc)
				if res == "not-reproduced" && !strings.Contains(out, "ZZ-ASSUME-FALSE") && !strings.Contains(out, "ZZ-FAILED") && !strings.Contains(out, "ZZ-PANIC") && !strings.Contains(out, "ZZ-DEADLOCK") && !strings.Contains(out, "ZZ-RACE") {
					validated++
				} else {
					h.Incon = append(h.Incon, Inconclusive{h.Spec.Name, "engine-mismatch", "witness of a clean path does not run clean natively: " + res + "\n" + indent(out) + "\n    inputs: " + compactModel(sm)})
				}
			}
		}
		// replay counterexamples
		for _, cx := range h.Cex {
			if cx.Kind == "structural" {
				cx.ReplayPath = writeStructuralReplay(prop, cx)
			} else {
				replayCex(prop, h, cx)
			}
			switch cx.Replayed {
			case "confirmed", "no-replay-needed":
				violations++
				lines = append(lines, fmt.Sprintf("VIOLATION property=%s replay=%s", prop, cx.ReplayPath))
				fmt.Printf("  harness=%s obligation=%s kind=%s at %s\n  inputs: %s\n", cx.Harness, cx.Obligation, cx.Kind, cx.Where, compactModel(cx.Model))
			default:
				inconclusive++
				fmt.Printf("INCONCLUSIVE (unconfirmed counterexample) property=%s harness=%s obligation=%s kind=%s at %s\n  inputs: %s\n  replay: %s\n%s\n", prop, cx.Harness, cx.Obligation, cx.Kind, cx.Where, compactModel(cx.Model), cx.ReplayPath, indent(cx.ReplayOut))
			}
		}
		for _, ic := range h.Incon {
			inconclusive++
			fmt.Printf("INCONCLUSIVE property=%s harness=%s %s: %s\n", prop, ic.Harness, ic.Kind, ic.Msg)
		}
		for hk, desc := range h.KnownHits {
			parts := strings.SplitN(hk, "|", 2)
			for _, kf := range known {
				if kf.Class == parts[0] && kf.Obligation == parts[1] && kf.Harness == h.Spec.Name && kf.Status != "fixed" && !knownPrinted[hk] {
					knownPrinted[hk] = true
					fmt.Printf("KNOWN-FINDING: property=%s %s [harness %s obligation %s class %s; witness %s]\n", prop, kf.Description, kf.Harness, kf.Obligation, parts[0], desc)
				}
			}
		}
		ph := map[string]interface{}{
			"harness": h.Spec.Name, "wall_s": round2(h.Wall), "states": h.States, "merges": h.Merges, "forks": h.Forks,
			"transitions": h.Transitions, "paths": h.Paths, "paths_completed": h.PathsDone, "path_ends": h.EndKinds,
			"obligations": h.Obligations, "discharged": h.Discharged, "obligation_ids": h.ObligationIDs,
			"counterexamples": len(h.Cex), "inconclusive": len(h.Incon), "bounds": h.Spec.Bounds, "outside": h.Spec.Outside,
			"schedule_forks": h.SchedForks, "schedule_truncated": h.SchedTruncated, "feasibility_queries": h.FeasQueries,
			"covers": h.Covers,
			"unreached_obligation_ids": unreached(h),
		}
		perHarness = append(perHarness, ph)
	}
	for _, l := range lines {
		fmt.Println(l)
	}
	wall := time.Since(start).Seconds()
	status := "PASS"
	code := 0
	if violations > 0 {
		status = "FAIL"
		code = 1
	} else if inconclusive > 0 {
		status = "INCONCLUSIVE"
		code = 3
	}
	fmt.Printf("%s property=%s tier=%s harnesses=%d obligations=%d discharged=%d violations=%d inconclusive=%d wall=%.1fs\n",
		status, prop, tier, len(runs), obligations, discharged, violations, inconclusive, wall)
	if writeEvidence {
		fl := make([]string, 0, len(funcs))
		for f := range funcs {
			if !strings.Contains(f, "zz") {
				fl = append(fl, f)
			}
		}
		sort.Strings(fl)
		al := make([]string, 0, len(assumptions))
		for a := range assumptions {
			al = append(al, a)
		}
		al = append(al, standingAssumptions...)
		sort.Strings(al)
		if len(samples) == 0 {
			samples = append(samples, map[string]interface{}{"note": "no completed path produced a witness"})
		}
		ev := map[string]interface{}{
			"property_id": prop,
			"tier":        tier,
			"seed":        seed,
			"level":       "model_checking",
			"wall_s":      round2(wall),
			"violations":  violations,
			"assumptions": al,
			"coverage": map[string]interface{}{
				"states":                        max(states, 1),
				"transitions":                   max(transitions, 1),
				"traces_validated_against_impl": validated,
				"samples":                       samples,
				"obligations":                   obligations,
				"discharged":                    discharged,
				"inconclusive":                  inconclusive,
				"exhaustive":                    false,
				"explanation":                   "bounded symbolic execution of the go/ssa form of the listed functions; every obligation is an SMT query (pc ∧ ¬cond) decided unsat by z3 5.1 / cvc5 (bv-as-int) within the stated bounds; states = symbolic states created, transitions = SSA instructions executed symbolically",
				"functions_encoded":             fl,
				"bounds":                        bounds,
				"harnesses":                     perHarness,
				"solver_queries":                solverQ,
				"solver_time_s":                 roundMap(solverT),
				"checker_cmd":                   "z3-new -in | cvc5 --incremental [--solve-bv-as-int=sum]",
			},
		}
		b, _ := json.MarshalIndent(ev, "", " ")
		os.MkdirAll(filepath.Join(verifDir, "evidence"), 0o755)
		if err := os.WriteFile(filepath.Join(verifDir, "evidence", prop+".json"), b, 0o644); err != nil {
			fmt.Fprintln(os.Stderr, "evidence:", err)
		}
	}
	return code
}

var standingAssumptions = []string{
	"go/ssa (x/tools v0.29.0) faithfully represents the source of /repo and of the dependencies executed through their real bodies",
	"cooperative goroutine model: context switches only at blocking operations; no data-race detection",
	"harness stubs (zzStub_*) stand for the environment and return arbitrary values within their documented contract",
	"string formatting is modelled as injective uninterpreted functions",
}

func round2(f float64) float64 { return float64(int(f*100+0.5)) / 100 }

func roundMap(m map[string]float64) map[string]float64 {
	out := map[string]float64{}
	for k, v := range m {
		out[k] = round2(v)
	}
	return out
}

func indent(s string) string {
	if s == "" {
		return ""
	}
	ls := strings.Split(strings.TrimRight(s, "\n"), "\n")
	if len(ls) > 30 {
		ls = ls[len(ls)-30:]
	}
	return "    " + strings.Join(ls, "\n    ")
}

// unreached: constant obligation ids of the harness source that no explored
// path evaluated (vacuity report; error-path-only assertions are expected here).
func unreached(h *HarnessRun) []string {
	out := []string{}
	for _, id := range h.StaticIDs {
		if h.ObligationIDs[id] == 0 {
			out = append(out, id)
		}
	}
	return out
}

func writeStructuralReplay(prop string, cx *Counterexample) string {
	dir := filepath.Join(replaysDir(), prop)
	os.MkdirAll(dir, 0o755)
	path := filepath.Join(dir, cx.Harness+"-structural.json")
	b, _ := json.MarshalIndent(map[string]interface{}{"property": prop, "harness": cx.Harness, "obligation": cx.Obligation, "kind": "structural", "detail": cx.Where,
		"command": "cd /verif && ./bin/vcheck run " + prop + " --harness " + cx.Harness}, "", " ")
	os.WriteFile(path, b, 0o644)
	return path
}
