import struct, fractions, sys
c=0.33
fr=fractions.Fraction(c)
# c = M * 2^E with M odd-ish 53-bit
m,e=fr.numerator, fr.denominator
E=-(e.bit_length()-1); M=m
assert fractions.Fraction(M)*fractions.Fraction(2)**E==fr
lo,hi=4_000_000_000,1_800_000_000_000
Lmin=(M*lo).bit_length(); Lmax=(M*hi).bit_length()
out=[]
out.append("(set-logic QF_LIA)")
out.append("(declare-const x Int)")
out.append(f"(assert (and (>= x {lo}) (<= x {hi})))")
out.append(f"(define-fun P () Int (* {M} x))")
# result integer = floor(RN53(P) * 2^E)
def branch(L):
    s=L-53
    # q = P div 2^s ; r = P mod 2^s ; half=2^(s-1)
    q=f"(div P {2**s})"; r=f"(mod P {2**s})"; half=2**(s-1)
    up=f"(or (> {r} {half}) (and (= {r} {half}) (= (mod {q} 2) 1)))"
    qq=f"(ite {up} (+ {q} 1) {q})"
    # value = qq * 2^(s+E); s+E negative?
    k=s+E
    if k>=0: return f"(* {qq} {2**k})"
    return f"(div {qq} {2**(-k)})"
expr=None
for L in range(Lmax,Lmin-1,-1):
    b=branch(L)
    cond=f"(and (>= P {2**(L-1)}) (< P {2**L}))"
    expr = b if expr is None else f"(ite {cond} {b} {expr})"
out.append(f"(define-fun u () Int {expr})")
out.append("(define-fun q0 () Int (div (* 33 x) 100))")
out.append("(define-fun impl () Int (- u (mod u 1000000000)))")
out.append("(define-fun spec () Int (- q0 (mod q0 1000000000)))")
out.append("(assert (not (= impl spec)))")
out.append("(check-sat)")
open("fplia.smt2","w").write("\n".join(out))
print(M,E,Lmin,Lmax)
