import fractions
W=128
def bv(n): return f"(_ bv{n} {W})"
c=0.33
fr=fractions.Fraction(c); M=fr.numerator; E=-(fr.denominator.bit_length()-1)
lo,hi=4_000_000_000,1_800_000_000_000
Lmin=(M*lo).bit_length(); Lmax=(M*hi).bit_length()
o=[]
o.append("(set-logic QF_BV)")
o.append("(declare-const x64 (_ BitVec 64))")
o.append(f"(assert (and (bvuge x64 (_ bv{lo} 64)) (bvule x64 (_ bv{hi} 64))))")
o.append(f"(define-fun x () (_ BitVec {W}) ((_ zero_extend 64) x64))")
o.append(f"(define-fun P () (_ BitVec {W}) (bvmul {bv(M)} x))")
def branch(L):
    s=L-53
    q=f"(bvlshr P {bv(s)})"; r=f"(bvand P {bv(2**s-1)})"; half=bv(2**(s-1))
    up=f"(or (bvugt {r} {half}) (and (= {r} {half}) (= ((_ extract 0 0) {q}) #b1)))"
    qq=f"(ite {up} (bvadd {q} {bv(1)}) {q})"
    k=s+E
    if k>=0: return f"(bvshl {qq} {bv(k)})"
    return f"(bvlshr {qq} {bv(-k)})"
expr=None
for L in range(Lmax,Lmin-1,-1):
    b=branch(L)
    cond=f"(and (bvuge P {bv(2**(L-1))}) (bvult P {bv(2**L)}))"
    expr=b if expr is None else f"(ite {cond} {b} {expr})"
o.append(f"(define-fun u () (_ BitVec 64) ((_ extract 63 0) {expr}))")
o.append("(define-fun S () (_ BitVec 64) (_ bv1000000000 64))")
o.append("(define-fun q0 () (_ BitVec 64) (bvudiv (bvmul (_ bv33 64) x64) (_ bv100 64)))")
o.append("(define-fun impl () (_ BitVec 64) (bvsub u (bvsrem u S)))")
o.append("(define-fun spec () (_ BitVec 64) (bvsub q0 (bvsrem q0 S)))")
o.append("(assert (not (= impl spec)))")
o.append("(check-sat)")
open("fpbv.smt2","w").write("\n".join(o))
